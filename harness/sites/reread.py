"""
Config equality as coded (supervisor/options.py, supervisor/datatypes.py): the attribute names each __eq__ compares.
  pconfigEqAttrs : ProcessConfig.req_param_names + optional_param_names (the loop of ProcessConfig.__eq__)
  groupEqAttrs / poolEqAttrs / fcgiEqAttrs / socketEqAttrs : the `self.<attr>` operands of the comparisons in
      ProcessGroupConfig.__eq__, EventListenerPoolConfig.__eq__, FastCGIGroupConfig.__eq__, SocketConfig.__eq__
  eqBaseClass : the class named in each `isinstance(other, X)` guard
Dropping an attribute from a comparison changes a table and breaks Props/C15 `eq_characterised`.
  eqCompares : per group-level __eq__ (and SocketConfig.__eq__) every comparison of a `self.<attr>` operand as
      (attr, operator, other operand); a loop `for a in ('x', 'y'): if getattr(self, a, None) != getattr(other, a, None)`
      counts as one comparison per listed name.  Props/C15 `eq_compares_paired` demands that each one pairs self.<attr>
      with other.<attr>.
  eqUnrecognised : the statements of those __eq__ methods that are not of a shape the model follows (isinstance guard,
      `if self.a != other.a: return False`, a conjunction of `self.a == other.a` returning True, `return True/False`,
      delegation to ProcessGroupConfig.__eq__, the getattr loop above).  Props/C15 `eq_shape_understood` demands
      that there is none: a hand-written loop or an extra early return inside an __eq__ is not silently ignored.
The main loop and a group removed by a request of the same pass (supervisor/supervisord.py Supervisor.runforever,
supervisor/process.py ProcessGroupBase.__eq__):
  loopIteratesSnapshot : the loop that calls <group>.transition() runs over a list taken from self.process_groups
      before poll() (requests are dispatched between the two), not over the live table
  loopTransitionGuard  : the test in front of <group>.transition() in that loop: `.identity` (any(group is g for g in
      self.process_groups.values())), `.membershipEq` (group in self.process_groups.values(), or any(group == g ...):
      decided by ProcessGroupBase.__eq__), `.none` (no test)
  processGroupEqDefined / processGroupEqAttrs : whether ProcessGroupBase defines __eq__ and the self.<path> ==
      other.<path> comparisons it consists of
Any other shape is an extraction error (ValueError).  Props/C15 `removed_group_not_transitioned` is proved for the
extracted guard.
A file that cannot be parsed (supervisor/options.py expand(), supervisor/rpcinterface.py reloadConfig):
  expandHandlers : the `except` clauses around `s % expansions` in expand(), in order, as (class caught, class raised);
      a bare `except:` is ("BaseException", ..), a clause that re-raises is (c, "<same>")
  reloadCatches  : the `except` clauses around options.process_config(...) in reloadConfig as (class caught, name of the
      fault of the RPCError raised)
  Props/C15 `format_failure_is_value_error` / `unparsable_format_answered_cant_reread`: whatever class `%` raises
      (KeyError, ValueError, TypeError), a ValueError leaves expand() and reloadConfig answers CANT_REREAD.
The working directory (supervisor/options.py):
  childLogfileChain : the functions applied, in order, to the value of stdout_logfile / stderr_logfile in
      _processes_from_section (`lf_val = f(...)`)
  cwdCalls : per function that builds group / process configurations, the calls of functions whose result depends on
      the working directory (normalize_path, abspath, realpath, getcwd, relpath ...)
  fcgiSocketPathMustBeAbsolute : parse_fcgi_socket refuses a unix socket path that is not absolute before anything else
  Props/C15 `parse_independent_of_cwd` / `unchanged_file_reports_nothing_after_chdir`.
"""
import ast, os
from extract import REPO, lean_str

LEAN_MODULE = 'Reread'
IMPORTS = []
OPENS = []


def _cls(tree, name):
    return next(n for n in tree.body if isinstance(n, ast.ClassDef) and n.name == name)


def _meth(cls, name):
    return next(n for n in cls.body if isinstance(n, ast.FunctionDef) and n.name == name)


def _self_attrs(fn):
    out = []
    for n in ast.walk(fn):
        if isinstance(n, ast.Compare):
            for e in [n.left] + n.comparators:
                if isinstance(e, ast.Attribute) and isinstance(e.value, ast.Name) and e.value.id == 'self' and e.attr not in out:
                    out.append(e.attr)
    for n in ast.walk(fn):
        if isinstance(n, ast.For):
            for a in _getattr_loop(n) or []:
                if a not in out:
                    out.append(a)
    return out


def _is_self_attr(e):
    return isinstance(e, ast.Attribute) and isinstance(e.value, ast.Name) and e.value.id == 'self'


def _getattr_loop(st):
    """`for a in ('x', ...): if getattr(self, a[, None]) != getattr(other, a[, None]): return False` -> (names, op) or None"""
    if not (isinstance(st, ast.For) and isinstance(st.target, ast.Name) and isinstance(st.iter, (ast.Tuple, ast.List))
            and all(isinstance(e, ast.Constant) and isinstance(e.value, str) for e in st.iter.elts) and not st.orelse
            and len(st.body) == 1 and isinstance(st.body[0], ast.If) and not st.body[0].orelse):
        return None
    t, var = st.body[0].test, st.target.id
    def ga(e, who):
        return (isinstance(e, ast.Call) and isinstance(e.func, ast.Name) and e.func.id == 'getattr' and len(e.args) in (2, 3)
                and isinstance(e.args[0], ast.Name) and e.args[0].id == who and isinstance(e.args[1], ast.Name) and e.args[1].id == var
                and (len(e.args) == 2 or (isinstance(e.args[2], ast.Constant) and e.args[2].value is None)))
    if not (isinstance(t, ast.Compare) and len(t.ops) == 1 and isinstance(t.ops[0], ast.NotEq) and ga(t.left, 'self')
            and ga(t.comparators[0], 'other') and len(t.left.args) == len(t.comparators[0].args)):
        return None
    b = st.body[0].body
    if not (len(b) == 1 and isinstance(b[0], ast.Return) and isinstance(b[0].value, ast.Constant) and b[0].value.value is False):
        return None
    return [e.value for e in st.iter.elts]


_OPS = {ast.Eq: '==', ast.NotEq: '!=', ast.Lt: '<', ast.LtE: '<=', ast.Gt: '>', ast.GtE: '>=', ast.Is: 'is', ast.IsNot: 'is not',
        ast.In: 'in', ast.NotIn: 'not in'}


def _compares(fn):
    """every comparison with a self.<attr> operand: (attr, operator, the other operand)"""
    out = []
    for n in ast.walk(fn):
        if isinstance(n, ast.Compare) and len(n.ops) == 1:
            l, r = n.left, n.comparators[0]
            if _is_self_attr(l):
                out.append((n.lineno, n.col_offset, l.attr, _OPS.get(type(n.ops[0]), '?'), ast.unparse(r)))
            elif _is_self_attr(r):
                out.append((n.lineno, n.col_offset, r.attr, _OPS.get(type(n.ops[0]), '?') + ' (reversed)', ast.unparse(l)))
        elif isinstance(n, ast.For):
            names = _getattr_loop(n)
            for k, a in enumerate(names or []):
                out.append((n.lineno, n.col_offset + k, a, '!=', 'other.' + a))
    return [(a, o, r) for _, _, a, o, r in sorted(out)]


def _bool_const(e):
    return isinstance(e, ast.Constant) and isinstance(e.value, bool)


def _cmp_conj(e, op):
    """a comparison `self.a <op> <expr>` or a conjunction of such"""
    if isinstance(e, ast.BoolOp) and isinstance(e.op, ast.And):
        return all(_cmp_conj(v, op) for v in e.values)
    return isinstance(e, ast.Compare) and len(e.ops) == 1 and isinstance(e.ops[0], op) and _is_self_attr(e.left)


def _unrecognised(fn):
    bad = []
    for st in fn.body:
        if isinstance(st, ast.Expr) and isinstance(st.value, ast.Constant):
            continue                                                     # docstring
        if isinstance(st, ast.Return):
            v = st.value
            if _bool_const(v) or _cmp_conj(v, ast.Eq):
                continue
            if (isinstance(v, ast.Call) and isinstance(v.func, ast.Attribute) and v.func.attr == '__eq__'
                    and [ast.unparse(a) for a in v.args] == ['self', 'other'] and not v.keywords):
                continue                                                 # delegation to the base class
        if isinstance(st, ast.If) and not st.orelse and len(st.body) == 1 and isinstance(st.body[0], ast.Return) and _bool_const(st.body[0].value):
            t, val = st.test, st.body[0].value.value
            if (val is False and isinstance(t, ast.UnaryOp) and isinstance(t.op, ast.Not) and isinstance(t.operand, ast.Call)
                    and isinstance(t.operand.func, ast.Name) and t.operand.func.id == 'isinstance'
                    and isinstance(t.operand.args[0], ast.Name) and t.operand.args[0].id == 'other'):
                continue
            if val is False and isinstance(t, ast.Compare) and len(t.ops) == 1 and isinstance(t.ops[0], ast.NotEq) and _is_self_attr(t.left):
                continue
            if val is True and _cmp_conj(t, ast.Eq):
                continue
        if _getattr_loop(st) is not None:
            continue
        bad.append(ast.unparse(st).split('\n')[0][:120])
    return bad


def _isinstance(fn):
    for n in ast.walk(fn):
        if isinstance(n, ast.Call) and isinstance(n.func, ast.Name) and n.func.id == 'isinstance':
            return ast.unparse(n.args[1])
    return ''


def _strlist(cls, name):
    for st in cls.body:
        if isinstance(st, ast.Assign) and st.targets[0].id == name:
            return [e.value for e in st.value.elts]
    raise KeyError(name)


def _values_of_table(e):
    """`self.process_groups.values()` possibly wrapped in list(...)"""
    if isinstance(e, ast.Call) and isinstance(e.func, ast.Name) and e.func.id == 'list' and len(e.args) == 1 and not e.keywords:
        e = e.args[0]
    return ast.unparse(e) == 'self.process_groups.values()'


def _is_transition_call(st, var):
    return (isinstance(st, ast.Expr) and isinstance(st.value, ast.Call) and not st.value.args and not st.value.keywords
            and ast.unparse(st.value.func) == var + '.transition')


def _guard_kind(test, var):
    if (isinstance(test, ast.Call) and isinstance(test.func, ast.Name) and test.func.id == 'any' and len(test.args) == 1 and not test.keywords
            and isinstance(test.args[0], ast.GeneratorExp) and len(test.args[0].generators) == 1):
        gen = test.args[0].generators[0]
        elt = test.args[0].elt
        if (isinstance(gen.target, ast.Name) and not gen.ifs and not gen.is_async and _values_of_table(gen.iter) and isinstance(elt, ast.Compare)
                and len(elt.ops) == 1 and isinstance(elt.left, ast.Name) and isinstance(elt.comparators[0], ast.Name)
                and {elt.left.id, elt.comparators[0].id} == {var, gen.target.id} and var != gen.target.id):
            if isinstance(elt.ops[0], ast.Is):
                return 'identity'
            if isinstance(elt.ops[0], ast.Eq):
                return 'membershipEq'
    if (isinstance(test, ast.Compare) and len(test.ops) == 1 and isinstance(test.ops[0], ast.In) and isinstance(test.left, ast.Name)
            and test.left.id == var and _values_of_table(test.comparators[0])):
        return 'membershipEq'
    raise ValueError('runforever: the test in front of %s.transition() has a shape this extractor does not know: %s' % (var, ast.unparse(test)))


def _loop_facts():
    """(iterates a snapshot taken before poll(), guard kind) for the loop of runforever that calls <group>.transition()"""
    sd = ast.parse(open(os.path.join(REPO, 'supervisor/supervisord.py')).read())
    rf = _meth(_cls(sd, 'Supervisor'), 'runforever')
    loops = [n for n in ast.walk(rf) if isinstance(n, ast.For) and isinstance(n.target, ast.Name)
             and any(_is_transition_call(c, n.target.id) for c in ast.walk(n))]
    if len(loops) != 1:
        raise ValueError('runforever: %d loops call <group>.transition(), expected 1' % len(loops))
    loop = loops[0]
    var = loop.target.id
    polls = [n.lineno for n in ast.walk(rf) if isinstance(n, ast.Call) and ast.unparse(n.func).endswith('poller.poll')]
    if len(polls) != 1 or loop.lineno < polls[0]:
        raise ValueError('runforever: the transition loop is not after the single poll() call')
    if isinstance(loop.iter, ast.Name):
        assigns = [n for n in ast.walk(rf) if isinstance(n, ast.Assign) and len(n.targets) == 1 and isinstance(n.targets[0], ast.Name)
                   and n.targets[0].id == loop.iter.id]
        if len(assigns) != 1 or not _values_of_table(assigns[0].value) or not isinstance(assigns[0].value, ast.Call) \
                or ast.unparse(assigns[0].value.func) != 'list':
            raise ValueError('runforever: %s is not assigned once from list(self.process_groups.values())' % loop.iter.id)
        snapshot = assigns[0].lineno < polls[0]        # taken after poll(): the same as running over the live table
    elif _values_of_table(loop.iter):
        snapshot = False
    else:
        raise ValueError('runforever: the transition loop runs over %s' % ast.unparse(loop.iter))
    if loop.orelse:
        raise ValueError('runforever: the transition loop has an else branch')
    body = [st for st in loop.body if not (isinstance(st, ast.Expr) and isinstance(st.value, ast.Constant))]
    if len(body) == 1 and _is_transition_call(body[0], var):
        return snapshot, 'none'
    if (len(body) == 1 and isinstance(body[0], ast.If) and not body[0].orelse and len(body[0].body) == 1
            and _is_transition_call(body[0].body[0], var)):
        return snapshot, _guard_kind(body[0].test, var)
    raise ValueError('runforever: the body of the transition loop has a shape this extractor does not know: %s' % ast.unparse(loop).split('\n')[1:3])


def _group_eq_facts():
    """(defined, [compared attribute paths]) of ProcessGroupBase.__eq__"""
    pr = ast.parse(open(os.path.join(REPO, 'supervisor/process.py')).read())
    cls = _cls(pr, 'ProcessGroupBase')
    eqs = [n for n in cls.body if isinstance(n, ast.FunctionDef) and n.name == '__eq__']
    if not eqs:
        return False, []
    body = [st for st in eqs[0].body if not (isinstance(st, ast.Expr) and isinstance(st.value, ast.Constant))]
    if len(body) != 1 or not isinstance(body[0], ast.Return) or body[0].value is None:
        raise ValueError('ProcessGroupBase.__eq__ is not a single return statement')
    v = body[0].value
    parts = v.values if isinstance(v, ast.BoolOp) and isinstance(v.op, ast.And) else [v]
    paths = []
    for c in parts:
        if not (isinstance(c, ast.Compare) and len(c.ops) == 1 and isinstance(c.ops[0], ast.Eq)):
            raise ValueError('ProcessGroupBase.__eq__: not a comparison with ==: %s' % ast.unparse(c))
        l, r = ast.unparse(c.left), ast.unparse(c.comparators[0])
        if not (l.startswith('self.') and r.startswith('other.') and l[len('self.'):] == r[len('other.'):]):
            raise ValueError('ProcessGroupBase.__eq__: does not pair self.<x> with other.<x>: %s' % ast.unparse(c))
        paths.append(l[len('self.'):])
    return True, paths


def _exc_names(t):
    if t is None:
        return ['BaseException']
    if isinstance(t, ast.Tuple):
        return [ast.unparse(e).split('.')[-1] for e in t.elts]
    return [ast.unparse(t).split('.')[-1]]


def _expand_handlers(opt):
    fn = next(n for n in opt.body if isinstance(n, ast.FunctionDef) and n.name == 'expand')
    tries = [n for n in ast.walk(fn) if isinstance(n, ast.Try)
             and any(isinstance(b, ast.BinOp) and isinstance(b.op, ast.Mod) for st in n.body for b in ast.walk(st))]
    mods = [b for b in ast.walk(fn) if isinstance(b, ast.BinOp) and isinstance(b.op, ast.Mod) and isinstance(b.left, ast.Name) and b.left.id == fn.args.args[0].arg]
    if len(tries) != 1 or len(mods) != 1 or tries[0].finalbody or tries[0].orelse:
        raise ValueError('expand(): `s %% expansions` is not inside exactly one try/except (%d try statements, %d formatting operations)' % (len(tries), len(mods)))
    out = []
    for h in tries[0].handlers:
        raises = [n for n in ast.walk(h) if isinstance(n, ast.Raise)]
        # straight-line code ending in the clause's only raise (nothing is returned or swallowed)
        if len(raises) != 1 or h.body[-1] is not raises[0] or any(isinstance(n, (ast.Return, ast.Try, ast.If, ast.For, ast.While, ast.With)) for n in ast.walk(h)):
            raise ValueError('expand(): an except clause is not straight-line code ending in a raise statement: %s' % ast.unparse(h).split('\n')[0])
        r = raises[0]
        if r.exc is None:
            raised = '<same>'
        elif isinstance(r.exc, ast.Call):
            raised = ast.unparse(r.exc.func).split('.')[-1]
        else:
            raise ValueError('expand(): raise of %s' % ast.unparse(r.exc))
        for c in _exc_names(h.type):
            out.append((c, raised))
    return out


def _reload_catches():
    ri = ast.parse(open(os.path.join(REPO, 'supervisor/rpcinterface.py')).read())
    fn = _meth(_cls(ri, 'SupervisorNamespaceRPCInterface'), 'reloadConfig')
    calls = [n for n in ast.walk(fn) if isinstance(n, ast.Call) and isinstance(n.func, ast.Attribute) and n.func.attr == 'process_config']
    tries = [n for n in fn.body if isinstance(n, ast.Try) and any(c in list(ast.walk(ast.Module(body=n.body, type_ignores=[]))) for c in calls)]
    if len(calls) != 1 or len(tries) != 1 or tries[0].finalbody:
        raise ValueError('reloadConfig: options.process_config(...) is not called once, inside one try/except at the top level of the method')
    out = []
    for h in tries[0].handlers:
        if len(h.body) != 1 or not isinstance(h.body[0], ast.Raise) or not isinstance(h.body[0].exc, ast.Call) \
                or ast.unparse(h.body[0].exc.func).split('.')[-1] != 'RPCError' or not h.body[0].exc.args:
            raise ValueError('reloadConfig: an except clause is not `raise RPCError(Faults.X, ...)`: %s' % ast.unparse(h).split('\n')[0])
        fault = ast.unparse(h.body[0].exc.args[0]).split('.')[-1]
        for c in _exc_names(h.type):
            out.append((c, fault))
    return out


CWD_DEPENDENT = {'normalize_path', 'abspath', 'realpath', 'getcwd', 'getcwdb', 'relpath', 'absolute', 'resolve', 'cwd', 'fchdir', 'chdir'}
CONFIG_BUILDERS = ['process_groups_from_parser', 'processes_from_section', '_processes_from_section', 'parse_fcgi_socket']


def _cwd_facts(opt):
    so = _cls(opt, 'ServerOptions')
    calls = []
    for name in CONFIG_BUILDERS:
        fn = _meth(so, name)
        found = []
        for n in ast.walk(fn):
            if isinstance(n, ast.Call):
                f = ast.unparse(n.func).split('.')[-1]
                if f in CWD_DEPENDENT:
                    found.append(f)
        calls.append((name, found))
    # the chain of functions applied to a child log file name
    fn = _meth(so, '_processes_from_section')
    loops = [n for n in ast.walk(fn) if isinstance(n, ast.For) and isinstance(n.iter, (ast.Tuple, ast.List))
             and [getattr(e, 'value', None) for e in n.iter.elts] == ['stdout', 'stderr']]
    if len(loops) != 1:
        raise ValueError("_processes_from_section: %d loops over ('stdout', 'stderr'), expected 1" % len(loops))
    keyvars = [st.targets[0].id for st in loops[0].body if isinstance(st, ast.Assign) and isinstance(st.targets[0], ast.Name)
               and isinstance(st.value, ast.BinOp) and isinstance(st.value.left, ast.Constant) and st.value.left.value == '%s_logfile']
    stores = [n for n in ast.walk(loops[0]) if isinstance(n, ast.Assign) and isinstance(n.targets[0], ast.Subscript)
              and ast.unparse(n.targets[0].slice) in keyvars and isinstance(n.value, ast.Name)]
    if len(keyvars) != 1 or len(stores) != 1:
        raise ValueError('_processes_from_section: cannot find where the log file name is stored (logfiles[<key>] = <name>)')
    var = stores[0].value.id
    chain = []
    def walk(stmts):
        for st in stmts:
            if isinstance(st, ast.Assign) and any(isinstance(t, ast.Name) and t.id == var for t in st.targets):
                if isinstance(st.value, ast.Constant):
                    continue                                             # (syslog: the name is dropped, lf_val = None)
                if not isinstance(st.value, ast.Call):
                    raise ValueError('_processes_from_section: %s is assigned something that is not a call: %s' % (var, ast.unparse(st)))
                chain.append(ast.unparse(st.value.func).split('.')[-1])
            elif isinstance(st, (ast.AugAssign, ast.AnnAssign)) and ast.unparse(st.target) == var:
                raise ValueError('_processes_from_section: %s' % ast.unparse(st))
            for field in ('body', 'orelse', 'finalbody'):
                b = getattr(st, field, None)
                if isinstance(b, list) and b and isinstance(b[0], ast.stmt):
                    walk(b)
            for h in getattr(st, 'handlers', []) or []:
                walk(h.body)
    walk(loops[0].body)
    # parse_fcgi_socket: `if not os.path.isabs(path): raise ValueError(...)` in front of every other use of the path
    pf = _meth(so, 'parse_fcgi_socket')
    isabs = False
    for n in ast.walk(pf):
        if isinstance(n, ast.If) and isinstance(n.test, ast.UnaryOp) and isinstance(n.test.op, ast.Not) and isinstance(n.test.operand, ast.Call) \
                and ast.unparse(n.test.operand.func).split('.')[-1] == 'isabs' and n.body and isinstance(n.body[0], ast.Raise):
            later = [c for c in ast.walk(pf) if isinstance(c, ast.Call) and ast.unparse(c.func).split('.')[-1] in CWD_DEPENDENT]
            isabs = all(c.lineno > n.lineno for c in later)
    return calls, chain, isabs


LOOP_TABLE_HEADER = [
    '/-- how runforever decides, after the requests of a pass were dispatched, whether a group of the list taken before poll() is still active -/',
    'inductive GuardKind where',
    '  | identity      -- any(group is g for g in self.process_groups.values())',
    '  | membershipEq  -- group in self.process_groups.values()  (ProcessGroupBase.__eq__ decides)',
    '  | none          -- no test: every group of the list is transitioned',
    'deriving DecidableEq, Repr',
]


def TABLES():
    snapshot, guard = _loop_facts()
    eq_defined, eq_paths = _group_eq_facts()
    opt = ast.parse(open(os.path.join(REPO, 'supervisor/options.py')).read())
    dt = ast.parse(open(os.path.join(REPO, 'supervisor/datatypes.py')).read())
    pc = _cls(opt, 'ProcessConfig')
    eq = _meth(pc, '__eq__')
    # the loop `for name in self.req_param_names + self.optional_param_names`
    loop = next(n for n in ast.walk(eq) if isinstance(n, ast.For))
    parts = [e.attr for e in ast.walk(loop.iter) if isinstance(e, ast.Attribute) and e.attr.endswith('_param_names')]
    names = []
    for p in parts:
        names += _strlist(pc, p)
    L = []
    def lst(n, xs):
        L.append('def %s : List String := [%s]' % (n, ', '.join(lean_str(x) for x in xs)))
    lst('pconfigEqAttrs', names)
    wild = any(isinstance(n, ast.Name) and n.id == 'Automatic' for n in ast.walk(loop))
    L.append('def pconfigEqAutomaticWildcard : Bool := %s' % ('true' if wild else 'false'))
    bases, shapes = [], []
    for cname, tname, tree in (('ProcessGroupConfig', 'groupEqAttrs', opt), ('EventListenerPoolConfig', 'poolEqAttrs', opt),
                               ('FastCGIGroupConfig', 'fcgiEqAttrs', opt), ('SocketConfig', 'socketEqAttrs', dt)):
        fn = _meth(_cls(tree, cname), '__eq__')
        lst(tname, _self_attrs(fn))
        bases.append((cname, _isinstance(fn)))
        shapes.append((cname, _compares(fn), _unrecognised(fn)))
    bases.append(('ProcessConfig', _isinstance(eq)))
    L.append('def eqBaseClass : List (String × String) := [%s]' % ', '.join('(%s, %s)' % (lean_str(a), lean_str(b)) for a, b in bases))
    L.append('/-- every comparison of a self.<attr> operand inside the group-level __eq__ methods: (attr, operator, other operand) -/')
    L.append('def eqCompares : List (String × List (String × String × String)) := [%s]' % ', '.join(
        '(%s, [%s])' % (lean_str(c), ', '.join('(%s, %s, %s)' % (lean_str(a), lean_str(o), lean_str(r)) for a, o, r in cs)) for c, cs, _ in shapes))
    L.append('/-- statements of those methods whose shape the model does not follow -/')
    L.append('def eqUnrecognised : List (String × List String) := [%s]' % ', '.join(
        '(%s, [%s])' % (lean_str(c), ', '.join(lean_str(x) for x in bad)) for c, _, bad in shapes))
    fc = _meth(_cls(opt, 'FastCGIGroupConfig'), '__eq__')
    delegates = any(isinstance(n, ast.Attribute) and n.attr == '__eq__' and isinstance(n.value, ast.Name) and n.value.id == 'ProcessGroupConfig'
                    for n in ast.walk(fc))
    L.append('def fcgiEqDelegatesToGroup : Bool := %s' % ('true' if delegates else 'false'))
    # class hierarchy facts used by isinstance
    def bases_of(c):
        return [ast.unparse(b) for b in _cls(opt, c).bases]
    L.append('def classBases : List (String × List String) := [%s]' % ', '.join(
        '(%s, [%s])' % (lean_str(c), ', '.join(lean_str(b) for b in bases_of(c)))
        for c in ('ProcessConfig', 'EventListenerConfig', 'FastCGIProcessConfig', 'ProcessGroupConfig', 'EventListenerPoolConfig', 'FastCGIGroupConfig')))
    # ServerOptions.process_config: is the freshly parsed list installed unconditionally?
    pc2 = _meth(_cls(opt, 'ServerOptions'), 'process_config')
    guards, found = [], [False]
    def walk(stmts, tests):
        for st in stmts:
            if isinstance(st, ast.Assign) and any(isinstance(t, ast.Attribute) and t.attr == 'process_group_configs'
                                                  and isinstance(t.value, ast.Name) and t.value.id == 'self' for t in st.targets):
                found[0] = True
                guards.extend(tests)
            for field, neg in (('body', False), ('orelse', True)):
                b = getattr(st, field, None)
                if isinstance(b, list) and b and isinstance(b[0], ast.stmt):
                    t = getattr(st, 'test', None)
                    extra = []
                    if isinstance(st, (ast.If, ast.While)) and t is not None:
                        extra = [('not (%s)' % ast.unparse(t)) if neg else ast.unparse(t)]
                    elif not isinstance(st, (ast.If, ast.While)):
                        extra = ['<%s>' % type(st).__name__]
                    walk(b, tests + extra)
            if isinstance(st, ast.Try):
                for h in st.handlers:
                    walk(h.body, tests + ['<except>'])
    walk(pc2.body, [])
    # local names are resolved one step (new = self.configroot.supervisord.process_group_configs)
    L.append('/-- ServerOptions.process_config: does it assign self.process_group_configs, and under which tests -/')
    L.append('def processConfigInstalls : Bool := %s' % ('true' if found[0] else 'false'))
    lst('processConfigInstallGuards', guards)
    pairs = lambda xs: ', '.join('(%s, %s)' % (lean_str(a), lean_str(b)) for a, b in xs)
    L.append('/-- expand(): the except clauses around `s % expansions`, in order: (class caught, class raised) -/')
    L.append('def expandHandlers : List (String × String) := [%s]' % pairs(_expand_handlers(opt)))
    L.append('/-- reloadConfig: the except clauses around options.process_config(): (class caught, fault of the RPCError raised) -/')
    L.append('def reloadCatches : List (String × String) := [%s]' % pairs(_reload_catches()))
    cwd_calls, chain, isabs = _cwd_facts(opt)
    L.append('/-- the functions applied, in order, to the value of stdout_logfile / stderr_logfile in _processes_from_section -/')
    lst('childLogfileChain', chain)
    L.append('/-- calls of working-directory dependent functions inside the functions that build group / process configurations -/')
    L.append('def cwdCalls : List (String × List String) := [%s]' % ', '.join(
        '(%s, [%s])' % (lean_str(f), ', '.join(lean_str(c) for c in cs)) for f, cs in cwd_calls))
    L.append('def fcgiSocketPathMustBeAbsolute : Bool := %s' % ('true' if isabs else 'false'))
    L.extend(LOOP_TABLE_HEADER)
    L.append('def loopIteratesSnapshot : Bool := %s' % ('true' if snapshot else 'false'))
    L.append('def loopTransitionGuard : GuardKind := .%s' % guard)
    L.append('def processGroupEqDefined : Bool := %s' % ('true' if eq_defined else 'false'))
    lst('processGroupEqAttrs', eq_paths)
    return L


SITES = []
