import SupervisorModel.Basic.DriverKit
import SupervisorModel.Model.Envelope
import SupervisorModel.Model.Tick
def main : IO Unit := Sv.driverMain [("envelope", Sv.Envelope.runCase), ("tick", Sv.Tick.runCase)]
