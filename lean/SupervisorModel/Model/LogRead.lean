import SupervisorModel.Basic.Bytes
import SupervisorModel.Generated.LogRead
/-
  Model of `readFile` / `tailFile` (supervisor/options.py).  The file is a byte list; the
  control flow is written by hand, every comparison and offset computation is the definition
  regenerated from the source (`Sv.Gen.LogRead.*`).
-/
namespace Sv.LogRead
open Sv.Gen.LogRead

/-- `f.seek(pos); f.read(n)` for `pos ≥ 0`, `n ≥ 0` -/
def readAt (f : Bytes) (pos n : Int) : Bytes := (f.drop pos.toNat).take n.toNat
/-- `f.seek(pos); f.read()` -/
def readToEnd (f : Bytes) (pos : Int) : Bytes := f.drop pos.toNat

inductive RdErr | badArguments | failed
deriving DecidableEq, Repr

/-- `if pos < 0: pos = 0` -/
def clampPos (sz offset length pos : Int) : Int :=
  if readFile_g2 sz offset length pos then readFile_a4 sz offset length pos else pos

/-- options.py `readFile` (the OSError → FAILED branch is the harness' "no file" case) -/
def readFile (f : Bytes) (offset length : Int) : Except RdErr Bytes :=
  let sz : Int := f.length
  if readFile_g0 sz offset length 0 then
    if readFile_g1 sz offset length 0 then .error .badArguments
    else
      .ok (readAt f (clampPos sz offset length (readFile_a3 sz offset length 0)) (readFile_a0 sz offset length 0))
  else
    if readFile_g3 sz offset length 0 then .error .badArguments
    else if readFile_g4 sz offset length 0 then .ok (readToEnd f offset)
    else .ok (readAt f offset length)

structure Tail where
  data : Bytes
  offset : Int
  overflow : Bool
deriving DecidableEq, Repr

/-- options.py `tailFile` on an existing file -/
def tailFile (f : Bytes) (offset length : Int) : Tail :=
  let sz : Int := f.length
  let g0 := tailFile_g0 sz offset length 0
  let overflow := if g0 then tailFile_a2 sz offset length 0 else tailFile_a0 sz offset length 0
  let offset := if g0 then tailFile_a3 sz offset length 0 else offset
  let g1 := tailFile_g1 sz offset length 0
  let length := if g1 && tailFile_g2 sz offset length 0 then tailFile_a4 sz offset length 0 else length
  let offset := if g1 then tailFile_a5 sz offset length 0 else offset
  let offset := if tailFile_g3 sz offset length 0 then tailFile_a6 sz offset length 0 else offset
  let length := if tailFile_g4 sz offset length 0 then tailFile_a7 sz offset length 0 else length
  let data := if tailFile_g5 sz offset length 0 then tailFile_a8 sz offset length 0 else readAt f offset length
  { data := data, offset := tailFile_a10 sz offset length 0, overflow := overflow }

/-! line protocol -/
def runCase (cfg : List String) (ops : List String) : List String :=
  match kvGet cfg "file" >>= bytesOfHex with
  | none => ops.map fun _ => "bad-config"
  | some f => ops.map fun l =>
    match words l with
    | ["read", o, n] =>
      match o.toInt?, n.toInt? with
      | some o, some n =>
        match readFile f o n with
        | .ok d => s!"ok {hexOfBytes d}"
        | .error .badArguments => "err BAD_ARGUMENTS"
        | .error .failed => "err FAILED"
      | _, _ => "bad-op"
    | ["tail", o, n] =>
      match o.toInt?, n.toInt? with
      | some o, some n =>
        let t := tailFile f o n
        s!"ok {hexOfBytes t.data} {t.offset} {if t.overflow then 1 else 0}"
      | _, _ => "bad-op"
    | _ => "bad-op"

end Sv.LogRead
