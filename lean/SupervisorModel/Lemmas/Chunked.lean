import SupervisorModel.Model.Chunked
/-
  Refinement of the asynchat/HTTPHandler decoder to the byte-at-a-time automaton `step`:
  every pass of the `handle_read` loop leaves `abs` unchanged, so feeding a segment equals
  stepping its bytes, whatever the segmentation.
-/
set_option linter.unusedSimpArgs false
namespace Sv.Chunked
open Sv.Gen.Chunked

theorem step_err (a : Abs) (b : UInt8) (h : a.core.err.isSome) : step a b = a := by
  simp [step, h]

theorem foldl_step_err (w : Bytes) (a : Abs) (h : a.core.err.isSome) : w.foldl step a = a := by
  induction w with
  | nil => rfl
  | cons b w ih => simp [List.foldl, step_err a b h, ih]

/-! ### line mode -/

def pre (h : Bool) : Bytes := if h then [13] else []

theorem strip13_cons2 (x y : UInt8) (r : Bytes) : strip13 (x :: y :: r) = x :: strip13 (y :: r) := rfl
theorem ends13_cons2 (x y : UInt8) (r : Bytes) : ends13 (x :: y :: r) = ends13 (y :: r) := rfl

theorem strip13_cons_ne (b : UInt8) (w : Bytes) (hb : b ≠ 13) : strip13 (b :: w) = b :: strip13 w := by
  cases w with
  | nil => simp [strip13, hb]
  | cons y r => rfl

theorem ends13_cons_ne (b : UInt8) (w : Bytes) (hb : b ≠ 13) : ends13 (b :: w) = ends13 w := by
  cases w with
  | nil => simp [ends13, hb]
  | cons y r => rfl

/-- no CRLF in the pending input: all of it is collected except a trailing CR, which is held -/
theorem line_none (c : Core) (hc : c.err = none) (w : Bytes) :
    ∀ (l : Bytes) (h : Bool), splitCRLF (pre h ++ w) = none →
      w.foldl step ⟨c, .line l h⟩ = ⟨c, .line (l ++ strip13 (pre h ++ w)) (ends13 (pre h ++ w))⟩ := by
  induction w with
  | nil =>
    intro l h _
    cases h <;> simp [pre, strip13, ends13]
  | cons b w ih =>
    intro l h hs
    cases h with
    | false =>
      simp only [pre, Bool.false_eq_true, if_false, List.nil_append] at hs ⊢
      by_cases hb : b = 13
      · subst hb
        have := ih l true (by simpa [pre] using hs)
        simp only [List.foldl, step, hc, Option.isSome_none, Bool.false_eq_true, if_false, beq_self_eq_true, if_true]
        simpa [pre] using this
      · have hs' : splitCRLF (pre false ++ w) = none := by
          cases w with
          | nil => simp [pre, splitCRLF]
          | cons y r =>
            simp only [splitCRLF, beq_iff_eq, hb, false_and, Bool.false_eq_true, if_false, Bool.and_eq_true,
              Option.map_eq_none_iff] at hs
            simpa [pre] using hs
        have := ih (l ++ [b]) false hs'
        simp only [List.foldl, step, hc, Option.isSome_none, Bool.false_eq_true, if_false, beq_iff_eq, hb]
        rw [this]
        simp [pre, strip13_cons_ne b w hb, ends13_cons_ne b w hb]
    | true =>
      simp only [pre, if_true, List.cons_append, List.nil_append] at hs ⊢
      have hb10 : b ≠ 10 := by
        intro h10; subst h10; simp [splitCRLF] at hs
      have hs1 : splitCRLF (b :: w) = none := by
        simp only [splitCRLF, beq_self_eq_true, Bool.true_and, beq_iff_eq, hb10, Bool.false_eq_true, if_false,
          Option.map_eq_none_iff] at hs
        exact hs
      by_cases hb : b = 13
      · subst hb
        have := ih (l ++ [13]) true (by simpa [pre] using hs1)
        simp only [List.foldl, step, hc, Option.isSome_none, Bool.false_eq_true, if_false, if_true, beq_iff_eq,
          beq_self_eq_true]
        have h1310 : ¬ ((13 : UInt8) = 10) := by decide
        simp only [h1310, if_false]
        rw [this]
        simp [pre, strip13_cons2, ends13_cons2]
      · have hs' : splitCRLF (pre false ++ w) = none := by
          cases w with
          | nil => simp [pre, splitCRLF]
          | cons y r =>
            simp only [splitCRLF, beq_iff_eq, hb, false_and, Bool.false_eq_true, if_false, Bool.and_eq_true,
              Option.map_eq_none_iff] at hs1
            simpa [pre] using hs1
        have := ih (l ++ [13, b]) false hs'
        simp only [List.foldl, step, hc, Option.isSome_none, Bool.false_eq_true, if_false, if_true, beq_iff_eq,
          hb10, hb]
        rw [this]
        simp [pre, strip13_cons2, ends13_cons2, strip13_cons_ne b w hb, ends13_cons_ne b w hb]

/-- a CRLF in the pending input: the line before it is delivered, the rest is stepped afterwards -/
theorem line_some (c : Core) (hc : c.err = none) (w : Bytes) :
    ∀ (l : Bytes) (h : Bool) (p q : Bytes), splitCRLF (pre h ++ w) = some (p, q) →
      w.foldl step ⟨c, .line l h⟩ = q.foldl step (fireA ⟨c, .line l h⟩ .crlf (l ++ p)) := by
  induction w with
  | nil =>
    intro l h p q hs
    cases h <;> simp [pre, splitCRLF] at hs
  | cons b w ih =>
    intro l h p q hs
    cases h with
    | false =>
      simp only [pre, Bool.false_eq_true, if_false, List.nil_append] at hs
      by_cases hb : b = 13
      · subst hb
        have := ih l true p q (by simpa [pre] using hs)
        simp only [List.foldl, step, hc, Option.isSome_none, Bool.false_eq_true, if_false, beq_self_eq_true, if_true]
        simpa [fireA] using this
      · cases w with
        | nil => simp [splitCRLF] at hs
        | cons y r =>
          simp only [splitCRLF, beq_iff_eq, hb, false_and, Bool.false_eq_true, if_false, Bool.and_eq_true,
            Option.map_eq_some_iff] at hs
          obtain ⟨⟨p', q'⟩, hs', heq⟩ := hs
          simp only [Prod.mk.injEq] at heq
          obtain ⟨hp, hq⟩ := heq
          subst hp; subst hq
          have := ih (l ++ [b]) false p' q' (by simpa [pre] using hs')
          simp only [List.foldl, step, hc, Option.isSome_none, Bool.false_eq_true, if_false, beq_iff_eq, hb] at this ⊢
          rw [this]
          simp [fireA]
    | true =>
      simp only [pre, if_true, List.cons_append, List.nil_append] at hs
      by_cases hb10 : b = 10
      · subst hb10
        simp only [splitCRLF, beq_self_eq_true, Bool.and_self, if_true, Option.some.injEq, Prod.mk.injEq] at hs
        obtain ⟨hp, hq⟩ := hs
        subst hp; subst hq
        simp [List.foldl, step, hc]
      · simp only [splitCRLF, beq_self_eq_true, Bool.true_and, beq_iff_eq, hb10, Bool.false_eq_true, if_false,
          Option.map_eq_some_iff] at hs
        obtain ⟨⟨p', q'⟩, hs1, heq⟩ := hs
        simp only [Prod.mk.injEq] at heq
        obtain ⟨hp, hq⟩ := heq
        subst hp; subst hq
        by_cases hb : b = 13
        · subst hb
          have := ih (l ++ [13]) true p' q' (by simpa [pre] using hs1)
          simp only [List.foldl, step, hc, Option.isSome_none, Bool.false_eq_true, if_false, if_true, beq_iff_eq,
            beq_self_eq_true] at this ⊢
          have h1310 : ¬ ((13 : UInt8) = 10) := by decide
          simp only [h1310, if_false]
          rw [this]
          simp [fireA]
        · cases w with
          | nil => simp [splitCRLF] at hs1
          | cons y r =>
            simp only [splitCRLF, beq_iff_eq, hb, false_and, Bool.false_eq_true, if_false, Bool.and_eq_true,
              Option.map_eq_some_iff] at hs1
            obtain ⟨⟨p'', q''⟩, hs2, heq⟩ := hs1
            simp only [Prod.mk.injEq] at heq
            obtain ⟨hp, hq⟩ := heq
            subst hp; subst hq
            have := ih (l ++ [13, b]) false p'' q'' (by simpa [pre] using hs2)
            simp only [List.foldl, step, hc, Option.isSome_none, Bool.false_eq_true, if_false, if_true, beq_iff_eq,
              hb10, hb] at this ⊢
            rw [this]
            simp [fireA]


/-! ### body mode -/

theorem body_zero (c : Core) (hc : c.err = none) (w : Bytes) :
    ∀ buf, w.foldl step ⟨c, .body 0 buf⟩ = ⟨c, .body 0 (buf ++ w)⟩ := by
  induction w with
  | nil => intro buf; simp
  | cons b w ih =>
    intro buf
    simp only [List.foldl, step, hc, Option.isSome_none, Bool.false_eq_true, if_false]
    rw [ih]; simp

theorem body_short (c : Core) (hc : c.err = none) (w : Bytes) :
    ∀ (n : Nat) (buf : Bytes), w.length < n + 1 →
      w.foldl step ⟨c, .body (n + 1) buf⟩ = ⟨c, .body (n + 1 - w.length) (buf ++ w)⟩ := by
  induction w with
  | nil => intro n buf _; simp
  | cons b w ih =>
    intro n buf hl
    simp only [List.length_cons] at hl
    cases n with
    | zero => omega
    | succ m =>
      simp only [List.foldl, step, hc, Option.isSome_none, Bool.false_eq_true, if_false]
      have hm : ¬ (m + 1 = 0) := by omega
      simp only [hm, if_false]
      rw [ih m (buf ++ [b]) (by omega)]
      simp only [List.length_cons, List.append_assoc, List.singleton_append]
      congr 2
      omega

theorem body_full (c : Core) (hc : c.err = none) (w : Bytes) :
    ∀ (n : Nat) (buf : Bytes), n + 1 ≤ w.length →
      w.foldl step ⟨c, .body (n + 1) buf⟩ =
        (w.drop (n + 1)).foldl step (fireA ⟨c, .body (n + 1) buf⟩ (.num 0) (buf ++ w.take (n + 1))) := by
  induction w with
  | nil => intro n buf h; simp at h
  | cons b w ih =>
    intro n buf hl
    simp only [List.length_cons] at hl
    cases n with
    | zero =>
      simp [List.foldl, step, hc, fireA]
    | succ m =>
      simp only [List.foldl, step, hc, Option.isSome_none, Bool.false_eq_true, if_false]
      have hm : ¬ (m + 1 = 0) := by omega
      simp only [hm, if_false]
      rw [ih m (buf ++ [b]) (by omega)]
      simp [fireA]

/-! ### one pass of the loop leaves `abs` unchanged -/

theorem abs_fireC (d : Dec) : abs (fireC d) = d.acIn.foldl step (fireA (abs0 d) d.term d.buffer) := by
  simp only [abs, abs0, fireC, fireA]
  congr 1

theorem iter_abs (d : Dec) : abs (iter d).1 = abs d := by
  unfold iter
  by_cases he : d.core.err.isSome
  · simp [he]
  · simp only [he, Bool.false_eq_true, if_false]
    have hc : d.core.err = none := by simpa using he
    cases ht : d.term with
    | num n =>
      cases n with
      | zero =>
        simp only [abs, abs0, ht, List.foldl_nil]
        rw [body_zero _ hc]
      | succ m =>
        by_cases hl : d.acIn.length < m + 1
        · simp only [hl, if_true, abs, abs0, ht, List.foldl_nil]
          rw [body_short _ hc _ _ _ hl]
        · simp only [hl, if_false]
          rw [abs_fireC]
          simp only [abs, abs0, ht]
          rw [body_full _ hc _ _ _ (by omega)]
          simp [fireA]
    | crlf =>
      cases hs : splitCRLF d.acIn with
      | some pq =>
        obtain ⟨p, q⟩ := pq
        simp only []
        rw [abs_fireC]
        simp only [abs, abs0, ht]
        rw [line_some _ hc _ _ false p q (by simpa [pre] using hs)]
        simp [fireA]
      | none =>
        simp only []
        have hn := line_none _ hc d.acIn d.buffer false (by simpa [pre] using hs)
        simp only [pre, Bool.false_eq_true, if_false, List.nil_append] at hn
        by_cases h13 : ends13 d.acIn
        · simp only [h13, if_true]
          by_cases h1 : d.acIn.length != 1
          · simp only [h1, if_true, abs, abs0, ht, hn, h13]
            simp [List.foldl, step, hc]
          · simp [h1]
        · simp only [h13, Bool.false_eq_true, if_false, abs, abs0, ht, hn, List.foldl_nil]
          have : strip13 d.acIn = d.acIn := by
            have h13' : ends13 d.acIn = false := by simpa using h13
            clear hn hs ht hc he
            generalize d.acIn = w at h13'
            induction w with
            | nil => rfl
            | cons x r ih =>
              cases r with
              | nil => simp [ends13] at h13'; simp [strip13, h13']
              | cons y r' => simp only [ends13_cons2] at h13'; simp [strip13_cons2, ih h13']
          simp [this, h13]

/-- a pass that continues the loop consumes input -/
theorem iter_decreases (d : Dec) (hne : d.acIn ≠ []) (hcont : (iter d).2 = true) :
    (iter d).1.acIn.length < d.acIn.length := by
  have hpos : 0 < d.acIn.length := List.length_pos_iff.mpr hne
  unfold iter at hcont ⊢
  by_cases he : d.core.err.isSome
  · simp [he] at hcont
  · simp only [he, Bool.false_eq_true, if_false] at hcont ⊢
    cases ht : d.term with
    | num n =>
      cases n with
      | zero => simpa using hpos
      | succ m =>
        by_cases hl : d.acIn.length < m + 1
        · simp only [hl, if_true]; simpa using hpos
        · simp only [hl, if_false, fireC, List.length_drop]; omega
    | crlf =>
      simp only [ht] at hcont
      cases hs : splitCRLF d.acIn with
      | some pq =>
        simp only [fireC]
        have : ∀ (w : Bytes) (p q : Bytes), splitCRLF w = some (p, q) → q.length < w.length := by
          intro w
          induction w with
          | nil => intro p q h; simp [splitCRLF] at h
          | cons a r ih =>
            intro p q h
            cases r with
            | nil => simp [splitCRLF] at h
            | cons b r' =>
              simp only [splitCRLF] at h
              split at h
              · simp only [Option.some.injEq, Prod.mk.injEq] at h
                obtain ⟨_, hq⟩ := h; subst hq; simp; omega
              · simp only [Option.map_eq_some_iff] at h
                obtain ⟨⟨p', q'⟩, h', heq⟩ := h
                simp only [Prod.mk.injEq] at heq
                obtain ⟨_, hq⟩ := heq; subst hq
                have := ih p' q' h'
                simp only [List.length_cons] at this ⊢; omega
        exact this d.acIn pq.1 pq.2 (by simpa using hs)
      | none =>
        simp only [hs] at hcont
        by_cases h13 : ends13 d.acIn
        · simp [h13] at hcont
        · simp only [h13, Bool.false_eq_true, if_false]; simpa using hpos

theorem loop_abs (f : Nat) : ∀ d : Dec, d.acIn.length < f → abs (loop f d) = abs d := by
  induction f with
  | zero => intro d h; omega
  | succ f ih =>
    intro d h
    unfold loop
    by_cases hem : d.acIn.isEmpty
    · simp [hem]
    · simp only [hem, Bool.false_eq_true, if_false]
      have hne : d.acIn ≠ [] := by simpa using hem
      by_cases hcont : (iter d).2 = true
      · simp only [hcont, if_true]
        have := iter_decreases d hne hcont
        rw [ih _ (by omega), iter_abs]
      · simp only [hcont, Bool.false_eq_true, if_false, iter_abs]

/-- after `handle_read` returns, at most a held-back CR is left in asynchat's buffer -/
theorem loop_post (f : Nat) : ∀ d : Dec, d.acIn.length < f →
    (loop f d).core.err.isSome ∨ (loop f d).acIn = [] ∨ ((loop f d).term = .crlf ∧ (loop f d).acIn = [13]) := by
  induction f with
  | zero => intro d h; omega
  | succ f ih =>
    intro d h
    unfold loop
    by_cases hem : d.acIn.isEmpty
    · simp only [hem, if_true]; right; left; simpa using hem
    · simp only [hem, Bool.false_eq_true, if_false]
      have hne : d.acIn ≠ [] := by simpa using hem
      by_cases hcont : (iter d).2 = true
      · simp only [hcont, if_true]
        have := iter_decreases d hne hcont
        exact ih _ (by omega)
      · simp only [hcont, Bool.false_eq_true, if_false]
        unfold iter at hcont ⊢
        by_cases he : d.core.err.isSome
        · simp [he]
        · simp only [he, Bool.false_eq_true, if_false] at hcont ⊢
          cases ht : d.term with
          | num n => cases n <;> simp only [ht] at hcont <;> (try split at hcont) <;> simp at hcont
          | crlf =>
            simp only [ht] at hcont
            cases hs : splitCRLF d.acIn with
            | some pq => simp [hs] at hcont
            | none =>
              simp only [hs] at hcont ⊢
              by_cases h13 : ends13 d.acIn
              · simp only [h13, if_true]
                by_cases h1 : d.acIn.length != 1
                · simp [h1, ht]
                · simp only [h1, Bool.false_eq_true, if_false]
                  right; right
                  refine ⟨ht, ?_⟩
                  have hl : d.acIn.length = 1 := by simpa using h1
                  match hd : d.acIn, hl, h13 with
                  | [x], _, h13 => simp [ends13] at h13; simp [h13]
              · simp [h13] at hcont

theorem abs_core (d : Dec)
    (h : d.core.err.isSome ∨ d.acIn = [] ∨ (d.term = .crlf ∧ d.acIn = [13])) : (abs d).core = d.core := by
  rcases h with h | h | ⟨ht, h⟩
  · simp only [abs]; rw [foldl_step_err _ _ (by simpa [abs0] using h)]; rfl
  · simp [abs, h, abs0]
  · by_cases he : d.core.err.isSome
    · simp only [abs]; rw [foldl_step_err _ _ (by simpa [abs0] using he)]; rfl
    · have hc : d.core.err = none := by simpa using he
      simp [abs, h, abs0, ht, step, hc]

theorem feed_abs (d : Dec) (seg : Bytes) : abs (feed d seg) = seg.foldl step (abs d) := by
  unfold feed
  rw [loop_abs _ _ (by simp)]
  simp [abs, abs0, List.foldl_append]

theorem feed_post (d : Dec) (seg : Bytes) :
    (feed d seg).core.err.isSome ∨ (feed d seg).acIn = [] ∨ ((feed d seg).term = .crlf ∧ (feed d seg).acIn = [13]) := by
  unfold feed
  exact loop_post _ _ (by simp)

theorem feedAll_abs (segs : List Bytes) : ∀ d : Dec, abs (feedAll d segs) = segs.flatten.foldl step (abs d) := by
  induction segs with
  | nil => intro d; simp [feedAll]
  | cons s rest ih =>
    intro d
    simp only [feedAll, List.foldl_cons, List.flatten_cons, List.foldl_append] at ih ⊢
    rw [ih, feed_abs]

theorem feedAll_core (segs : List Bytes) (hne : segs ≠ []) (d : Dec) :
    (feedAll d segs).core = (segs.flatten.foldl step (abs d)).core := by
  rw [← feedAll_abs]
  symm
  apply abs_core
  have : ∃ d' s, feedAll d segs = feed d' s := by
    rcases List.eq_nil_or_concat segs with h | ⟨init, last, h⟩
    · subst h; exact absurd rfl hne
    · subst h; exact ⟨feedAll d init, last, by simp [feedAll, List.foldl_append]⟩
  obtain ⟨d', s, h⟩ := this
  rw [h]; exact feed_post d' s


/-! ### hexadecimal chunk sizes -/

def isHexB (b : UInt8) : Bool := (hexVal8 b).isSome

theorem hexChar_val : ∀ d, d < 16 → hexVal8 (hexChar d) = some d := by decide
theorem hexB_range (b : UInt8) (h : isHexB b = true) :
    (48 ≤ b.toNat ∧ b.toNat ≤ 57) ∨ (97 ≤ b.toNat ∧ b.toNat ≤ 102) := by
  unfold isHexB hexVal8 at h
  split at h
  · left; assumption
  · split at h
    · right; assumption
    · simp at h
theorem hexB_ne (b : UInt8) (h : isHexB b = true) (k : UInt8) (hk : k.toNat ≤ 32) : b ≠ k := by
  intro e; subst e
  have := hexB_range _ h
  omega
theorem hexB_ne13 (b : UInt8) (h : isHexB b = true) : b ≠ 13 := hexB_ne b h 13 (by decide)
theorem hexB_not_ws (b : UInt8) (h : isHexB b = true) : isWs b = false := by
  simp only [isWs, Bool.or_eq_false_iff, beq_eq_false_iff_ne]
  exact ⟨⟨⟨⟨⟨hexB_ne b h 32 (by decide), hexB_ne b h 9 (by decide)⟩, hexB_ne b h 10 (by decide)⟩,
    hexB_ne b h 13 (by decide)⟩, hexB_ne b h 11 (by decide)⟩, hexB_ne b h 12 (by decide)⟩

theorem hexF_spec (f : Nat) : ∀ n, n < f →
    (hexF f n).foldl hexStep (some 0) = some n ∧ (hexF f n).all isHexB = true ∧ hexF f n ≠ [] := by
  induction f with
  | zero => intro n h; omega
  | succ f ih =>
    intro n h
    unfold hexF
    by_cases hn : n < 16
    · simp only [hn, if_true]
      refine ⟨?_, ?_, by simp⟩
      · simp [List.foldl, hexStep, hexChar_val n hn]
      · simp [isHexB, hexChar_val n hn]
    · simp only [hn, if_false]
      have hd : n / 16 < f := by omega
      obtain ⟨h1, h2, _⟩ := ih (n / 16) hd
      have hm : n % 16 < 16 := Nat.mod_lt _ (by omega)
      refine ⟨?_, ?_, by simp⟩
      · rw [List.foldl_append, h1]
        simp only [List.foldl, hexStep, Option.bind_some, hexChar_val _ hm, Option.map_some, Option.some.injEq]
        omega
      · simp [List.all_append, h2, isHexB, hexChar_val _ hm]

theorem parseHex_hexDigits (n : Nat) : parseHex (hexDigits n) = some n := by
  obtain ⟨h1, _, h3⟩ := hexF_spec (n + 1) n (by omega)
  simp [parseHex, hexDigits, h1, h3]

theorem firstToken_of_hex (l : Bytes) (h : l.all isHexB = true) : firstToken l = l := by
  have hnw : ∀ b ∈ l, isWs b = false := by
    intro b hb
    exact hexB_not_ws b (by simpa using (List.all_eq_true.mp h) b hb)
  unfold firstToken
  have h1 : l.dropWhile isWs = l := by
    cases l with
    | nil => rfl
    | cons x r => simp [List.dropWhile, hnw x (by simp)]
  rw [h1]
  clear h1 h
  induction l with
  | nil => rfl
  | cons x r ih =>
    simp only [List.takeWhile, hnw x (by simp), Bool.not_false]
    rw [ih (fun b hb => hnw b (by simp [hb]))]

theorem hexDigits_all (n : Nat) : (hexDigits n).all isHexB = true := (hexF_spec (n + 1) n (by omega)).2.1
theorem hexDigits_ne_nil (n : Nat) : hexDigits n ≠ [] := (hexF_spec (n + 1) n (by omega)).2.2

/-! ### the automaton on an encoded stream -/

theorem line_plain (c : Core) (hc : c.err = none) (w : Bytes) :
    ∀ l, (∀ b ∈ w, b ≠ 13) → w.foldl step ⟨c, .line l false⟩ = ⟨c, .line (l ++ w) false⟩ := by
  induction w with
  | nil => intro l _; simp
  | cons b w ih =>
    intro l h
    have hb : b ≠ 13 := h b (by simp)
    simp only [List.foldl, step, hc, Option.isSome_none, Bool.false_eq_true, if_false, beq_iff_eq, hb]
    rw [ih _ (fun x hx => h x (by simp [hx]))]
    simp

/-- one chunk: its size line, its data, its closing CRLF deliver exactly `feed(data)` -/
theorem step_chunk (c : Core) (hc : c.err = none) (hp : c.part = .size) (data : Bytes) (hd : data ≠ []) :
    (encodeChunk data).foldl step ⟨c, .line [] false⟩ = ⟨{ c with fed := c.fed ++ [data] }, .line [] false⟩ := by
  have hlen : 0 < data.length := List.length_pos_iff.mpr hd
  obtain ⟨m, hm⟩ : ∃ m, data.length = m + 1 := ⟨data.length - 1, by omega⟩
  have hx13 : ∀ b ∈ hexDigits data.length, b ≠ 13 := by
    intro b hb
    exact hexB_ne13 b (by simpa using (List.all_eq_true.mp (hexDigits_all _)) b hb)
  have hne : hexDigits data.length ≠ [] := hexDigits_ne_nil _
  simp only [encodeChunk, encMore_a4, List.foldl_append]
  rw [line_plain c hc _ _ hx13]
  -- CRLF after the size line
  have h1 : ([13, 10] : Bytes).foldl step ⟨c, .line ([] ++ hexDigits data.length) false⟩
      = ⟨{ c with part := .body }, .body (m + 1) []⟩ := by
    simp only [List.foldl, step, hc, Option.isSome_none, Bool.false_eq_true, if_false, beq_self_eq_true, if_true,
      fireA, handle, hp, decSize_g0, decSize_g1, List.nil_append, firstToken_of_hex _ (hexDigits_all _),
      parseHex_hexDigits]
    have hne' : hexDigits (m + 1) ≠ [] := hm ▸ hne
    have hz : ¬ ((m : Int) + 1 = 0) := by omega
    have hz' : ¬ ((0 : Int) = (m : Int) + 1) := by omega
    simp [hne', hm, modeOf, hz, hz']
  rw [h1]
  have hc' : ({ c with part := Part.body } : Core).err = none := hc
  rw [body_full _ hc' data m [] (by omega)]
  have ht : data.take (m + 1) = data := List.take_of_length_le (by omega)
  have hdr : data.drop (m + 1) = [] := List.drop_of_length_le (by omega)
  simp only [ht, hdr, List.foldl_nil, List.nil_append, fireA, handle, Option.getD_some, modeOf]
  simp [List.foldl, step, hc, fireA, handle, decSize_g0, modeOf, hp]

theorem step_chunks (cs : List Bytes) : ∀ (c : Core), c.err = none → c.part = .size → (∀ d ∈ cs, d ≠ []) →
    (encode cs).foldl step ⟨c, .line [] false⟩ = ⟨{ c with fed := c.fed ++ cs }, .line [] false⟩ := by
  induction cs with
  | nil => intro c _ _ _; simp [encode]
  | cons d rest ih =>
    intro c hc hp hne
    simp only [encode, List.flatMap_cons, List.foldl_append] at ih ⊢
    rw [step_chunk c hc hp d (hne d (by simp))]
    have h2 := ih { c with fed := c.fed ++ [d] } hc hp (fun x hx => hne x (by simp [hx]))
    rw [h2]
    simp

/-- the last-chunk `0 CRLF CRLF`: the handler moves to the trailer part (and never reports done:
    `trailer` compares the collected line, from which the terminator is already stripped, to CRLF) -/
theorem step_last (c : Core) (hc : c.err = none) (hp : c.part = .size) :
    lastChunk.foldl step ⟨c, .line [] false⟩ = ⟨{ c with part := .trailer }, .line [] false⟩ := by
  have hd : (([] : Bytes) == [13, 10]) = false := by decide
  simp [hd, lastChunk, encMore_a7, List.foldl, step, hc, fireA, handle, hp, decSize_g0, decSize_g1, firstToken, isWs,
    parseHex, hexStep, hexVal8, modeOf, clientCRLF]

end Sv.Chunked
