"""
C03 -- automatic start, retry and restart policy is exactly the configured one.
Correspondence: the shared L1 population (real Subprocess/ProcessGroup/rpcinterface vs Model/ProcOps.lean),
biased towards start attempts that fail early / late, spawn failures at every retry and passes around the retry times.
Monitor: a policy oracle written from the property statement, evaluated on the implementation's fork log and
PROCESS_STATE notifications.
"""
import os
import proc_l1
from proc_l1 import L1, op_line, cfg_line, gen_cfg, TICK
from props import c01
from props.c04 import parse

ID = 'C03'
LEAN_PROPS = 'SupervisorModel.Props.C03'
DRIVER = 'drv_c01'
GENERATED = ['Proc']
TRUSTED = c01.TRUSTED
ASSUMPTIONS = c01.ASSUMPTIONS + [
    "under clock jumps 'alive longer than startsecs' / 'k seconds after the k-th failure' are read against the re-based reference time min(reference, first reading after the jump [+ k])",
    "the clock never reads 0 (autostart-once uses laststart = 0 as 'never started')"]
RULE_TEXT = ("; a second population takes the configuration from TEXT: a [program:x] section whose startsecs / startretries / autostart / "
             "autorestart / exitcodes (absent, present-but-empty = no expected status, one, several) / stopsignal / stopwaitsecs / stopasgroup / "
             "killasgroup lines are written by the generator, parsed by the real ServerOptions, the resulting ProcessConfig driven through the same "
             "histories and judged by what the text says")
RULE = ("operation histories biased towards the start/retry cycle: children exiting before/after startsecs with any status, spawn "
        "failures of the three kinds at any retry, passes just before/at/after the retry time, long gaps, backward jumps, daemon "
        "moods, explicit start/stop between retries; non-trivial = at least one automatic fork or BACKOFF; distinct = distinct trace" + RULE_TEXT)


def monitor(ctx, cfg, ops, lines):
    ss, retries = cfg['startsecs'] * TICK, cfg['startretries']
    state, pid = 'STOPPED', 0
    t_start = None        # reference time of the current start attempt
    t_retry = None        # earliest time of the pending retry
    k = 0                 # consecutive failures (tries)
    ever_started = False
    auto_retries = 0      # automatic retries since the last non-retry start
    exitstatus = None
    for i, (op, line) in enumerate(zip(ops, lines)):
        st2, f, toks, err = parse(line)
        now = op['now']
        inp = {'cfg': cfg, 'ops': ops[:i + 1]}
        forks = [t for t in toks if t.startswith('fork:')]
        evs = [t[3:].split('<')[0] for t in toks if t.startswith('ev:')]
        kop = op['op']
        if kop == 'transition':
            mood_ok = op['mood'] > 0
            spawn_ok = op['spawn'][0] == 'ok'
            attempted = 'STARTING' in evs and state != 'STARTING'
            if state == 'STARTING':
                t_start = min(t_start, now)
                want_running = now - t_start > ss
                if ('RUNNING' in evs) != want_running:
                    ctx.violation('running-too-early' if 'RUNNING' in evs else 'running-missing',
                                  'pass at %d, start reference %d, startsecs %d: RUNNING announced=%s' % (now, t_start, ss, 'RUNNING' in evs), inp)
                if attempted or forks:
                    ctx.violation('fork-while-starting', 'a pass started a process that is STARTING', inp)
            elif state == 'BACKOFF':
                t_retry = min(t_retry, now + k * TICK)
                want = mood_ok and k <= retries and now > t_retry
                if attempted != want:
                    ctx.violation('retry-too-early' if attempted else 'retry-missing',
                                  'pass at %d in BACKOFF (tries=%d, startretries=%d, retry time %d, mood %d): retried=%s' % (now, k, retries, t_retry, op['mood'], attempted), inp)
                if attempted:
                    auto_retries += 1
                    if auto_retries > retries:
                        ctx.violation('too-many-retries', '%d automatic retries with startretries=%d' % (auto_retries, retries), inp)
                    ctx.count('auto-retry')
                if k > retries and st2 != 'FATAL':
                    ctx.violation('no-fatal-after-budget', 'BACKOFF with tries=%d > startretries=%d is %s after a pass' % (k, retries, st2), inp)
            elif state == 'EXITED':
                ar = cfg['autorestart']
                want = mood_ok and (ar == 'true' or (ar == 'unexpected' and exitstatus not in cfg['exitcodes']))
                if attempted != want:
                    ctx.violation('autorestart-wrong', 'EXITED (status %r, autorestart=%s, exitcodes=%r, mood %d): restarted=%s' % (
                        exitstatus, ar, cfg['exitcodes'], op['mood'], attempted), inp)
                if attempted:
                    auto_retries = 0
                    ctx.count('auto-restart')
            elif state == 'STOPPED':
                want = mood_ok and cfg['autostart'] and not ever_started
                if attempted != want:
                    ctx.violation('autostart-wrong', 'STOPPED (autostart=%s, started before=%s, mood %d): started=%s' % (
                        cfg['autostart'], ever_started, op['mood'], attempted), inp)
                if attempted:
                    auto_retries = 0
                    ctx.count('autostart')
            elif attempted or forks:
                ctx.violation('start-from-' + state.lower(), 'a pass started a process that is %s' % state, inp)
        elif kop == 'rpcstart' and 'STARTING' in evs:
            auto_retries = 0
        elif kop == 'reap' and state == 'STARTING' and f['killing'] == '0' and err == '-':
            t_start = min(t_start, now)
            if t_start < now and now - t_start < ss and st2 != 'BACKOFF':
                ctx.violation('early-exit-not-backoff', 'child reaped %d ticks after start (startsecs %d) with status %d: state %s' % (
                    now - t_start, ss, op['es'], st2), inp)
        # bookkeeping from the notifications
        for t in toks:
            if t.startswith('ev:'):
                to = t[3:].split('<')[0]
                fields = dict(kv.split('=') for kv in t.split(':')[2:])
                if to == 'STARTING':
                    t_start = now
                    ever_started = True
                elif to == 'BACKOFF':
                    k = int(fields['tries'])
                    t_retry = now + k * TICK
                    ctx.count('backoff')
                elif to in ('RUNNING', 'FATAL'):
                    k = 0
                    auto_retries = 0
                elif to == 'EXITED':
                    k = 0
        if 'STARTING' in evs and forks == [] and op.get('spawn', ('ok',))[0] == 'ok' and kop in ('transition', 'rpcstart') and err == '-':
            ctx.violation('start-without-fork', 'STARTING announced but no child forked although the spawn could succeed', inp)
        exitstatus = None if f['es'] == 'None' else int(f['es'])
        state, pid = st2, int(f['pid'])


def gen_ops_c03(rng, cfg):
    ss = cfg['startsecs'] * TICK
    now = [rng.choice([1000, 90000]) * TICK]
    nextpid = [300]
    def spawn():
        if rng.random() < 0.7:
            nextpid[0] += 1
            return ('ok', nextpid[0])
        return (rng.choice(['badcmd', 'pipeerr', 'forkerr']),)
    def gen(proc):
        from supervisor.states import ProcessStates as PSt
        st = proc.get_state()
        r = rng.random()
        if st == PSt.BACKOFF:
            d = int(round(proc.delay * TICK))
            c = rng.random()
            if c < 0.45:
                now[0] = max(TICK, d + rng.choice([-1, 0, 1, 1, TICK, -TICK]))
            elif c < 0.55:
                now[0] = max(TICK, now[0] - rng.choice([TICK, 5 * TICK]))
            else:
                now[0] += rng.choice([0, 512, TICK, 2 * TICK, 30 * TICK])
            if r < 0.8:
                return {'op': 'transition', 'now': now[0], 'mood': rng.choice([1, 1, 1, 1, 0, -1]), 'spawn': spawn(), 'kill': 'ok'}
            if r < 0.9:
                return {'op': 'rpcstop', 'now': now[0], 'mood': 1, 'kill': 'ok'}
            return {'op': 'rpcstart', 'now': now[0], 'mood': 1, 'spawn': spawn()}
        if st == PSt.STARTING:
            ls = int(round(proc.laststart * TICK))
            c = rng.random()
            if c < 0.4:
                now[0] = max(TICK, ls + ss + rng.choice([-1, 0, 1, 2, -TICK, TICK]))
            elif c < 0.5:
                now[0] = max(TICK, now[0] - rng.choice([TICK, 4 * TICK]))
            else:
                now[0] += rng.choice([0, 256, TICK, 3 * TICK])
            if r < 0.5:
                return {'op': 'reap', 'now': now[0], 'es': rng.choice([0, 0, 1, 2, -1, 255]), 'busy': False}
            if r < 0.9:
                return {'op': 'transition', 'now': now[0], 'mood': rng.choice([1, 1, 1, 0]), 'spawn': spawn(), 'kill': 'ok'}
            return {'op': 'rpcstop', 'now': now[0], 'mood': 1, 'kill': rng.choice(['ok', 'ok', 'esrch'])}
        now[0] = max(TICK, now[0] + rng.choice([0, 256, TICK, TICK, 5 * TICK, -TICK, 40 * TICK]))
        if proc.pid and r < 0.4:
            return {'op': 'reap', 'now': now[0], 'es': rng.choice([0, 0, 1, 2, -1]), 'busy': False}
        if r < 0.5:
            return {'op': 'transition', 'now': now[0], 'mood': rng.choice([1, 1, 1, 1, 0, -1]), 'spawn': spawn(), 'kill': 'ok'}
        if r < 0.62:
            return {'op': 'rpcstart', 'now': now[0], 'mood': 1, 'spawn': spawn()}
        if r < 0.72:
            return {'op': 'rpcstop', 'now': now[0], 'mood': 1, 'kill': 'ok'}
        if r < 0.76:
            return {'op': 'groupstop', 'now': now[0], 'kill': 'ok'}
        return {'op': 'transition', 'now': now[0], 'mood': 1, 'spawn': spawn(), 'kill': 'ok'}
    return gen


# ---- the policy as WRITTEN in a configuration file --------------------------------------------------------------------
# option -> [(text or None for an absent line, what the documentation says that denotes)]
WRITTEN = {
    'startsecs': [(None, 1), ('0', 0), ('1', 1), ('2', 2), ('5', 5)],
    'startretries': [(None, 3), ('0', 0), ('1', 1), ('2', 2), ('3', 3)],
    'autostart': [(None, True), ('true', True), ('false', False)],
    'autorestart': [(None, 'unexpected'), ('unexpected', 'unexpected'), ('true', 'true'), ('false', 'false')],
    'exitcodes': [(None, [0]), ('', []), ('', []), ('0', [0]), ('2', [2]), ('0,2', [0, 2]), ('1', [1]), ('2,0', [2, 0])],
    'stopsignal': [(None, 15), ('TERM', 15), ('INT', 2), ('HUP', 1), ('QUIT', 3), ('KILL', 9), ('USR1', 10)],
    'stopwaitsecs': [(None, 10), ('0', 0), ('1', 1), ('3', 3)],
}


def gen_written(rng):
    """-> ([(option, text)] of a [program:p] section, the configuration those lines denote)"""
    opts, cfg = [('command', '/bin/prog')], {}
    for k in sorted(WRITTEN):
        text, val = rng.choice(WRITTEN[k])
        cfg[k] = val
        if text is not None:
            opts.append((k, text))
    r = rng.random()
    sg, kg = (None, None) if r < 0.5 else ('true', None) if r < 0.65 else ('true', 'true') if r < 0.8 else (None, 'true') if r < 0.9 else ('false', 'false')
    cfg['stopasgroup'] = sg == 'true'
    cfg['killasgroup'] = (kg == 'true') if kg is not None else cfg['stopasgroup']      # documented: stopasgroup implies killasgroup
    opts += [(k, v) for k, v in (('stopasgroup', sg), ('killasgroup', kg)) if v is not None]
    head = opts[:1]; tail = opts[1:]; rng.shuffle(tail)
    return head + tail, cfg


def parsed_cfg(ctx, opts):
    """the section through the real parser: -> the L1 configuration of the ProcessConfig it yields (None: rejected)"""
    import config_l1 as L
    path = L.write_config({'sections': [('supervisord', []), ('program:p', opts)], 'include': []}, ctx.scratch, 'c03')
    out = L.parse_with(L.make_options(), path, reread=True)
    if out.status != 'ok':
        return None, out
    p = out.options.process_group_configs[0].process_configs[0]
    ar = {'always': 'true', 'never': 'false', 'unexpected': 'unexpected'}[L._restart(p.autorestart)]
    return {'startsecs': p.startsecs, 'startretries': p.startretries, 'autostart': bool(p.autostart), 'autorestart': ar,
            'exitcodes': list(p.exitcodes), 'stopsignal': int(p.stopsignal), 'stopwaitsecs': p.stopwaitsecs,
            'stopasgroup': bool(p.stopasgroup), 'killasgroup': bool(p.killasgroup)}, out


def written_history(ctx, rng, nops, opts, cfg, script=None):
    """one history of the process the TEXT configures, judged (monitor, model) by what the text denotes"""
    impl_cfg, out = parsed_cfg(ctx, opts)
    written = dict(cfg, written=[list(o) for o in opts])
    if impl_cfg is None:
        ctx.violation('wellformed-policy-rejected', 'the section %r is rejected: %s' % (opts, out.message[:160]), {'cfg': written, 'ops': []})
        return None
    ctx.count('written:exitcodes=' + {None: 'absent'}.get(dict(opts).get('exitcodes'), dict(opts).get('exitcodes') or 'empty'))
    return one_history(ctx, rng, nops, written, script, impl_cfg=impl_cfg)


# seeded change C03-7 (`exitcodes=` read as `0`): the demo's four programs, child reaches RUNNING and exits 0 / 2
def _exit_script(es):
    t = 1000 * TICK
    return [{'op': 'transition', 'now': t, 'mood': 1, 'spawn': ('ok', 301), 'kill': 'ok'},
            {'op': 'transition', 'now': t + 3 * TICK, 'mood': 1, 'spawn': ('ok', 302), 'kill': 'ok'},
            {'op': 'reap', 'now': t + 4 * TICK, 'es': es, 'busy': False},
            {'op': 'transition', 'now': t + 5 * TICK, 'mood': 1, 'spawn': ('ok', 303), 'kill': 'ok'}]


def _written_corpus():
    base = {'startsecs': 1, 'startretries': 3, 'autostart': True, 'autorestart': 'unexpected', 'stopsignal': 15, 'stopwaitsecs': 10,
            'stopasgroup': False, 'killasgroup': False}
    out = []
    for text, val in ((None, [0]), ('', []), ('0', [0]), ('2', [2]), ('0,2', [0, 2])):
        opts = [('command', '/bin/prog'), ('autorestart', 'unexpected')] + ([('exitcodes', text)] if text is not None else [])
        for es in (0, 2):
            out.append((opts, dict(base, exitcodes=val), _exit_script(es)))
    return out


def one_history(ctx, rng, nops, cfg=None, script=None, impl_cfg=None):
    cfg = cfg or gen_cfg(rng)
    h = L1(impl_cfg or cfg)
    try:
        ops, lines = [], []
        gen = gen_ops_c03(rng, cfg)
        for k in range(nops):
            op = script[k] if script else gen(h.proc)
            ops.append(op)
            lines.append(h.do(op))
            ctx.count('op:' + op['op'])
    finally:
        h.close()
    return cfg, ops, lines


def run(ctx):
    rng = ctx.rng
    cases, impls = [], []
    def add(cfg, ops, lines):
        monitor(ctx, cfg, ops, lines)
        c01.monitor(ctx, cfg, ops, lines)
        cases.append((cfg_line(cfg), [op_line(o) for o in ops]))
        impls.append(lines)
        ctx.case_done(tuple(lines), nontrivial=any('fork:' in l or 'BACKOFF' in l for l in lines))
    for cfg, script in c01.CORPUS:
        add(*one_history(ctx, rng, len(script), cfg, script))
    # the policy taken from configuration text (real parser -> real ProcessConfig -> the same state machine)
    for opts, cfg, script in _written_corpus():
        r = written_history(ctx, rng, len(script), opts, cfg, script)
        if r: add(*r)
    for _ in range(ctx.n(300, 3000)):
        opts, cfg = gen_written(rng)
        r = written_history(ctx, rng, rng.choice([8, 15, 30]), opts, cfg)
        if r: add(*r)
    total = ctx.n(5000, 60000)
    done = 0
    while done < total:             # in chunks, so that a thorough run does not hold every trace in memory
        for _ in range(min(5000, total - done)):
            add(*one_history(ctx, rng, rng.choice([8, 15, 30, 50])))
        done += 5000
        if done <= 5000:
            ctx.sample({'case': cases[-1][0], 'ops': cases[-1][1][:8], 'impl': impls[-1][:8]})
        ctx.correspond('proc', cases, impls)
        del cases[:], impls[:]


def replay(ctx, data):
    inp = data['input']
    cfg = inp['cfg']
    ops = [dict(o, spawn=tuple(o['spawn'])) if 'spawn' in o else o for o in inp['ops']]
    if cfg.get('written'):
        r = written_history(ctx, ctx.rng, len(ops), [tuple(o) for o in cfg['written']], {k: v for k, v in cfg.items() if k != 'written'}, ops)
        if r is None:
            return
        cfg2, ops2, lines = r
    else:
        cfg2, ops2, lines = one_history(ctx, ctx.rng, len(ops), cfg, ops)
    monitor(ctx, cfg, ops, lines)
    ctx.correspond('proc', [(cfg_line(cfg), [op_line(o) for o in ops])], [lines])


TECHNIQUE = "Lean 4 theorems (exact iff conditions for RUNNING, retry, restart, autostart; BACKOFF/FATAL rules) over the Subprocess model with guards/timers regenerated from process.py; differential correspondence; policy-oracle monitor"
LEVEL_TEXT = ("running_only_after_startsecs, early_exit_is_backoff, spawn_failure_is_backoff, retry_gate, fatal_after_budget, "
              "autorestart_exact, nothing_else_starts, autostart_once, counter_reset_on_success, running_exit_is_exited are proved as exact "
              "conditions for all configurations, clock readings (incl. backward jumps via the rollback lemmas), exit statuses and moods")
LEVEL_NOTE = "trusts Lean's kernel, extract.py, one clock reading per operation; the history-level retry count is a consequence of retry_gate + the strictly increasing tries counter, checked on histories by the monitor (a history-level Lean theorem is future work, see DESIGN.md)"
DESIGN_REF = "DESIGN.md section 6, C03"
