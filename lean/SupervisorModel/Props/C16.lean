import SupervisorModel.Model.LogRead
/-
  C16 — log retrieval returns exactly the requested bytes (offset arithmetic part).
  Property theorems only.  The definitions unfolded here (`Sv.Gen.LogRead.*`) are regenerated
  from /repo on every run.
-/
set_option linter.unusedSimpArgs false
namespace Sv.Props.C16
open Sv Sv.LogRead Sv.Gen.LogRead

/-- the last `n` bytes of `f` (all of `f` when `n ≥ |f|`, nothing when `n ≤ 0`) -/
def lastN (n : Int) (f : Bytes) : Bytes := f.drop (f.length - n.toNat)

theorem readAt_to_end (f : Bytes) (pos n : Int) (h : (f.length : Int) ≤ pos + n) (hp : 0 ≤ pos) :
    readAt f pos n = f.drop pos.toNat := by
  unfold readAt
  apply List.take_of_length_le
  simp only [List.length_drop]; omega

/-- tailProcess*Log: new offset = size, overflow ↔ size > offset+length, data = the last
    min(length,size) bytes unless the offset is already at or past the end.  All integers. -/
theorem tailFile_spec (f : Bytes) (offset length : Int) :
    (tailFile f offset length).offset = f.length ∧
    ((tailFile f offset length).overflow = true ↔ (f.length : Int) > offset + length) ∧
    (tailFile f offset length).data =
      if offset ≥ f.length then [] else lastN (min length f.length) f := by
  refine ⟨?_, ?_, ?_⟩
  · simp [tailFile, tailFile_a10]
  · simp [tailFile, tailFile_g0, tailFile_a0, tailFile_a2]
  · simp only [tailFile, tailFile_g0, tailFile_g1, tailFile_g2, tailFile_g3, tailFile_g4, tailFile_g5,
      tailFile_a0, tailFile_a2, tailFile_a3, tailFile_a4, tailFile_a5, tailFile_a6, tailFile_a7, tailFile_a8, lastN,
      Bool.and_eq_true, ilt_iff, ile_iff, beq_iff_eq, bne_iff_ne]
    repeat' split
    all_goals first
      | rfl
      | omega
      | (symm; apply List.drop_of_length_le; omega)
      | (rw [readAt_to_end _ _ _ (by omega) (by omega)]; congr 1; omega)

/-- readLog / readProcess*Log: bytes [offset, offset+length); to the end when length = 0; the
    last |offset| bytes when offset < 0 and length = 0; BAD_ARGUMENTS for every other sign
    combination.  All integers, all file contents. -/
theorem readFile_spec (f : Bytes) (offset length : Int) :
    readFile f offset length =
      if offset < 0 then (if length ≠ 0 then .error .badArguments else .ok (lastN (-offset) f))
      else if length < 0 then .error .badArguments
      else if length = 0 then .ok (f.drop offset.toNat)
      else .ok ((f.drop offset.toNat).take length.toNat) := by
  simp [readFile, readFile_g0, readFile_g1, readFile_g3, readFile_g4, readFile_a0, readFile_a3, readFile_a4,
    readFile_g2, clampPos, lastN, readToEnd]
  repeat' split
  all_goals first
    | rfl
    | omega
    | (rw [readAt_to_end _ _ _ (by omega) (by omega)]; congr 2; omega)

/-- the window is never longer than asked for and never reaches outside the file -/
theorem readFile_window (f d : Bytes) (offset length : Int) (h : readFile f offset length = .ok d)
    (ho : 0 ≤ offset) (hl : 0 < length) :
    d = (f.drop offset.toNat).take length.toNat ∧ (d.length : Int) ≤ length := by
  rw [readFile_spec] at h
  have h1 : ¬ offset < 0 := by omega
  have h2 : ¬ length < 0 := by omega
  have h3 : ¬ length = 0 := by omega
  simp only [h1, h2, h3, if_false] at h
  injection h with h
  subst h
  refine ⟨rfl, ?_⟩
  simp only [List.length_take]; omega

-- non-vacuity: concrete instances of every branch
example : readFile [1,2,3,4,5] 1 2 = .ok [2,3] := by decide
example : readFile [1,2,3,4,5] (-2) 0 = .ok [4,5] := by decide
example : readFile [1,2,3,4,5] (-2) 1 = .error .badArguments := by decide
example : readFile [1,2,3,4,5] 2 (-1) = .error .badArguments := by decide
example : tailFile [1,2,3,4,5] 0 3 = ⟨[3,4,5], 5, true⟩ := by decide
example : tailFile [1,2,3,4,5] 7 3 = ⟨[], 5, false⟩ := by decide

end Sv.Props.C16
