import SupervisorModel.Basic.Bytes
import SupervisorModel.Generated.Chunked
/-
  The output buffer of the HTTP channel, between the producers and the socket:

  * `deferring_http_channel.refill_buffer` (supervisor/http.py) — asks the first producer of the
    fifo for its next piece; NOT_DONE_YET: nothing; a non-empty piece: the new buffer is the
    generated `chRefill_a4 buf data`; an empty piece: the producer is exhausted, popped, and the
    next one is asked;
  * `async_chat.initiate_send` (supervisor/medusa/asynchat_25.py) — refills when fewer than
    `ac_out_buffer_size` bytes are buffered (`initSend_g0`), offers `initSend_c0_0 buf obs` to
    `send()`, which accepts any prefix of it (0 ≤ accepted ≤ offered: a parameter of every step),
    and keeps `initSend_a2 buf … num_sent`.

  The producers are an oracle: `pending` is the list of answers successive `more()` calls will give.
  `sent` and `yielded` are ghost fields: everything the socket accepted / everything the producers
  handed over, in order.  No Mathlib.
-/
namespace Sv.OutBuf
open Sv.Gen.Chunked

/-- one answer of a producer's `more()` -/
inductive Ans
  | notDone
  | data (b : Bytes)        -- `data []` = b'': this producer is exhausted
deriving DecidableEq, Repr

structure Chan where
  buf : Bytes := []          -- ac_out_buffer
  pending : List Ans := []   -- what the producers will answer, in order
  sent : Bytes := []         -- ghost: bytes accepted by the socket
  yielded : Bytes := []      -- ghost: bytes the producers returned to refill_buffer
  asked : Nat := 0           -- ghost: number of `more()` calls
deriving DecidableEq, Repr

/-- the bytes a list of answers carries -/
def dataOf : List Ans → Bytes
  | [] => []
  | .notDone :: rest => dataOf rest
  | .data d :: rest => d ++ dataOf rest

/-- result of one `refill_buffer` call -/
structure Refilled where
  buf : Bytes
  pending : List Ans
  got : Bytes          -- what the producers handed over in this call
  calls : Nat          -- `more()` calls made

/-- `refill_buffer` -/
def refill (buf : Bytes) : List Ans → Refilled
  | [] => ⟨buf, [], [], 0⟩
  | .notDone :: rest => ⟨buf, rest, [], 1⟩
  | .data d :: rest =>
    if chRefill_g6 buf d then ⟨chRefill_a4 buf d, rest, d, 1⟩
    else
      let r := refill buf rest
      ⟨r.buf, r.pending, r.got, r.calls + 1⟩

/-- the refill step of `initiate_send`: only when fewer than `obs` bytes are buffered -/
def refillIfLow (obs : Int) (c : Chan) : Refilled :=
  if initSend_g0 c.buf obs 0 true then refill c.buf c.pending else ⟨c.buf, c.pending, [], 0⟩

/-- `initiate_send` with a socket that accepts at most `accept` bytes of what it is offered -/
def initiateSend (obs : Int) (accept : Nat) (c : Chan) : Chan :=
  let r := refillIfLow obs c
  let offered := initSend_c0_0 r.buf obs 0 true
  let n : Nat := min accept offered.length
  let go := initSend_g1 r.buf obs 0 true && initSend_g2 r.buf obs (n : Int) true
  { buf := if go then initSend_a2 r.buf obs (n : Int) true else r.buf,
    pending := r.pending,
    sent := if go then c.sent ++ offered.take n else c.sent,
    yielded := c.yielded ++ r.got,
    asked := c.asked + r.calls }

/-- one `initiate_send` per element of the schedule -/
def run (obs : Int) : List Nat → Chan → Chan
  | [], c => c
  | k :: ks, c => run obs ks (initiateSend obs k c)

/-! ### line protocol

  `case outbuf obs=<n> answers=<nd|e|hex>,…`   (`e` = b'')
  op `send k=<bytes the socket accepts>` → `asked=<more() calls so far> sent=<bytes accepted in this call>` -/

def parseAns (s : String) : Option Ans :=
  if s = "nd" then some .notDone
  else if s = "e" then some (.data [])
  else (bytesOfHex s).bind fun b => if b.isEmpty then none else some (.data b)

def allSome {α : Type} : List (Option α) → Option (List α)
  | [] => some []
  | none :: _ => none
  | some a :: rest => (allSome rest).map (a :: ·)

def runCase (cfg : List String) (ops : List String) : List String :=
  let answers : Option (List Ans) := match kvGet cfg "answers" with
    | some "-" => some []
    | some a => allSome (((a.splitOn ",").filter (· ≠ "")).map parseAns)
    | none => none
  match kvInt cfg "obs", answers with
  | some obs, some answers =>
    let step (acc : List String × Chan) (l : String) : List String × Chan :=
      let ws := words l
      match ws.head?, kvNat ws "k" with
      | some "send", some k =>
        let c' := initiateSend obs k acc.2
        (acc.1 ++ [s!"asked={c'.asked} sent={hexOfBytes (c'.sent.drop acc.2.sent.length)}"], c')
      | _, _ => (acc.1 ++ ["bad-op"], acc.2)
    (ops.foldl step ([], { pending := answers })).1
  | _, _ => ops.map fun _ => "bad-config"

end Sv.OutBuf
