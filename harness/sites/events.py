"""supervisor.events: every EventTypes member with its ancestor-or-self chain among the members (this is the
subscription semantics of notify(): isinstance), its abstract flag (class docstring/comment convention is not
machine readable, so: has registered proper descendants), and the registry order."""
LEAN_MODULE = 'Events'
IMPORTS = []
OPENS = []


def TABLES():
    from supervisor import events
    ET = events.EventTypes
    members = [(k, v) for k, v in vars(ET).items() if not k.startswith('_') and isinstance(v, type)]
    out = ['-- supervisor/events.py EventTypes (registry order)']
    out.append('inductive Cls where')
    for k, v in members:
        out.append('  | %s' % k)
    out.append('deriving DecidableEq, Repr, Inhabited')
    out.append('def Cls.all : List Cls := [%s]' % ', '.join('.' + k for k, v in members))
    out.append('def Cls.name : Cls → String')
    for k, v in members:
        out.append('  | .%s => "%s"' % (k, k))
    out.append('-- issubclass(member, other member): ancestor-or-self, nearest first')
    out.append('def Cls.ancestors : Cls → List Cls')
    for k, v in members:
        anc = [k2 for c in v.__mro__ for k2, v2 in members if v2 is c]
        out.append('  | .%s => [%s]' % (k, ', '.join('.' + a for a in anc)))
    out.append('-- has a registered proper subclass (the "abstract" types of docs/events.rst)')
    out.append('def Cls.abstract : Cls → Bool')
    for k, v in members:
        ab = any(v2 is not v and issubclass(v2, v) for k2, v2 in members)
        out.append('  | .%s => %s' % (k, 'true' if ab else 'false'))
    out.append('-- EventRejectedEvent is deliberately not an Event: isinstance(EventRejectedEvent(...), Event)')
    out.append('def rejectedIsEvent : Bool := %s' % ('true' if issubclass(events.EventRejectedEvent, events.Event) else 'false'))
    return out
