import SupervisorModel.Basic.DriverKit
-- stub: replaced by the property author
def main : IO Unit := Sv.driverMain []
