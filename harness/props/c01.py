"""
C01 -- process state changes follow the documented lifecycle graph; UNKNOWN only on signalling
failure; one PROCESS_STATE notification per change naming the state left.

Correspondence: the real Subprocess/ProcessGroup/rpcinterface (harness/proc_l1.py) vs
Model/ProcOps.lean on random operation histories.  Monitors: edge set, event<->change
bijection and UNKNOWN-only-after-failed-delivery on the implementation's own event stream.
"""
import proc_l1
from proc_l1 import L1, op_line, cfg_line, gen_cfg, gen_ops

ID = 'C01'
LEAN_PROPS = 'SupervisorModel.Props.C01'
DRIVER = 'drv_c01'
GENERATED = ['Proc', 'Sup']
TRUSTED = [
    "modelled, not verified: one clock reading per top-level operation (nested time.time() calls read the same value)",
    "the system-call seam (fork/kill/pipes/stat) is replaced by scripted answers; the child side of fork is Model/Child (C18)",
    "docs/subprocess.rst's transition diagram is not parsed: the edge list of the property statement is written in Props/C01.lean; the documented state list is extracted",
]
ASSUMPTIONS = ["a reap is only generated for a process that currently has a forked, unreaped child (as waitpid guarantees)",
               "FastCGI programs: FastCGISubprocess.spawn/finish (socket manager hooks) are exercised by the monitors on the real classes with a scripted socket manager, not modelled in Lean; observation on the unchanged tree: a failure to (re)create the FastCGI socket propagates out of spawn() and transition() as an exception (state unchanged, nothing announced)"]
RULE = ("cases = operation histories (5-60 ops over transition/reap/rpcstart/rpcstop/rpcsignal/groupstop/stopreport) on a "
        "random program configuration, clock steps in {0, fractions, seconds, long gaps, backward jumps}, all spawn and "
        "signal-delivery outcomes; non-trivial = at least one state change; distinct = distinct canonical output trace")

EDGES = {('STOPPED', 'STARTING'), ('STARTING', 'RUNNING'), ('STARTING', 'BACKOFF'), ('STARTING', 'STOPPING'),
         ('RUNNING', 'STOPPING'), ('RUNNING', 'EXITED'), ('BACKOFF', 'STARTING'), ('BACKOFF', 'FATAL'),
         ('BACKOFF', 'STOPPED'), ('STOPPING', 'STOPPED'), ('EXITED', 'STARTING'), ('FATAL', 'STARTING')}
SIGNALLABLE = {'RUNNING', 'STARTING', 'STOPPING'}
DOCUMENTED = {'STOPPED', 'STARTING', 'RUNNING', 'BACKOFF', 'STOPPING', 'EXITED', 'FATAL', 'UNKNOWN'}


def monitor(ctx, cfg, ops, lines):
    """the property on the implementation's observables"""
    state = 'STOPPED'
    for i, (op, line) in enumerate(zip(ops, lines)):
        pub, outs, err = [x.strip() for x in line.split(' | ')]
        reported = pub.split()[0]
        toks = [] if outs == '-' else outs.split(';')
        inp = {'cfg': cfg, 'ops': ops[:i + 1]}
        for j, t in enumerate(toks):
            if not t.startswith('ev:'):
                continue
            to, rest = t[3:].split('<')
            frm = rest.split(':')[0]
            if frm != state:
                ctx.violation('notification-names-wrong-state-left', 'event %s names %s as the state left but the reported state was %s' % (t, frm, state), inp)
            if to == 'UNKNOWN':
                prev = toks[j - 1] if j else ''
                if not (prev.startswith('kill:') and op.get('kill') == 'fail' and frm in SIGNALLABLE):
                    ctx.violation('unknown-without-signal-failure', 'UNKNOWN entered by %s without a failed signal delivery just before' % t, inp)
            elif (frm, to) not in EDGES:
                ctx.violation('undocumented-edge', 'change %s -> %s is not an edge of the documented graph' % (frm, to), inp)
            state = to
        if reported not in DOCUMENTED:
            ctx.violation('undocumented-state', 'reported state %s' % reported, inp)
        if reported != state:
            ctx.violation('silent-state-change', 'reported state %s but notifications replay to %s' % (reported, state), inp)
            state = reported
        for t in toks:
            ctx.count('out:' + t.split(':')[0] + (':' + t[3:].split('<')[0] if t.startswith('ev:') else ''))
        if err != '-':
            ctx.count('exception:' + err)


def one_history(ctx, rng, nops, cfg=None, script=None, fcgi=False):
    cfg = cfg or gen_cfg(rng)
    h = L1(cfg, fcgi=fcgi)
    try:
        ops, lines = [], []
        gen = gen_ops(rng, nops)
        for k in range(nops):
            op = script[k] if script else gen(h.proc)
            if fcgi and not script and op['op'] in ('transition', 'rpcstart') and rng.random() < 0.3:
                op = dict(op, sock='fail')           # the FastCGI socket cannot be (re)created for this start attempt
            ops.append(op)
            lines.append(h.do(op))
            ctx.count('op:' + op['op'])
    finally:
        h.close()
    return cfg, ops, lines


CORPUS = [
    # F9-shaped history: a failed signal delivery leaves UNKNOWN with a live pid (documented exception of C01)
    ({'startsecs': 1, 'startretries': 3, 'autostart': True, 'autorestart': 'unexpected', 'exitcodes': [0], 'stopsignal': 15,
      'stopwaitsecs': 10, 'stopasgroup': False, 'killasgroup': False},
     [{'op': 'transition', 'now': 1024000, 'mood': 1, 'spawn': ('ok', 101), 'kill': 'ok'},
      {'op': 'transition', 'now': 1024000 + 2048, 'mood': 1, 'spawn': ('ok', 102), 'kill': 'ok'},
      {'op': 'rpcstop', 'now': 1024000 + 4096, 'mood': 1, 'kill': 'fail'},
      {'op': 'transition', 'now': 1024000 + 5000, 'mood': 1, 'spawn': ('ok', 103), 'kill': 'ok'}]),
    # startretries=0: first failure is FATAL in the same pass
    ({'startsecs': 1, 'startretries': 0, 'autostart': True, 'autorestart': 'true', 'exitcodes': [0], 'stopsignal': 15,
      'stopwaitsecs': 1, 'stopasgroup': True, 'killasgroup': True},
     [{'op': 'transition', 'now': 2048000, 'mood': 1, 'spawn': ('forkerr',), 'kill': 'ok'},
      {'op': 'transition', 'now': 2048000, 'mood': 1, 'spawn': ('ok', 7), 'kill': 'ok'},
      {'op': 'rpcstart', 'now': 2049000, 'mood': 1, 'spawn': ('ok', 8)},
      {'op': 'reap', 'now': 2049100, 'es': 0, 'busy': False},
      {'op': 'transition', 'now': 2049100, 'mood': 1, 'spawn': ('ok', 9), 'kill': 'ok'}]),
]


def run(ctx):
    rng = ctx.rng
    cases, impls = [], []
    def add(cfg, ops, lines):
        monitor(ctx, cfg, ops, lines)
        cases.append((cfg_line(cfg), [op_line(o) for o in ops]))
        impls.append(lines)
        changes = sum(l.count('ev:') for l in lines)
        ctx.case_done(tuple(lines), nontrivial=changes > 0)
    for cfg, script in CORPUS:
        add(*one_history(ctx, rng, len(script), cfg, script))
    ctx.sample({'case': cases[0][0], 'ops': cases[0][1], 'impl': impls[0]})
    # FastCGI programs (FastCGISubprocess.spawn/finish hook the socket manager in): monitors only -- the hooks are not in the
    # Lean model, so these histories are not sent to the correspondence
    for _ in range(ctx.n(400, 6000)):
        cfg, ops, lines = one_history(ctx, rng, rng.choice([5, 10, 20, 40]), fcgi=True)
        monitor(ctx, dict(cfg, fcgi=True), ops, lines)
        ctx.case_done(('fcgi',) + tuple(lines), nontrivial=sum(l.count('ev:') for l in lines) > 0)
        ctx.count('fcgi-histories')
    total = ctx.n(5000, 60000)
    done = 0
    while done < total:             # in chunks, so that a thorough run does not hold every trace in memory
        for _ in range(min(5000, total - done)):
            add(*one_history(ctx, rng, rng.choice([5, 10, 20, 40, 60])))
        done += 5000
        if done <= 5000:
            ctx.sample({'case': cases[-1][0], 'ops': cases[-1][1][:6], 'impl': impls[-1][:6]})
        ctx.correspond('proc', cases, impls)
        del cases[:], impls[:]


def replay(ctx, data):
    inp = data['input']
    cfg = inp['cfg']
    ops = [dict(o, spawn=tuple(o['spawn'])) if 'spawn' in o else o for o in inp['ops']]
    fcgi = bool(cfg.get('fcgi'))
    cfg2, ops2, lines = one_history(ctx, ctx.rng, len(ops), {k: v for k, v in cfg.items() if k != 'fcgi'}, ops, fcgi=fcgi)
    monitor(ctx, cfg, ops, lines)
    if not fcgi:
        ctx.correspond('proc', [(cfg_line(cfg), [op_line(o) for o in ops])], [lines])


TECHNIQUE = "Lean 4 invariant/induction theorems over a Subprocess model whose guards, timers and asserted state lists are regenerated from process.py; differential correspondence against the real Subprocess/ProcessGroup/rpcinterface"
LEVEL_TEXT = ("every operation (transition, reap, start/stop/signal RPC, group stop) from every process state is proved to emit a "
              "contiguous chain of PROCESS_STATE notifications along documented edges ending in the reported state, for all "
              "configurations, clock readings and environment answers, lifted to all histories of one process by induction, and to every run of the "
              "daemon model (pass_chain / passes_chain / passes_chain_init: for every process object that exists throughout, the notifications the daemon "
              "emits for it over any sequence of main-loop passes, RPCs, reaps and group changes replay from its old to its new state along documented edges; "
              "pass_chain_born: an object added at run time starts STOPPED; removeGroup_silent/_stopped)")
LEVEL_NOTE = "trusts Lean's kernel, extract.py, one clock reading per operation, the scripted seam; the daemon-level lifting uses Model/Sup.lean (tied to the real main loop by the C02/C05/C06/C13 correspondence runs)"
DESIGN_REF = "DESIGN.md section 6, C01"
