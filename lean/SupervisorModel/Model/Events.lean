import SupervisorModel.Basic.Bytes
import SupervisorModel.Generated.Events
/-
  supervisor/events.py: the callback registry and `notify`.  `callbacks` is a list scanned in
  order; `isinstance(event, type)` is "type is an ancestor-or-self of the event's class", read
  from the generated class table (`Sv.Gen.Events.Cls.ancestors`).
-/
namespace Sv.Events
open Sv.Gen.Events

/-- `isinstance(e, t)` for an event of class `c` -/
def isInstance (c t : Cls) : Bool := c.ancestors.elem t

/-- a subscription: `subscribe(type, callback)`; the callback is identified by the subscriber's index -/
structure Sub where
  type : Cls
  who : Nat
deriving DecidableEq, Repr

/-- `notify(event)`: the subscribers whose callback runs, in order, one entry per matching subscription -/
def notified (callbacks : List Sub) (c : Cls) : List Nat :=
  (callbacks.filter fun s => isInstance c s.type).map (·.who)

def parseCls (n : String) : Option Cls := Cls.all.find? fun c => c.name == n

/-! ### the registry `callbacks`: a list of (type, callback) pairs, in subscription order

  `subscribe` / `unsubscribe` are interpreters of the shapes regenerated from supervisor/events.py
  (`Sv.Gen.Events.subscribeShape`, `unsubscribeShape`, `unsubKeep`); `τ` stands for the event types and `κ` for the
  callbacks (bound methods, compared with `==`). -/

/-- `subscribe(type, callback)` -/
def subscribe {τ κ : Type} (t : τ) (c : κ) (r : List (τ × κ)) : List (τ × κ) :=
  match subscribeShape with
  | .append => r ++ [(t, c)]
  | .prepend => (t, c) :: r

/-- `unsubscribe(type, callback)`: `callbacks.remove((type, callback))` takes out the first equal pair; a filtering
    comprehension keeps the pairs its (regenerated) condition accepts -/
def unsubscribe {τ κ : Type} [DecidableEq τ] [DecidableEq κ] (t : τ) (c : κ) (r : List (τ × κ)) : List (τ × κ) :=
  match unsubscribeShape with
  | .removeFirst => r.erase (t, c)
  | .filter => r.filter fun e => unsubKeep (decide (e.1 = t)) (decide (e.2 = c))

/-- the test `notify` applies to a subscription of type `t` for an event of class `c` -/
def delivers (c t : Cls) : Bool :=
  match notifyTest with
  | .isinstance => isInstance c t
  | .exactType => c == t

/-! ### the documented hierarchy (docs/events.rst, "*Subtype Of*"), independent of the classes -/

/-- the documented parent of the type named `n` (`none`: documented as a root, or not documented) -/
def docParentName (n : String) : Option String := (documented.lookup n).join

/-- `n` and its documented supertypes, nearest first (at most `fuel` of them) -/
def docChainN : Nat → String → List String
  | 0, _ => []
  | fuel + 1, n => n :: (match docParentName n with
    | some p => docChainN fuel p
    | none => [])

/-- the documented ancestor-or-self chain of a registered type, by name; empty if the type is not documented -/
def docChain (c : Cls) : List String :=
  if (documented.lookup c.name).isSome then docChainN documented.length c.name else []

/-- the documented parent of a registered type, if it is a registered type -/
def documentedParent (c : Cls) : Option Cls := (docParentName c.name).bind parseCls

/-- "an event of type `c` is a `t`" as docs/events.rst says it: `t` is `c` or one of its documented supertypes -/
def docInstance (c t : Cls) : Bool := (docChain c).contains t.name

end Sv.Events
