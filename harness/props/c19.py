"""
C19 -- rotating logs keep the newest output within the configured bounds.

Implementation side: the real loggers.Logger + handle_file() -> FileHandler / RotatingFileHandler
writing into a scratch directory; operations are the calls supervisor itself makes
(logger.info(data) as the dispatchers do; handler.remove()+reopen() as removelogs does;
handler.reopen() as reopenlogs/SIGUSR2 does) plus external removal / replacement of files between
operations.  Observable = the directory listing with file contents after every operation.
Correspondence: the same operations through Model/Rotate.lean.
Monitors: the property statement evaluated on the real directory contents against the write
history (independent of the model).

The clear / reopen clause is additionally exercised through the real fan-out (props/c19_world.py): activity
loggers built by the real ServerOptions.make_logger() in every configuration, real ProcessGroup / Subprocess /
dispatchers over real pipes, the real clearLog / clearProcessLogs / clearAllProcessLogs RPC methods, SIGUSR2
through the real signal receiver and Supervisor.handle_signal(); one monitor per log; the same histories
through Model/LogFan.lean, which interprets the loop bodies regenerated from the source.

The bounds themselves ("for every maxbytes and backups") are exercised from where an operator states them: a configuration
file and a command line parsed by the real ServerOptions.realize(); one monitor compares the parameters of the handler that
writes to each configured path with the configured values (kinds configured-maxbytes0-but-log-will-rotate,
configured-maxbytes-not-in-effect, configured-backups-not-in-effect), the history monitors judge the behaviour against the
configured values.  Every clear / reopen operation also comes in every mood of the daemon (RUNNING / RESTARTING / SHUTDOWN).
"""
import io, os, re, sys, tempfile
from framework import Infra

ID = 'C19'
LEAN_PROPS = 'SupervisorModel.Props.C19'
DRIVER = 'drv_c19'
GENERATED = ['Rotate']
TRUSTED = [
    "modelled, not verified: os.rename/os.remove/os.path.exists/open('ab'|'wb') as an abstract file system "
    "(name index -> file; the open stream follows the file, not the name); the only OS error is ENOENT",
    "not modelled: external truncation of, or writes by others into, the live file (a 'wb' stream would leave a hole); "
    "disk-full and permission errors; SyslogHandler; BoundIO (C08)",
    "the handlers are driven directly and behind a real POutputDispatcher (stdout and stderr logs, with and without capture, removelogs/reopenlogs in both modes); which bytes the dispatcher hands to the normal log (tag matching, hold-back) is C07/C08's subject: here the calls of normallog.info are observed at the logger seam and only checked to be a prefix of the output outside capture sections; the capture log itself is an in-memory BoundIO (C08), not a file; a whole daemon run with a forked child is not part of this check",
]
TRUSTED.append(
    "the clear / reopen fan-out (clearLog, ServerOptions.reopenlogs, SIGUSR2, clearProcessLogs, clearAllProcessLogs) is "
    "modelled from the regenerated loop bodies (flattened guarded statements, early exits included) and driven through the "
    "real ServerOptions.make_logger(), ProcessGroup, Subprocess, make_dispatchers (real pipes), Supervisor.handle_signal and "
    "SupervisorNamespaceRPCInterface; not modelled there: name resolution and priority ordering of clearAllProcessLogs "
    "(_getGroupAndProcess, _getAllProcesses: monitors only), the text of the 'received SIGUSR2' message (taken from the "
    "observation), SyslogHandler; LogRecord's clock is frozen (supervisor.loggers.time) so that activity-log lines are "
    "reproducible")
TRUSTED.append(
    "from the configured text to the handler: command line vs file priority (Options._set and the priorities passed to it), the "
    "'Process defaults' test of Options.process_config, the defaults of add() / read_config / processes_from_section, the "
    "rotating / maxbytes / backups arguments of the three handle_file() calls and the constructor arguments inside handle_file are "
    "regenerated and composed by the model (actCfg / chanCfg); not modelled: the parsing of the text itself (byte_size suffixes, "
    "integer(), getopt) -- the worlds write sizes with and without KB / MB / GB units and the monitors compare the handler's "
    "maxBytes / backupCount and its behaviour with what the documentation says the text means; environment variables "
    "(no option of the activity log has one); negative values")
TRUSTED.append(
    "the daemon's mood: Supervisor.handle_signal specialised to SIGUSR2 and rpcinterface._update are regenerated per mood "
    "(every `if` on the signal or the mood replaced by the branch taken); which mood SIGTERM / SIGINT / SIGQUIT / SIGHUP / "
    "shutdown() / restart() lead to is observed (Supervisor.get_state()), not modelled; a clear RPC answered with SHUTDOWN_STATE "
    "while the daemon is not RUNNING counts as refused (it must then leave every log untouched), SIGUSR2 is never refused")
ASSUMPTIONS = [
    "one handler per log file (supervisor never opens two handlers on the same path)",
    "external actors only unlink or atomically replace whole files between two handler operations",
]
RULE = ("cases = (rotating?, maxbytes, backups, op sequence); maxbytes in {0,1,2,3,5,8,16,40}, backups in {0,1,2,3,5}; "
        "write sizes 0, 1, maxbytes-1, maxbytes, maxbytes+1, 2*maxbytes(+1) and small random; four op mixes: writes only, "
        "+reopen, +clear, +external remove/replace of any name index 0..backups+1; a fifth population drives dispatchers with capture enabled (chunks with BEGIN/END tags; clear, reopen and external removal/replacement both in ordinary mode and inside a capture section; the model is fed the bytes the dispatcher hands to the normal log); about 30% of the random cases go through a real POutputDispatcher (child stdout/stderr log); payload bytes are a running counter so that "
        "file contents identify their place in the history; non-trivial = at least one rollover or clear or external op happened; "
        "distinct = distinct (config, op list); a sixth population are *worlds*: activity logger from the real make_logger() "
        "(daemon / nodaemon / silent x plain / rotating / rotating without backups x level INFO / DEBG, optionally a handler without "
        "reopen() in front or behind) plus 0-3 real processes in 1-3 groups (programs and event listeners; stdout / stderr logs plain, "
        "rotating, absent, stderr redirected), histories of activity messages, child output, clearLog, clearProcessLogs, "
        "clearAllProcessLogs, SIGUSR2, ServerOptions.reopenlogs and external removal / replacement of any log, every clear / reopen "
        "followed by further writes to every affected log; corpus: every make_logger configuration x (clearLog | SIGUSR2 | "
        "reopenlogs after the file was moved away) followed by five messages; "
        "two more dimensions of every world: (a) where the bounds come from: attributes set on the options object, or a configuration "
        "file and command line written by the harness and parsed by the real ServerOptions.realize() ([supervisord] logfile_maxbytes / "
        "logfile_backups, -y / -z / --logfile_maxbytes= / --logfile_backups= overriding a file that says something else, [program:x] / "
        "[eventlistener:x] stdout_/stderr_logfile_maxbytes / _backups; values 0, 1, small, 1KB, 50MB, 2GB, 1000 backups, or not written at "
        "all = the documented default; sizes with and without units), groups made by Supervisor.add_process_group() from the parsed "
        "process_group_configs, start-up messages replayed by make_logger() observed like any message; (b) the daemon's mood: in half "
        "of the worlds SIGTERM / SIGINT / SIGQUIT / SIGHUP (real handle_signal) or shutdown() / restart() arrives in the first half of the "
        "history, possibly a second one later, and every other operation goes on in that mood; corpus: every make_logger configuration "
        "from a file / command line with explicit zeros, 1, defaults and huge values x 12 messages, clearLog, SIGUSR2; children's logs "
        "from sections with zeros and unset values; logs moved away + SIGUSR2 + output on every log in every mood reached through every "
        "signal / RPC (and two in a row), from attributes and from a configuration file")

FMT_TEXT = '%(levelname)s %(message)s\n'


def hexs(b):
    return b.hex() if b else '-'


class Real:
    """the real handler in a scratch directory"""
    def __init__(self, root, rotating, maxbytes, backups, text=False, direct=False):
        from supervisor import loggers
        self.loggers = loggers
        os.makedirs(root)
        self.root = root
        self.path = os.path.join(root, 'log')
        self.logger = loggers.getLogger()
        self.text = text
        if direct:
            # RotatingFileHandler with maxBytes <= 0 (handle_file never builds it: rotating = not not maxbytes)
            h = loggers.RotatingFileHandler(self.path, 'ab', maxbytes, backups)
            h.setFormat('%(message)s'); h.setLevel(self.logger.level)
            self.logger.addHandler(h)
        else:
            loggers.handle_file(self.logger, self.path, FMT_TEXT if text else '%(message)s',
                                rotating=rotating, maxbytes=maxbytes, backups=backups)

    def name(self, i):
        return self.path if i == 0 else '%s.%d' % (self.path, i)

    def op(self, o):
        """returns the canonical error part"""
        err = 'ok'
        saved = sys.stderr
        sys.stderr = cap = io.StringIO()
        try:
            try:
                if o[0] == 'write':
                    if self.text:
                        # activity-log style: a str message through a format; o[1] is 'INFO <msg>\n'
                        self.logger.info(o[1][5:-1].decode('ascii'))
                    else:
                        self.logger.info(o[1])
                elif o[0] == 'clear':
                    for h in self.logger.handlers:
                        h.remove()
                        h.reopen()
                elif o[0] == 'reopen':
                    for h in self.logger.handlers:
                        h.reopen()
                elif o[0] == 'extremove':
                    try:
                        os.remove(self.name(o[1]))
                    except FileNotFoundError:
                        pass
                elif o[0] == 'extreplace':
                    tmp = os.path.join(self.root, '.tmp')
                    with open(tmp, 'wb') as f:
                        f.write(o[2])
                    os.rename(tmp, self.name(o[1]))
                else:
                    raise Infra('unknown op %r' % (o,))
            except ValueError:
                err = 'err closedStream'
            except OSError:
                err = 'err osError'
        finally:
            sys.stderr = saved
        if cap.getvalue():
            err += ' swallowed-exception'
        return err

    def run_op(self, o):
        """-> [(model line, operation as the monitor sees it, listing, other names, error part)]"""
        err = self.op(o)
        ls, other = self.listing()
        return [(op_line(o), o, ls, other, err)]

    def listing(self):
        res, other = {}, []
        for fn in os.listdir(self.root):
            m = re.fullmatch(r'log(?:\.(\d+))?', fn)
            if not m or (m.group(1) and str(int(m.group(1))) != m.group(1)):
                other.append(fn); continue
            with open(os.path.join(self.root, fn), 'rb') as f:
                res[int(m.group(1) or 0)] = f.read()
        return res, other

    def close(self):
        self.logger.close()


class RealL2(Real):
    """the same handlers behind a real POutputDispatcher (a child's stdout or stderr log): chunks arrive through
    handle_read_event(), clearProcessLogs -> removelogs(), SIGUSR2 -> reopenlogs()"""
    def __init__(self, root, rotating, maxbytes, backups, channel='stdout', capture=0):
        from supervisor import loggers, events
        from supervisor.dispatchers import POutputDispatcher
        from supervisor.tests.base import DummyOptions, DummyProcess, DummyPConfig
        os.makedirs(root)
        self.root = root
        self.path = os.path.join(root, 'log')
        self.text = False
        options = DummyOptions()
        options.getLogger = loggers.getLogger          # the real logger factory (ServerOptions.getLogger)
        kw = {channel + '_logfile': self.path, channel + '_logfile_maxbytes': maxbytes if rotating else 0,
              channel + '_logfile_backups': backups, channel + '_capture_maxbytes': capture}
        config = DummyPConfig(options, 'proc', '/bin/proc', **kw)
        self.options = options
        self.disp = POutputDispatcher(DummyProcess(config),
                                      events.ProcessCommunicationStdoutEvent if channel == 'stdout'
                                      else events.ProcessCommunicationStderrEvent, 0)
        self.logger = self.disp.normallog
        self.BEGIN, self.END = events.ProcessCommunicationEvent.BEGIN_TOKEN, events.ProcessCommunicationEvent.END_TOKEN
        self.stream = b''           # everything the child has written so far
        self.handed = b''           # everything the dispatcher handed to the normal log so far
        self.subs = []
        # observe the logger seam: every normallog.info(data) call with the directory as it is right after it
        orig = self.disp.normallog.info
        def info(data, **kw):
            r = orig(data, **kw)
            ls, other = self.listing()
            self.subs.append((bytes(data), ls, other))
            return r
        self.disp.normallog.info = info

    def in_capture(self):
        """is the child inside a capture section?  computed from the bytes sent, not from the dispatcher"""
        mode, rest = False, self.stream
        while True:
            tok = self.END if mode else self.BEGIN
            i = rest.find(tok)
            if i < 0:
                return mode
            mode, rest = not mode, rest[i + len(tok):]

    def plain_expected(self):
        """the bytes of the stream outside capture sections (tags excluded)"""
        out, mode, rest = b'', False, self.stream
        while True:
            tok = self.END if mode else self.BEGIN
            i = rest.find(tok)
            if i < 0:
                return out + (b'' if mode else rest)
            if not mode:
                out += rest[:i]
            mode, rest = not mode, rest[i + len(tok):]

    def run_op(self, o):
        if o[0] == 'chunk':
            del self.subs[:]
            self.stream += o[1]
            err = self.op(('write', o[1]))
            res = [('write ' + hexs(d), ('write', d), ls, other, 'ok') for d, ls, other in self.subs]
            self.handed += b''.join(d for d, _, _ in self.subs)
            if err != 'ok':
                ls, other = self.listing()
                if res:
                    res[-1] = res[-1][:4] + (err,)
                else:
                    res = [(None, ('noop',), ls, other, err)]        # nothing reached the log, but the read raised
            return res
        if o[0] in ('clear', 'reopen'):
            mode = self.in_capture()
            err = self.op(o)
            ls, other = self.listing()
            return [('%s %d' % ('dclear' if o[0] == 'clear' else 'dreopen', 1 if mode else 0), o, ls, other, err)]
        return Real.run_op(self, o)

    def op(self, o):
        if o[0] not in ('write', 'clear', 'reopen'):
            return Real.op(self, o)
        err = 'ok'
        saved = sys.stderr
        sys.stderr = cap = io.StringIO()
        try:
            try:
                if o[0] == 'write':
                    self.options.readfd_result = o[1]
                    self.disp.handle_read_event()
                elif o[0] == 'clear':
                    self.disp.removelogs()
                else:
                    self.disp.reopenlogs()
            except ValueError:
                err = 'err closedStream'
            except OSError:
                err = 'err osError'
        finally:
            sys.stderr = saved
        if cap.getvalue():
            err += ' swallowed-exception'
        return err


def op_line(o):
    if o[0] == 'write': return 'write ' + hexs(o[1])
    if o[0] == 'chunk': return 'chunk ' + hexs(o[1])
    if o[0] == 'extremove': return 'extremove %d' % o[1]
    if o[0] == 'extreplace': return 'extreplace %d %s' % (o[1], hexs(o[2]))
    return o[0]


def canon(ls, other, err, show):
    parts = ['%d=%s' % (k, hexs(ls[k])) for k in sorted(ls) if k <= show]
    parts += ['beyond:%d' % k for k in sorted(ls) if k > show] + ['other:' + o for o in sorted(other)]
    return ' '.join(parts) + ' | ' + err


# ---------------------------------------------------------------------------------------------
# monitors: the property over the real directory contents vs. the write history
# ---------------------------------------------------------------------------------------------
def is_segment_chain(files_old_to_new, hist):
    """every content is an infix of hist and they can be placed in age order without overlap"""
    pos = 0
    for c in files_old_to_new:
        if not c:
            continue
        k = hist.find(c, pos)
        if k < 0:
            return False
        pos = k + len(c)
    return True


class Monitor:
    def __init__(self, ctx, cfg, ops, report=None):
        self.ctx, self.cfg, self.ops = ctx, cfg, ops
        self.report = report      # world runs: one monitor per log, violations go through the world's reporter
        self.rot = cfg['rotating'] and cfg['maxbytes'] > 0
        self.mb, self.N = cfg['maxbytes'], cfg['backups']
        self.hist = b''
        self.prev = {0: b''}
        self.seen_ext = self.seen_replace = self.seen_clear = False
        self.attached = True
        self.mark = None        # history offset of the last clear/reopen with no external op since
        self.dropped = 0
        self.k = 0

    def begin_clear(self):
        """a clearing operation that itself logs (clearLog) has begun: until it completes the handler need not be at the path"""
        self.seen_clear = True
        self.attached = False
        self.mark = None

    def bad(self, kind, what):
        if self.report is not None:
            return self.report(kind, what)
        self.ctx.violation(kind, what + ' (after op %d: %s)' % (self.k, op_line(self.ops[self.k])),
                           {'cfg': self.cfg, 'ops': [list_op(o) for o in self.ops[:self.k + 1]]})

    def step(self, k, o, ls, other, err):
        self.k = k
        mb, N, prev = self.mb, self.N, self.prev
        if o[0] == 'write':
            self.hist += o[1]
        if o[0] in ('extremove', 'extreplace'):
            self.seen_ext = True
            self.mark = None
            if o[1] == 0: self.attached = False
            if o[0] == 'extreplace': self.seen_replace = True
        if o[0] in ('clear', 'reopen', 'opclear', 'opreopen'):
            # 'opclear' / 'opreopen': a whole operator-level operation (clearLog, SIGUSR2 ...) has completed; o[1] of
            # 'opclear' = what the operation itself logged while it ran
            self.attached = True
            self.mark = len(self.hist)
            if o[0] in ('clear', 'opclear'): self.seen_clear = True
        if err != 'ok':
            self.bad('exception-escaped-log-operation', 'handler operation raised or swallowed an exception: ' + err)
        if other:
            self.bad('unexpected-file-name', 'files %r in the log directory' % (other,))
        chain = b''.join(ls[i] for i in sorted(ls, reverse=True))
        limit = N if self.rot else 0
        # files present: the log and at most N backups .1 .. .N
        if not self.seen_replace:
            out = [i for i in ls if i > limit]
            if out:
                self.bad('file-outside-bounds', 'names %r exist with backups=%d rotating=%s' % (out, N, self.rot))
        # maxbytes = 0 (or plain FileHandler): nothing is ever rotated or dropped
        if not self.rot and not self.seen_ext and not self.seen_clear:
            if ls != {0: self.hist}:
                self.bad('rotated-or-lost-with-maxbytes0', 'directory %r, written %r' % (sorted(ls), len(self.hist)))
        if self.rot:
            # every file a contiguous segment of the history, in age order (no reordering, no duplication)
            if not self.seen_replace:
                if not is_segment_chain([ls[i] for i in sorted(ls, reverse=True)], self.hist):
                    self.bad('file-not-a-history-segment', 'files are not age-ordered contiguous segments of what was written')
                short = [i for i in ls if i > 0 and len(ls[i]) < mb]
                if short:
                    self.bad('short-backup', 'backup %r shorter than maxbytes=%d' % (short, mb))
            # the live log is shorter than maxbytes once a write has completed
            if o[0] == 'write' and self.attached and not self.seen_replace and 0 in ls and len(ls[0]) >= mb:
                self.bad('live-log-too-long', 'live log has %d bytes, maxbytes=%d' % (len(ls[0]), mb))
            # writes, reopens only: .N ++ ... ++ .1 ++ log is a suffix of everything written; only whole oldest files dropped
            if not self.seen_ext and not self.seen_clear:
                if sorted(ls) != list(range(len(ls))):
                    self.bad('hole-in-backup-names', 'names %r' % sorted(ls))
                elif not self.hist.endswith(chain):
                    self.bad('gap-or-reorder-in-rotated-files', 'concatenation of the files is not a suffix of what was written')
                else:
                    nd = len(self.hist) - len(chain)
                    if nd != self.dropped:
                        oldest = prev.get(max(prev)) if N > 0 else prev.get(0, b'') + (o[1] if o[0] == 'write' else b'')
                        if not (N == 0 or max(prev) == N) or nd - self.dropped != len(oldest):
                            self.bad('partial-file-dropped', 'dropped %d bytes, oldest file had %d' % (nd - self.dropped, len(oldest)))
                        self.dropped = nd
            # a write while the handler is bound to the configured path lands there (or in .1 when it filled the log)
            if o[0] == 'write' and self.attached and 0 in prev:
                full = prev[0] + o[1]
                if len(full) < mb:
                    good = ls.get(0) == full
                else:
                    good = ls.get(0) == b'' and (N <= 0 or ls.get(1) == full)
                if not good:
                    self.bad('write-not-at-configured-path' if N > 0 or len(full) < mb else 'backups0-not-truncated',
                             'log had %d bytes, wrote %d, now log=%r .1=%r' % (len(prev[0]), len(o[1]),
                              None if 0 not in ls else len(ls[0]), None if 1 not in ls else len(ls[1])))
        else:
            if o[0] == 'write' and self.attached and 0 in prev and ls.get(0) != prev[0] + o[1]:
                self.bad('write-not-at-configured-path', 'plain handler: write did not append to the configured path')
        # clear / reopen: the handler is at the configured path afterwards, nothing written later is lost
        if o[0] in ('clear', 'reopen', 'opclear', 'opreopen'):
            if 0 not in ls:
                self.bad('no-file-at-configured-path', 'no log file after ' + o[0])
            elif o[0] == 'clear' and ls[0] != b'':
                self.bad('clear-did-not-empty-log', 'log has %d bytes after clear' % len(ls[0]))
            elif o[0] == 'opclear' and not o[1].endswith(ls[0]):
                self.bad('clear-did-not-empty-log', 'log has %d bytes after the clear which the operation did not write itself' % len(ls[0]))
            elif o[0] in ('reopen', 'opreopen') and 0 in prev and ls[0] != prev[0]:
                self.bad('reopen-changed-log', 'reopen changed the log contents')
            if o[0] in ('clear', 'opclear') and any(ls.get(i) != prev.get(i) for i in set(ls) | set(prev) if i > 0):
                self.bad('clear-touched-backups', 'clear changed a backup file')
        # a handler bound to the configured path leaves its output in a file *at* that path
        if o[0] == 'write' and self.attached and 0 not in ls:
            self.bad('write-left-no-file-at-configured-path', 'after a write there is no file at the configured path')
        if self.mark is not None and o[0] == 'write' and not self.seen_replace:
            w = self.hist[self.mark:]
            if not (chain.endswith(w) or w.endswith(chain)):
                self.bad('output-lost-after-clear-or-reopen', 'bytes written after the last clear/reopen are missing from the files')
        self.prev = dict(ls)


def list_op(o):
    return [o[0]] + [x.hex() if isinstance(x, bytes) else x for x in o[1:]]


def unlist_op(l):
    if l[0] in ('write', 'chunk'): return (l[0], bytes.fromhex(l[1]))
    if l[0] == 'extreplace': return ('extreplace', l[1], bytes.fromhex(l[2]))
    if l[0] == 'extremove': return ('extremove', l[1])
    return (l[0],)


class Runner:
    def __init__(self, ctx):
        self.ctx = ctx
        self.cases, self.impls = [], []
        self.n = 0

    def one(self, cfg, ops, monitor=True):
        ctx = self.ctx
        self.n += 1
        show = max(cfg['backups'], 0) + 2
        if cfg.get('l2'):
            real = RealL2(os.path.join(tempfile.mkdtemp(dir=ctx.scratch), 'd'), cfg['rotating'], cfg['maxbytes'], cfg['backups'],
                          channel=cfg['l2'], capture=cfg.get('capture', 0))
            ctx.count('through-dispatcher:' + cfg['l2'] + (':capture-enabled' if cfg.get('capture') else ''))
        else:
            real = Real(os.path.join(tempfile.mkdtemp(dir=ctx.scratch), 'd'), cfg['rotating'], cfg['maxbytes'], cfg['backups'],
                        text=cfg.get('text', False), direct=cfg.get('direct', False))
        mon = Monitor(ctx, cfg, ops)
        lines, model_ops = [], []
        nontrivial = False
        try:
            for k, ho in enumerate(ops):
                ctx.count('op:' + ho[0])
                before, _ = real.listing()
                if ho[0] in ('clear', 'reopen') and cfg.get('capture'):
                    ctx.count('%s:%s' % (ho[0], 'inside-capture-section' if real.in_capture() else 'ordinary-mode'))
                for mline, o, ls, other, err in real.run_op(ho):
                    if mline is not None:
                        model_ops.append(mline)
                        lines.append(canon(ls, other, err, show))
                    if o[0] == 'write':
                        rolled = ls.get(0, b'') != before.get(0, b'') + o[1]
                        ctx.count('write:' + ('rollover-or-detached' if rolled else 'append'))
                        nontrivial = nontrivial or rolled
                        mb = cfg['maxbytes']
                        ctx.count('write-size:' + ('0' if not o[1] else '<mb' if len(o[1]) < mb else '=mb' if len(o[1]) == mb else '>mb'))
                    else:
                        nontrivial = True
                    if monitor:
                        mon.step(k, o, ls, other, err)
                    before = ls
                if ho[0] == 'chunk' and monitor and not real.plain_expected().startswith(real.handed):
                    mon.k = k
                    mon.bad('plain-output-misrouted', 'the bytes handed to the log are not the child output outside capture sections')
        finally:
            real.close()
        ctx.count('cfg:%s mb=%d' % ('rot' if cfg['rotating'] else 'plain', cfg['maxbytes']))
        ctx.count('backups=%d' % cfg['backups'])
        ctx.case_done((sorted(cfg.items()), [list_op(o) for o in ops]), nontrivial)
        self.cases.append(('case rotate rotating=%d maxbytes=%d backups=%d show=%d' % (
            1 if cfg['rotating'] else 0, cfg['maxbytes'], cfg['backups'], show), model_ops))
        self.impls.append(lines)
        return lines


class WorldRunner:
    """the clear / reopen fan-out through the real code (c19_world.World): one monitor per log, one model case per world"""
    def __init__(self, ctx):
        self.ctx = ctx
        self.cases, self.impls = [], []

    def one(self, w, ops, monitor=True):
        from props import c19_world as W
        ctx = self.ctx
        conf = w.get('via', 'attr') == 'conf'
        chans = [c for g in w['groups'] for p in g for c in (p['out'], p['err']) if isinstance(c, list)]
        sizes = [(W.expected_act(w) if conf else [w['maxbytes'], w['backups']])[1]] + [(W.expected_chan(c) if conf else c)[1] for c in chans]
        world = W.World(os.path.join(tempfile.mkdtemp(dir=ctx.scratch), 'd'), w)
        # the window of name indices shown in the canonical lines: past the configured and past the handlers' own bounds
        sizes += [bk for hs in world.handler_params().values() for _, bk in hs if isinstance(bk, int)]
        show = max(sizes) + 2
        logids = list(world.dirs)
        state = {'k': -1}
        def reporter(lid):
            def report(kind, what):
                k = state['k']
                where = 'at start-up' if k < 0 else 'after world op %d: %s' % (k, ' '.join(str(x) for x in W.op_json(ops[k])))
                ctx.violation(kind, '%s log: %s (%s)' % ('activity' if lid == 'act' else 'child %s' % lid, what, where),
                              {'world': w, 'ops': [W.op_json(o) for o in ops[:k + 1]]})
            return report
        mons = {lid: Monitor(ctx, world.cfgs[lid], None, report=reporter(lid)) for lid in logids}
        model_ops, lines = [], []
        def writes(evs, k, cov=(), kind=''):
            """the messages / chunks handed to the loggers during one operation -> model ops, lines, monitor steps"""
            inop, written = {}, set()
            for lid, data, snap in evs:
                if not data:
                    continue
                if lid == 'act':
                    model_ops.append('log ' + hexs(data))
                else:
                    g, p_, ch = lid.split('.')
                    model_ops.append('chunk %s %s %s %s' % (g, p_, ch, hexs(data)))
                lines.append(W.canon_world(world, snap, show, 'ok'))
                if monitor:
                    ls, other = snap[lid]
                    mons[lid].step(k, ('write', data), ls, other, 'ok')
                    inop[lid] = inop.get(lid, b'') + data
                    written.add(lid)
                    if lid in cov: ctx.count('write-during-%s:%s' % (kind, 'activity' if lid == 'act' else 'child'))
            return inop, written
        try:
            # ---- the configured bounds are the bounds in effect: the handler that writes to each configured path
            if monitor:
                for lid, hs in world.handler_params().items():
                    cfg = world.cfgs[lid]
                    ctx.count('bounds:%s maxbytes=%s backups=%s' % ('act' if lid == 'act' else 'child',
                              _klass(cfg['maxbytes']), _klass(cfg['backups'])))
                    if len(hs) != 1:
                        reporter(lid)('no-single-handler-at-configured-path', '%d handlers write to the configured path' % len(hs))
                        continue
                    mb, bk = hs[0]
                    if cfg['maxbytes'] == 0:
                        if mb is not None and mb > 0:
                            reporter(lid)('configured-maxbytes0-but-log-will-rotate',
                                          'maxbytes = 0 is configured (nothing is ever rotated or dropped) but the handler rotates at %d bytes keeping %r backups' % (mb, bk))
                    else:
                        if mb != cfg['maxbytes']:
                            reporter(lid)('configured-maxbytes-not-in-effect', 'maxbytes = %d is configured, the handler rotates at %r' % (cfg['maxbytes'], mb))
                        if bk != cfg['backups']:
                            reporter(lid)('configured-backups-not-in-effect', 'backups = %d is configured, the handler keeps %r' % (cfg['backups'], bk))
            # ---- what make_logger() itself logged (the parsing messages)
            if world.boot_events:
                ctx.count('world:start-up messages', len(world.boot_events))
            writes(world.boot_events, -1)
            last = world.snapshot()
            for k, o in enumerate(ops):
                state['k'] = k
                ctx.count('world-op:' + o[0] + (':' + o[1] if o[0] in ('signal', 'rpc') else ''))
                mood = world.mood()
                evs, final, err, refused = world.run_op(o)
                cov = {} if refused else W.covered(w, logids, o)
                kind = o[0]
                if kind in ('clearlog', 'optreopen', 'sigusr2', 'clearproc', 'clearall'):
                    ctx.count('mood:%s %s%s' % (mood, kind, ' refused' if refused else ''))
                if refused: ctx.count('world-op:%s-refused' % kind)
                # ---- model operations and the implementation's line for each
                if kind in ('log', 'chunk'):
                    inop, written = writes(evs, k)
                    if err != 'ok' and lines:
                        lines[-1] += ' !' + err
                elif kind in ('signal', 'rpc'):
                    inop, written = writes(evs, k)
                    model_ops.append('setmood %s -' % world.mood())
                    lines.append(W.canon_world(world, final, show, err))
                else:
                    if kind == 'sigusr2':
                        first = next((d for lid, d, _ in evs if lid == 'act'), b'')
                        model_ops.append('sigusr2 ' + hexs(first))
                    elif kind == 'clearproc':
                        model_ops.append('clearproc %d %d' % (o[1], o[2]))
                    elif kind == 'extremove':
                        model_ops.append('extremove %s %d' % (o[1], o[2]))
                    elif kind == 'extreplace':
                        model_ops.append('extreplace %s %d %s' % (o[1], o[2], hexs(o[3])))
                    else:
                        model_ops.append(kind)
                    lines.append(W.canon_world(world, final, show, err))
                if not monitor:
                    last = final
                    continue
                # ---- monitors, per log, in the property's terms
                if err != 'ok':
                    reporter('act')('exception-escaped-log-operation', 'the operation raised, answered a fault or swallowed an exception: ' + err)
                if refused and final != last:
                    reporter('act')('refused-operation-touched-a-log', 'the operation was refused (%s) but a log changed' % mood)
                if kind == 'sigusr2' and refused:
                    reporter('act')('reopen-request-refused', 'SIGUSR2 was refused')
                for lid in cov:
                    if cov[lid] == 'clear':
                        mons[lid].begin_clear()
                if kind not in ('log', 'chunk', 'signal', 'rpc'):
                    inop, written = {}, set()
                    for lid, data, snap in evs:
                        if not data:
                            continue
                        ls, other = snap[lid]
                        mons[lid].step(k, ('write', data), ls, other, 'ok')
                        inop[lid] = inop.get(lid, b'') + data
                        written.add(lid)
                        if lid in cov: ctx.count('write-during-%s:%s' % (kind, 'activity' if lid == 'act' else 'child'))
                for lid in logids:
                    ls, other = final[lid]
                    if lid in cov:
                        mons[lid].step(k, ('opclear', inop.get(lid, b'')) if cov[lid] == 'clear' else ('opreopen',), ls, other, 'ok')
                    elif kind in ('extremove', 'extreplace') and o[1] == lid:
                        mons[lid].step(k, (kind,) + tuple(o[2:]), ls, other, 'ok')
                    elif lid not in written:
                        mons[lid].step(k, ('noop',), ls, other, 'ok')
                last = final
        finally:
            world.close()
        ctx.count('world:via=%s%s' % (w.get('via', 'attr'), '+cli' if w.get('cli') else ''))
        ctx.count('world:%s%s' % ('nodaemon' if w['nodaemon'] else 'daemon', '+silent' if w['silent'] else ''))
        ctx.count('world:handlers=%d' % (1 + (1 if w['nodaemon'] and not w['silent'] else 0) + (0 if w.get('extra', 'none') == 'none' else 1)))
        amb, abk = world.cfgs['act']['maxbytes'], world.cfgs['act']['backups']
        ctx.count('world:act-log %s' % ('plain' if not amb else 'rotating backups=0' if not abk else 'rotating'))
        ctx.count('world:level=' + w['level'])
        ctx.count('world:processes=%d' % sum(len(g) for g in w['groups']))
        ctx.case_done(('world', repr(w), [W.op_json(o) for o in ops]), True)
        self.cases.append((W.case_line(world, show), model_ops))
        self.impls.append(lines)
        return lines


def _klass(v):
    return '0' if v == 0 else '1' if v == 1 else 'default' if v in (10, 50 * 1024 * 1024) else 'huge' if v >= 1000 else 'small'


MOOD_OPS = [('signal', 'TERM'), ('signal', 'INT'), ('signal', 'QUIT'), ('signal', 'HUP'), ('rpc', 'shutdown'), ('rpc', 'restart')]
MB50, GB2 = 50 * 1024 * 1024, 2 * 1024 * 1024 * 1024


def gen_world(rng):
    """a world and an operation history; after every clear / reopen kind of operation the affected logs are written again"""
    from props import c19_world as W
    conf = rng.random() < 0.5
    w = {'nodaemon': rng.random() < 0.6, 'silent': rng.random() < 0.25,
         'maxbytes': rng.choice([0, 0, 60, 100, 100, 150, 400, 50 * 1024 * 1024]), 'backups': rng.choice([0, 0, 1, 2, 10]),
         'level': 'DEBG' if rng.random() < 0.25 else 'INFO', 'extra': rng.choice(['none'] * 8 + ['front', 'back']), 'groups': []}
    if conf:
        # the bounds as an operator writes them: boundary values (0, 1, not written = the documented default, huge), in the
        # file and / or on the command line (which wins), sizes with and without a unit
        vals_mb = [None, 0, 0, 0, 1, 60, 100, 150, 400, 1024, MB50, GB2]
        vals_bk = [None, 0, 0, 0, 1, 2, 10, 1000]
        w.update(via='conf', maxbytes=rng.choice(vals_mb), backups=rng.choice(vals_bk),
                 unit=rng.choice(['', '', 'KB', 'kb', 'MB', 'GB']), user=rng.random() < 0.2)
        if rng.random() < 0.35:
            cli = {}
            if rng.random() < 0.7: cli['maxbytes'] = rng.choice(vals_mb[1:])
            if rng.random() < 0.7 or not cli: cli['backups'] = rng.choice(vals_bk[1:])
            w.update(cli=cli, cliform=rng.choice(['short', 'long']), cliunit=rng.choice(['', 'KB', 'mb']))
    def chan():
        r = rng.random()
        if r < 0.12: return None
        if conf:
            return [rng.choice([None, 0, 0, 1, 4, 8, 16]), rng.choice([None, 0, 0, 1, 2])]
        mb = rng.choice([0, 4, 8, 16])
        return [mb, rng.choice([0, 1, 2])]
    nproc = rng.choice([0, 1, 1, 2, 2, 3])
    for _ in range(nproc):
        p = {'kind': 'l' if rng.random() < 0.2 else 'p', 'out': chan(), 'err': 'x' if rng.random() < 0.25 else chan()}
        if conf and p['kind'] == 'l':
            # a configured event listener pool is a group of its own; redirect_stderr is not allowed there
            if p['err'] == 'x': p['err'] = chan()
            w['groups'].append([p]); w['groups'].append([])
            continue
        if conf and p['err'] == 'x' and rng.random() < 0.3:
            p['xfile'] = True                       # a start-up warning goes through the activity log
        if conf: p['unit'] = rng.choice(['', '', 'KB'])
        if not w['groups'] or rng.random() < 0.4:
            w['groups'].append([])
        w['groups'][-1].append(p)
    w['groups'] = [g for g in w['groups'] if g]
    procs = [(gi, pi, p) for gi, g in enumerate(w['groups']) for pi, p in enumerate(g)]
    chans = [(gi, pi, ch) for gi, pi, p in procs for ch, key in (('o', 'out'), ('e', 'err')) if p[key] != 'x']
    logs = ['act'] + ['%d.%d.%s' % (gi, pi, ch) for gi, pi, p in procs for ch, key in (('o', 'out'), ('e', 'err')) if isinstance(p[key], list)]
    pay = Payload()
    n = [0]
    amb = W.expected_act(w)[0] if conf else w['maxbytes']
    def msg():
        n[0] += 1
        base = amb if 0 < amb < 1000 else 60
        pad = rng.choice([0, 0, 3, max(0, base - 33), max(0, base - 32), max(0, base - 31), base, 2 * base])
        return ('m%d' % n[0] + '.' * pad)[:max(pad, 3)]
    def chunk(c=None):
        gi, pi, ch = c or rng.choice(chans)
        cfg = w['groups'][gi][pi]['out' if ch == 'o' else 'err']
        base = (cfg[0] if isinstance(cfg, list) and cfg[0] else 6)
        sz = rng.choice([1, 1, 2, base - 1, base, base + 1, 2 * base + 1])
        return ('chunk', gi, pi, ch, pay.take(max(sz, 1)))
    ops = []
    for _ in range(rng.randrange(5, 22)):
        r = rng.random()
        if r < 0.30 or not chans and r < 0.55:
            ops.append(('log', msg()))
        elif r < 0.55:
            ops.append(chunk())
        elif r < 0.88:
            k = rng.choice(['clearlog', 'clearlog', 'sigusr2', 'sigusr2', 'optreopen'] + (['clearproc', 'clearproc', 'clearall'] if procs else []))
            if k == 'clearproc':
                gi, pi, _ = rng.choice(procs)
                ops.append(('clearproc', gi, pi))
            else:
                ops.append((k,))
            # the history goes on: what is written after the operation is what the property is about
            if rng.random() < 0.85:
                for _ in range(rng.randrange(1, 4)):
                    ops.append(('log', msg()))
                for c in chans:
                    if rng.random() < 0.7:
                        ops.append(chunk(c))
        else:
            lid = rng.choice(logs)
            i = 0 if rng.random() < 0.75 else rng.randrange(0, 3)
            ops.append(('extremove', lid, i) if rng.random() < 0.65 else ('extreplace', lid, i, bytes(rng.choice(b'XYZ') for _ in range(rng.choice([0, 3, 9])))))
            if rng.random() < 0.6:
                ops.append((rng.choice(['sigusr2', 'sigusr2', 'optreopen', 'clearlog', 'clearall' if procs else 'sigusr2']),))
    # the mood of the daemon is a dimension of every operation: the daemon starts to shut down / restart somewhere in
    # the first half of the history (and possibly gets a second request later); everything else goes on
    if rng.random() < 0.5:
        ops.insert(rng.randrange(0, len(ops) // 2 + 1), rng.choice(MOOD_OPS))
        if rng.random() < 0.3:
            ops.insert(rng.randrange(len(ops) // 2, len(ops) + 1), rng.choice(MOOD_OPS))
    return w, ops


def _world(nodaemon, silent, maxbytes, backups, level='INFO', extra='none', groups=()):
    return {'nodaemon': nodaemon, 'silent': silent, 'maxbytes': maxbytes, 'backups': backups, 'level': level, 'extra': extra,
            'groups': [list(g) for g in groups]}


_P = lambda out, err, kind='p': {'kind': kind, 'out': out, 'err': err}
_AFTER = [('log', 'AFTER-%d' % i) for i in range(5)]

WORLD_CORPUS = [
    # the activity logger in every make_logger configuration: messages, clearLog, five more messages
    # (seeded change: clearLog stops after the first handler that has reopen(); foreground mode has stdout first)
    (_world(nd, sl, mb, N), [('log', 'BEFORE-1'), ('log', 'BEFORE-2'), ('clearlog',)] + _AFTER)
    for nd in (False, True) for sl in (False, True) for mb, N in ((0, 0), (50 * 1024 * 1024, 10), (4096, 0), (100, 2), (100, 0))
] + [
    # the same for SIGUSR2 and ServerOptions.reopenlogs() after the log was moved away from outside (logrotate)
    (_world(nd, False, mb, N), [('log', 'BEFORE-1'), ('extremove', 'act', 0), ('log', 'lost'), (op,)] + _AFTER)
    for nd in (False, True) for mb, N in ((0, 0), (100, 2), (100, 0)) for op in ('sigusr2', 'optreopen')
] + [
    # one more handler without reopen() in front of / behind the others
    (_world(True, False, 100, 1, extra=ex), [('log', 'a'), ('clearlog',), ('log', 'b'), ('sigusr2',), ('log', 'c')]) for ex in ('front', 'back')
] + [
    # processes: two groups, three processes (one an event listener, one with stderr redirected, one without an stderr log)
    (_world(True, False, 150, 1, groups=[[_P([8, 1], [0, 0]), _P([4, 0], 'x', 'l')], [_P([0, 0], None)]]),
     [('chunk', 0, 0, 'o', b'abcdef'), ('chunk', 0, 0, 'e', b'E1'), ('chunk', 0, 1, 'o', b'xy'), ('chunk', 1, 0, 'o', b'second'),
      ('clearproc', 0, 0), ('chunk', 0, 0, 'o', b'gh'), ('chunk', 0, 0, 'e', b'E2'), ('chunk', 0, 1, 'o', b'z'),
      ('clearall',), ('chunk', 0, 0, 'o', b'ij'), ('chunk', 0, 1, 'o', b'w'), ('chunk', 1, 0, 'o', b'third'), ('chunk', 1, 0, 'e', b'nolog'),
      ('extremove', '0.0.o', 0), ('extremove', '1.0.o', 0), ('extremove', 'act', 0), ('sigusr2',),
      ('chunk', 0, 0, 'o', b'kl'), ('chunk', 0, 0, 'e', b'E3'), ('chunk', 0, 1, 'o', b'v'), ('chunk', 1, 0, 'o', b'fourth'), ('log', 'end')]),
    # child output copied into the activity log (log level debug) around a clearLog
    (_world(True, False, 200, 1, level='DEBG', groups=[[_P([16, 1], [0, 0])]]),
     [('chunk', 0, 0, 'o', b'one'), ('clearlog',), ('chunk', 0, 0, 'o', b'two'), ('chunk', 0, 0, 'e', b'three'), ('log', 'x'), ('sigusr2',),
      ('chunk', 0, 0, 'o', b'four'), ('log', 'y')]),
    # clearLog while the file is not there: the documented NO_FILE answer, nothing else happens
    (_world(False, False, 0, 0), [('log', 'a'), ('extremove', 'act', 0), ('clearlog',), ('log', 'b'), ('optreopen',), ('log', 'c')]),
]


def _conf(maxbytes, backups, nodaemon=False, cli=None, groups=(), **kw):
    w = _world(nodaemon, False, maxbytes, backups, groups=groups)
    w['via'] = 'conf'
    if cli: w['cli'] = cli
    w.update(kw)
    return w


_MSGS = [('log', 'message %02d ' % i + '.' * 100) for i in range(12)]          # 12 x ~140 bytes: past 1000, past 100, past 1
_TWO = [[_P([0, 2], [16, 0])], [_P([8, None], 'x', )], [_P([0, 0], [None, None], 'l')]]
_CHUNKS = [('chunk', 0, 0, 'o', bytes(range(40))), ('chunk', 0, 0, 'e', bytes(range(40, 60))), ('chunk', 1, 0, 'o', bytes(range(60, 90))),
           ('chunk', 2, 0, 'o', bytes(range(90, 130))), ('chunk', 2, 0, 'e', b'listener stderr'),
           ('chunk', 0, 0, 'e', bytes(range(130, 150))), ('chunk', 0, 0, 'o', bytes(range(150, 200))), ('chunk', 1, 0, 'o', bytes(range(200, 230)))]

WORLD_CORPUS += [
    # the bounds as written in a configuration file / on the command line, through the real realize() and make_logger():
    # explicit zeros (seeded change: "Process defaults" treats a configured 0 as unset), 1, huge, not written at all
    (_conf(mb, N, nodaemon=nd, cli=cli, **kw), _MSGS + [('clearlog',)] + _AFTER + [('sigusr2',)] + _AFTER[:2])
    for mb, N in ((0, 3), (0, 0), (1000, 0), (100, 0), (1, 1), (1, 0), (None, None), (None, 0), (0, None), (GB2, 1000), (1024, 2))
    for nd, cli, kw in ((False, None, {}), (True, None, {'unit': 'KB'}),
                        (False, {'maxbytes': 0}, {}), (False, {'backups': 0}, {'cliform': 'long'}),
                        (True, {'maxbytes': 0, 'backups': 0}, {}), (False, {'maxbytes': 200, 'backups': 1}, {'cliform': 'long'}))
] + [
    # children's logs configured in [program:x] / [eventlistener:x] sections: zeros, one unset value, both unset
    (_conf(150, 1, groups=_TWO), _CHUNKS + [('clearall',)] + _CHUNKS[:5] + [('sigusr2',)] + _CHUNKS[3:]),
    (_conf(0, 0, nodaemon=True, groups=[[_P([1, 0], [1, 1]), _P([0, None], 'x', )]]),
     [('chunk', 0, 0, 'o', b'ab'), ('chunk', 0, 0, 'e', b'cd'), ('chunk', 0, 1, 'o', b'e' * 30), ('chunk', 0, 0, 'o', b'f'), ('chunk', 0, 0, 'e', b'g'),
      ('clearproc', 0, 0), ('chunk', 0, 0, 'o', b'hi'), ('chunk', 0, 0, 'e', b'jk'), ('log', 'end')]),
    # a start-up warning (redirect_stderr with a file name) written by make_logger() itself into a small rotating log
    (_conf(100, 0, groups=[[dict(_P([4, 1], 'x'), xfile=True)]]), [('log', 'first'), ('chunk', 0, 0, 'o', b'abcde'), ('clearlog',), ('log', 'second')]),
] + [
    # SIGUSR2 (and the other operations) in every mood of the daemon: logrotate moves the logs away while supervisord is
    # shutting down or restarting (seeded change: SIGUSR2 only logged while mood is SHUTDOWN)
    (dict(_world(True, False, 150, 1, groups=[[_P([8, 1], [0, 0])], [_P([0, 0], None, 'p')]]), **via),
     [('log', 'BEFORE'), ('chunk', 0, 0, 'o', b'before'), ('chunk', 1, 0, 'o', b'before2')] + list(moodops) +
     [('log', 'stopping children'), ('chunk', 0, 0, 'o', b'during'),
      ('extremove', 'act', 0), ('extremove', '0.0.o', 0), ('extremove', '1.0.o', 0), ('extremove', '0.0.e', 0), ('sigusr2',)] + _AFTER[:3] +
     [('chunk', 0, 0, 'o', b'AFTER-out'), ('chunk', 0, 0, 'e', b'AFTER-err'), ('chunk', 1, 0, 'o', b'AFTER-2'),
      ('clearproc', 0, 0), ('chunk', 0, 0, 'o', b'more'), ('clearlog',), ('log', 'more'), ('clearall',), ('chunk', 1, 0, 'o', b'more2'),
      ('extremove', 'act', 0), ('optreopen',), ('log', 'end'), ('sigusr2',), ('log', 'end2'), ('chunk', 0, 0, 'o', b'end')])
    for via in ({}, {'via': 'conf'})
    for moodops in ([], [('signal', 'TERM')], [('signal', 'INT')], [('signal', 'QUIT')], [('signal', 'HUP')], [('rpc', 'shutdown')],
                    [('rpc', 'restart')], [('signal', 'HUP'), ('signal', 'TERM')], [('rpc', 'shutdown'), ('signal', 'HUP')])
]


class Payload:
    """running counter bytes, so that every file content identifies its place in the history"""
    def __init__(self):
        self.c = 0
    def take(self, n):
        b = bytes((self.c + i) % 251 for i in range(n))
        self.c += n
        return b


def gen_case(rng, mix):
    mb = rng.choice([1, 2, 3, 5, 8, 16, 40]) if rng.random() < 0.9 else 0
    N = rng.choice([0, 1, 2, 3, 5])
    rotating = mb > 0
    cfg = {'rotating': rotating, 'maxbytes': mb, 'backups': N}
    if mb == 0 and rng.random() < 0.5:
        cfg.update(rotating=True, direct=True)
    text = mix != 'ext' and mb >= 8 and rng.random() < 0.15
    if text:
        cfg['text'] = True
    l2 = not text and not cfg.get('direct') and rng.random() < 0.3
    if l2:
        cfg['l2'] = rng.choice(['stdout', 'stderr'])      # the handlers behind a child's output dispatcher
    pay = Payload()
    ops = []
    base = mb or 6
    for _ in range(rng.randrange(4, 36)):
        r = rng.random()
        if mix == 'w' or r < 0.62 or (mix == 'wr' and r >= 0.8) or (mix == 'wrc' and r >= 0.86):
            if text:
                m = ''.join(rng.choice('abcxyz ') for _ in range(rng.choice([0, 1, 2, base - 7, base - 6, base - 5, base, 2 * base]) if base > 7 else 1))
                ops.append(('write', ('INFO ' + m + '\n').encode()))
            else:
                sz = rng.choice([0, 1, 1, 2, base - 1, base, base + 1, 2 * base, 2 * base + 1, rng.randrange(0, base + 3)])
                ops.append(('write', pay.take(max(sz, 1 if l2 else 0))))   # an empty read is EOF for a dispatcher
        elif r < 0.72:
            ops.append(('reopen',))
        elif r < 0.8:
            ops.append(('clear',) if mix in ('wrc', 'ext') else ('reopen',))
        elif mix == 'ext':
            i = rng.randrange(0, N + 2)
            if rng.random() < 0.6:
                ops.append(('extremove', i))
            else:
                ops.append(('extreplace', i, bytes(rng.choice(b'XYZ') for _ in range(rng.choice([0, 1, base - 1, base, base + 2])))))
        else:
            ops.append(('reopen',))
    return cfg, ops


BEGIN, END = b'<!--XSUPERVISOR:BEGIN-->', b'<!--XSUPERVISOR:END-->'


class PlainPayload(Payload):
    """counter bytes without '<' (no accidental tag prefixes), for streams that go through capture-tag matching"""
    def take(self, n):
        b = bytes((self.c + i) % 190 + 61 for i in range(n))
        self.c += n
        return b


def gen_capture_case(rng):
    """a child's log behind a dispatcher with capture enabled: clear / reopen / external interference happen both in
    ordinary mode and inside a capture section"""
    mb = rng.choice([30, 64, 100]) if rng.random() < 0.9 else 0
    N = rng.choice([0, 1, 2])
    cfg = {'rotating': mb > 0, 'maxbytes': mb, 'backups': N, 'l2': rng.choice(['stdout', 'stderr']), 'capture': rng.choice([10, 50])}
    pay = PlainPayload()
    ops, mode = [], False
    for _ in range(rng.randrange(6, 26)):
        r = rng.random()
        if r < 0.5:
            if not mode:
                d = pay.take(rng.choice([1, 5, 24, 25, 26, 40, 70]))
                if rng.random() < 0.45:
                    d += BEGIN + b'C' * rng.randrange(1, 12); mode = True
            else:
                d = b'C' * rng.randrange(1, 30)
                if rng.random() < 0.55:
                    d += END + pay.take(rng.choice([1, 5, 26, 40])); mode = False
            ops.append(('chunk', d))
        elif r < 0.64:
            ops.append(('reopen',))
        elif r < 0.74:
            ops.append(('clear',))
        else:
            i = 0 if rng.random() < 0.7 else rng.randrange(0, N + 2)
            ops.append(('extremove', i) if rng.random() < 0.6 else ('extreplace', i, b'X' * rng.choice([0, 3, mb or 7])))
            if rng.random() < 0.75:
                ops.append(('reopen',) if rng.random() < 0.7 else ('clear',))
    return cfg, ops


def C(s):
    return ('chunk', s if isinstance(s, bytes) else s.encode())


def W(s):
    return ('write', s if isinstance(s, bytes) else s.encode())


CORPUS = [
    # test_loggers.py's sequence: maxBytes=10, backupCount=2
    ({'rotating': True, 'maxbytes': 10, 'backups': 2}, [W('a' * 4), W('a' * 4), W('a' * 4), W('a' * 4), W('a' * 4), W('a' * 4), W('a' * 4)]),
    # writes of exactly maxbytes, larger than maxbytes, empty
    ({'rotating': True, 'maxbytes': 5, 'backups': 2}, [W('01234'), W(''), W('0123456789ab'), W('x'), W('yyyy'), W('z')]),
    # backups = 0: the log is emptied when it reaches maxbytes
    ({'rotating': True, 'maxbytes': 4, 'backups': 0}, [W('abc'), W('d'), W('efghi'), W('j')]),
    # maxbytes = 0 through handle_file (plain handler) and through RotatingFileHandler directly
    ({'rotating': False, 'maxbytes': 0, 'backups': 3}, [W('abc'), W('d' * 50), ('reopen',), W('e')]),
    ({'rotating': True, 'maxbytes': 0, 'backups': 3, 'direct': True}, [W('abc'), W('d' * 50), ('reopen',), W('e'), ('clear',), W('f')]),
    # clearProcessLogs / SIGUSR2 in the middle of a rotation history
    ({'rotating': True, 'maxbytes': 5, 'backups': 2}, [W('abcdef'), W('gh'), ('clear',), W('ij'), ('reopen',), W('klmnop'), W('q')]),
    # clearLog: options.remove(logfile) behind the handler, an info() line, then reopen()
    ({'rotating': True, 'maxbytes': 8, 'backups': 1}, [W('abc'), ('extremove', 0), W('reopening'), ('reopen',), W('def')]),
    # a cleanup script removes the active log / a backup in the middle; logrotate replaces the log
    ({'rotating': True, 'maxbytes': 5, 'backups': 3}, [W('abcde'), W('fghij'), W('klmno'), ('extremove', 2), W('pqrst'), W('uvwxy'), ('extremove', 0), W('12'), W('34567'), W('8')]),
    ({'rotating': True, 'maxbytes': 5, 'backups': 2}, [W('abc'), ('extreplace', 0, b'XX'), W('de'), W('f'), ('reopen',), W('gh'), W('i')]),
    ({'rotating': True, 'maxbytes': 3, 'backups': 1}, [W('abc'), ('extreplace', 2, b'ZZZZ'), W('def'), ('extreplace', 1, b''), W('ghi')]),
    # through a child's output dispatcher: chunks, clearProcessLogs (removelogs), SIGUSR2 (reopenlogs)
    ({'rotating': True, 'maxbytes': 6, 'backups': 2, 'l2': 'stdout'}, [W('abcd'), W('efgh'), ('clear',), W('ijklmnop'), ('reopen',), W('q'), ('extremove', 0), W('rs'), ('reopen',), W('tuvwxyz')]),
    ({'rotating': True, 'maxbytes': 4, 'backups': 1, 'l2': 'stderr'}, [W('abc'), W('defgh'), W('i'), ('reopen',), W('jkl'), ('clear',), W('m')]),
    ({'rotating': False, 'maxbytes': 0, 'backups': 2, 'l2': 'stdout'}, [W('abc'), W('d' * 30), ('reopen',), W('e'), ('clear',), W('f')]),
    # capture enabled; SIGUSR2 / clearProcessLogs arrive *inside* a capture section after the log was removed or
    # replaced from outside: the normal log must be reopened (seeded bug: reopenlogs() walking only childlog.handlers)
    ({'rotating': True, 'maxbytes': 40, 'backups': 1, 'l2': 'stdout', 'capture': 50},
     [C(b'a' * 30), C(b'b' * 5 + BEGIN + b'CCC'), ('extremove', 0), ('reopen',), C(b'CC' + END + b'd' * 35), C(b'e' * 30)]),
    ({'rotating': True, 'maxbytes': 40, 'backups': 1, 'l2': 'stderr', 'capture': 50},
     [C(b'a' * 30), C(b'b' * 5 + BEGIN + b'CCC'), ('extreplace', 0, b'XXX'), ('clear',), C(b'CC' + END + b'd' * 35), C(b'e' * 30)]),
    ({'rotating': True, 'maxbytes': 64, 'backups': 2, 'l2': 'stdout', 'capture': 10},
     [C(b'a' * 70), ('reopen',), C(b'b' * 26 + BEGIN + b'C'), ('reopen',), ('clear',), C(b'C' + END + b'c' * 30), ('extremove', 0), ('reopen',), C(b'd' * 40)]),
    ({'rotating': False, 'maxbytes': 0, 'backups': 0, 'l2': 'stdout', 'capture': 10},
     [C(b'a' * 30 + BEGIN + b'C'), ('extremove', 0), ('reopen',), C(b'C' + END + b'b' * 30), C(b'c' * 30)]),
    # activity-log style formatting (text message, encoded by the handler)
    ({'rotating': True, 'maxbytes': 16, 'backups': 1, 'text': True}, [W('INFO hello\n'), W('INFO world\n'), W('INFO \n')]),
]


def run(ctx):
    rng = ctx.rng
    R = Runner(ctx)
    for cfg, ops in CORPUS:
        R.one(dict(cfg), list(ops))
        ctx.count('corpus')
    # small-scope exhaustive: every sequence of up to 4 writes with sizes around maxbytes, small configurations
    import itertools
    depth = 3 if ctx.tier == 'quick' else 4
    for mb in (1, 3):
        for N in (0, 1, 2):
            for sizes in itertools.product([0, 1, mb - 1, mb, mb + 1, 2 * mb + 1], repeat=depth):
                pay = Payload()
                R.one({'rotating': True, 'maxbytes': mb, 'backups': N}, [('write', pay.take(s)) for s in sizes])
                ctx.count('exhaustive')
    for mix, share in (('w', 2), ('wr', 2), ('wrc', 3), ('ext', 3)):
        for _ in range(ctx.n(120, 2500) * share // 2):
            cfg, ops = gen_case(rng, mix)
            R.one(cfg, ops)
            ctx.count('mix:' + mix)
    for _ in range(ctx.n(150, 2500)):
        cfg, ops = gen_capture_case(rng)
        R.one(cfg, ops)
        ctx.count('mix:capture')
    for k in (0, 5, 7, len(R.cases) - 1):
        ctx.sample({'case': R.cases[k][0], 'ops': R.cases[k][1][:6], 'impl': R.impls[k][:6]})
    ctx.correspond('rotate', R.cases, R.impls)
    # the clear / reopen fan-out through the real make_logger / clearLog / clearProcessLogs / clearAllProcessLogs / SIGUSR2
    WR = WorldRunner(ctx)
    for w, ops in WORLD_CORPUS:
        WR.one(w, list(ops))
        ctx.count('world-corpus')
    for _ in range(ctx.n(160, 2500)):
        w, ops = gen_world(rng)
        WR.one(w, ops)
        ctx.count('mix:world')
    ctx.sample({'case': WR.cases[1][0], 'ops': WR.cases[1][1][:6], 'impl': WR.impls[1][:6]})
    ctx.correspond('logfan', WR.cases, WR.impls)


def replay(ctx, data):
    inp = data['input']
    if 'world' in inp:
        from props import c19_world as W
        WorldRunner(ctx).one(inp['world'], [W.op_unjson(l) for l in inp['ops']])
        return
    Runner(ctx).one(inp['cfg'], [unlist_op(l) for l in inp['ops']])


# ---- MANIFEST metadata -----------------------------------------------------------------------
TECHNIQUE = ("Lean 4 invariants by induction over operation sequences on a model of FileHandler/RotatingFileHandler over an "
             "abstract file system whose comparisons, loop bounds, name-index arithmetic, errno tests and open modes are "
             "regenerated from loggers.py; the clear / reopen fan-out (handler lists, dispatchers, processes, groups) as an interpreter of "
             "the loop bodies regenerated from rpcinterface.py / options.py / process.py / supervisord.py / dispatchers.py, with theorems "
             "for all handler lists and all worlds that rest on the extracted fact that the loops have no early exit -- in every mood of the "
             "daemon (handle_signal partially evaluated per mood); the path from the configured maxbytes / backups to the handler parameters as a "
             "composition of regenerated steps with theorems for every integer value; differential "
             "correspondence against the real handlers in a scratch directory and against real loggers / processes / RPC methods")
LEVEL_TEXT = ("files_bounded, suffix_no_gap, segments_ordered (all five operation kinds), backups_full, live_short, backups0_truncates, maxbytes0_never and "
              "clear_reopen_safe are proved for every operation sequence, every maxbytes/backups and every payload; "
              "clearLog_every_file_handler_fresh / write_after_clearLog_at_path (every handler list, every configuration), "
              "clearLog_every_configuration (every make_logger configuration after any message history), "
              "reopenlogs_every_file_handler_bound, sigusr2_reaches_every_log and clearProcessLogs_reaches_every_log (every world) "
              "are proved from the regenerated loop bodies, SIGUSR2 for every mood of the daemon (sigusr2_same_in_every_mood); "
              "configured_value_in_effect, activity_log_has_configured_bounds, child_log_has_configured_bounds, "
              "configured_maxbytes0_never_rotates, configured_backups0_no_backup (every integer maxbytes / backups given in the file or on "
              "the command line reaches RotatingFileHandler unchanged; 0 is not replaced by a default); the model is "
              "run against the real handlers on a regression corpus, all short write sequences around maxbytes and random "
              "interleavings with clears, reopens and external removals/replacements")
LEVEL_NOTE = "trusts Lean's kernel, extract.py, the abstract file system (unlink/rename/open semantics); see DESIGN.md C19"
DESIGN_REF = "DESIGN.md section 6, C19"
