import SupervisorModel.Basic.Bytes
import SupervisorModel.Generated.Envelope
import SupervisorModel.Generated.EventNames
/-
  Model of EventListenerPool._eventEnvelope (supervisor/process.py), of events.getEventNameByType
  and of the payload() formatters of supervisor/events.py.

  Python `str` values are lists of code points (`Text`); what the listener receives is
  `utf8 (envelope …)` (`process.write(as_bytes(envelope))`).  The header template, the binding of
  every field of the dict `D`, the payload templates and the registry are the regenerated tables
  of `Sv.Gen.Envelope` / `Sv.Gen.EventNames`; this file only interprets them.
-/
namespace Sv.Envelope
open Sv.Gen.Envelope Sv.Gen.EventNames

abbrev Text := List Nat

def ofString (s : String) : Text := s.toList.map Char.toNat

/-- UTF-8 encoding of one code point (scalar values; surrogates are outside the harness' inputs) -/
def utf8Cp (c : Nat) : Bytes :=
  if c < 0x80 then [UInt8.ofNat c]
  else if c < 0x800 then [UInt8.ofNat (0xC0 + c / 64), UInt8.ofNat (0x80 + c % 64)]
  else if c < 0x10000 then
    [UInt8.ofNat (0xE0 + c / 4096), UInt8.ofNat (0x80 + c / 64 % 64), UInt8.ofNat (0x80 + c % 64)]
  else
    [UInt8.ofNat (0xF0 + c / 262144), UInt8.ofNat (0x80 + c / 4096 % 64),
     UInt8.ofNat (0x80 + c / 64 % 64), UInt8.ofNat (0x80 + c % 64)]

/-- `str.encode('utf-8')` -/
def utf8 (t : Text) : Bytes := t.flatMap utf8Cp

/-- decimal rendering of a natural number (`'%s' % n`) -/
def decAux : Nat → Nat → Text
  | 0, _ => []
  | f + 1, n => if n < 10 then [48 + n] else decAux f (n / 10) ++ [48 + n % 10]
def dec (n : Nat) : Text := decAux (n + 1) n

def decInt (i : Int) : Text := if i < 0 then 45 :: dec i.natAbs else dec i.natAbs

/-! ### getEventNameByType -/
/-- `for name, typ in EventTypes.__dict__.items(): if typ is requested: return name` -/
def getEventNameByType (cls : Nat) : Option String :=
  (registry.find? fun e => e.2 == cls).map (·.1)

/-! ### _eventEnvelope -/
structure Inp where
  identifier : Text
  serial : Nat
  poolName : Text
  poolSerial : Nat
  eventName : Text
  payload : Text

def srcValue (i : Inp) : Src → Text
  | .lit s => ofString s
  | .identifier => i.identifier
  | .serial => dec i.serial
  | .poolName => i.poolName
  | .poolSerial => dec i.poolSerial
  | .eventName => i.eventName
  | .payloadLen => dec i.payload.length       -- len(payload) of a str: characters
  | .payload => i.payload

/-- `D[field]` (a missing key would be a KeyError: `none`) -/
def fieldValue (i : Inp) (f : String) : Option Text := (fields.lookup f).map (srcValue i)

def pairsOf (i : Inp) : List (String × String) → Option (List (Text × Text))
  | [] => some []
  | (k, f) :: r =>
    match fieldValue i f, pairsOf i r with
    | some v, some ps => some ((ofString k, v) :: ps)
    | _, _ => none

def headerPairs (i : Inp) : Option (List (Text × Text)) := pairsOf i headerTokens

def tok (p : Text × Text) : Text := p.1 ++ 58 :: p.2

/-- `key:value` tokens separated by one space -/
def renderPairs : List (Text × Text) → Text
  | [] => []
  | [p] => tok p
  | p :: q :: r => tok p ++ 32 :: renderPairs (q :: r)

def envelope (i : Inp) : Option Text :=
  match headerPairs i, fieldValue i bodyField with
  | some ps, some body => some (renderPairs ps ++ 10 :: body)
  | _, _ => none

/-! ### the listener's side: a reference parser (split on space, then at the first colon) -/
def splitOn (sep : Nat) : Text → List Text
  | [] => [[]]
  | c :: r =>
    if c = sep then [] :: splitOn sep r
    else
      match splitOn sep r with
      | h :: t => (c :: h) :: t
      | [] => [[c]]

def splitFirst (sep : Nat) : Text → Option (Text × Text)
  | [] => none
  | c :: r =>
    if c = sep then some ([], r)
    else
      match splitFirst sep r with
      | some (a, b) => some (c :: a, b)
      | none => none

def parsePairs : List Text → Option (List (Text × Text))
  | [] => some []
  | t :: r =>
    match splitFirst 58 t, parsePairs r with
    | some p, some ps => some (p :: ps)
    | _, _ => none

/-- header line up to the first newline, then `key:value` tokens -/
def parseEnvelope (t : Text) : Option (List (Text × Text) × Text) :=
  match splitFirst 10 t with
  | some (line, body) =>
    match parsePairs (splitOn 32 line) with
    | some ps => some (ps, body)
    | none => none
  | none => none

/-! ### payload() formatters: `template % args` with only `%s` conversions -/
def fmtS : Text → List Text → Option Text
  | [], [] => some []
  | [], _ :: _ => none                      -- TypeError: not all arguments converted
  | 37 :: 115 :: r, a :: as => (fmtS r as).map (a ++ ·)
  | 37 :: 115 :: _, [] => none              -- TypeError: not enough arguments
  | c :: r, as => (fmtS r as).map (c :: ·)

/-- `'name:value'` items joined by one space (ProcessStateEvent.payload) -/
def joinItems : List (Text × Text) → Text
  | [] => []
  | [p] => tok p
  | p :: q :: r => tok p ++ 32 :: joinItems (q :: r)

/-- the extra values of a ProcessStateEvent subclass, looked up along its base classes
    (nearest first) in the generated `extraValues` table -/
def extraOf : List String → Option (List (String × String))
  | [] => none
  | c :: r => match extraValues.lookup c with
    | some v => some v
    | none => extraOf r

structure PSInp where
  processname : Text
  groupname : Text
  fromState : Text
  tries : Int
  expected : Bool
  pid : Int

def psValue (i : PSInp) (src : String) : Option Text :=
  if src = "self.process.config.name" then some i.processname
  else if src = "groupname" then some i.groupname
  else if src = "getProcessStateDescription(self.from_state)" then some i.fromState
  else if src = "int(self.process.backoff)" then some (decInt i.tries)
  else if src = "int(self.expected)" then some (if i.expected then [49] else [48])
  else if src = "self.process.pid" then some (decInt i.pid)
  else none

def psItems (i : PSInp) : List (String × String) → Option (List (Text × Text))
  | [] => some []
  | (k, src) :: r =>
    match psValue i src, psItems i r with
    | some v, some ps => some ((ofString k, v) :: ps)
    | _, _ => none

/-- ProcessStateEvent.payload for a class given by its chain of class names (self first) -/
def processStatePayload (mro : List String) (i : PSInp) : Option Text :=
  match extraOf mro with
  | none => none
  | some extra => (psItems i (processStateLead ++ extra)).map joinItems

/-! ### sendRemoteCommEvent (rpcinterface.py) → RemoteCommunicationEvent → payload -/

/-- positional call: parameter name ↦ actual value -/
def bindParams : List String → List Text → List (String × Text)
  | p :: ps, v :: vs => (p, v) :: bindParams ps vs
  | _, _ => []

/-- payload of `RemoteCommunicationEvent(a₀, a₁)` where the actual arguments are named by the
    caller's variables (`type` ↦ t, `data` ↦ d): constructor parameters → `self.x` fields → the
    arguments of the payload template, all from the generated tables -/
def remoteCommPayloadOfCall (t d : Text) (actualNames : List String) : Option Text :=
  let actual : String → Option Text := fun nm =>
    if nm = "type" then some t else if nm = "data" then some d else none
  match actualNames.mapM actual with
  | none => none
  | some vals =>
    if vals.length ≠ remoteCommCtorParams.length then none      -- TypeError
    else
      let env := bindParams remoteCommCtorParams vals
      let field : String → Option Text := fun a =>      -- "self.x"
        (remoteCommCtorBinds.lookup (a.drop 5).toString).bind fun prm => env.lookup prm
      match remoteCommArgs.mapM field with
      | none => none
      | some args => fmtS (ofString remoteCommTemplate) args

/-- the payloads of the notifications `sendRemoteCommEvent(type, data)` raises, in order
    (`none` = an exception) -/
def sendRemoteComm (t d : Text) : Option (List Text) :=
  sendRemoteCommCalls.mapM (remoteCommPayloadOfCall t d)

/-! ### line protocol: texts are code points in decimal separated by '.', "-" for the empty text -/
def textOfArg (s : String) : Option Text :=
  if s = "-" then some [] else (s.splitOn ".").mapM String.toNat?

def templateOf (which : String) : Option String :=
  if which = "processLog" then some processLogTemplate
  else if which = "processComm" then some processCommTemplate
  else if which = "remoteComm" then some remoteCommTemplate
  else if which = "processGroup" then some processGroupTemplate
  else if which = "tick" then some tickTemplate
  else none

def showOpt (t : Option Text) : String :=
  match t with
  | some x => "ok " ++ hexOfBytes (utf8 x)
  | none => "none"

def runOp (l : String) : String :=
  match words l with
  | "env" :: args =>
    match (kvGet args "id").bind textOfArg, kvNat args "serial", (kvGet args "pool").bind textOfArg,
          kvNat args "poolserial", kvNat args "cls", (kvGet args "payload").bind textOfArg with
    | some id, some ser, some pool, some ps, some cls, some pl =>
      match getEventNameByType cls with
      | some nm => showOpt (envelope ⟨id, ser, pool, ps, ofString nm, pl⟩)
      | none => "none"
    | _, _, _, _, _, _ => "bad-op"
  | ["name", c] =>
    match c.toNat? with
    | some cls => (match getEventNameByType cls with | some nm => "ok " ++ nm | none => "none")
    | none => "bad-op"
  | "ps" :: args =>
    match kvGet args "mro", (kvGet args "name").bind textOfArg, (kvGet args "group").bind textOfArg,
          (kvGet args "from").bind textOfArg, kvInt args "tries", kvBool args "expected", kvInt args "pid" with
    | some mro, some nm, some gr, some fr, some tr, some ex, some pid =>
      showOpt (processStatePayload (mro.splitOn ",") ⟨nm, gr, fr, tr, ex, pid⟩)
    | _, _, _, _, _, _, _ => "bad-op"
  | ["remote", t, d] =>
    match textOfArg t, textOfArg d with
    | some t, some d =>
      match sendRemoteComm t d with
      | some ps => "ok " ++ " ".intercalate (ps.map fun x => hexOfBytes (utf8 x))
      | none => "none"
    | _, _ => "bad-op"
  | ["supstate"] => "ok " ++ hexOfBytes (utf8 (ofString supervisorStatePayload))
  | "fmt" :: which :: args =>
    match templateOf which, args.mapM textOfArg with
    | some t, some as => showOpt (fmtS (ofString t) as)
    | _, _ => "bad-op"
  | _ => "bad-op"

def runCase (_cfg : List String) (ops : List String) : List String := ops.map runOp

end Sv.Envelope
