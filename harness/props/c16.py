"""
C16 -- log retrieval returns exactly the requested bytes.

Correspondence (real code vs compiled Lean model, same cases):
  logread   options.readFile / options.tailFile on real files            vs Model/LogRead.lean
  rpclog    SupervisorNamespaceRPCInterface.readLog / readProcess*Log /
            tailProcess*Log over DummySupervisor with real log files      vs Model/RpcLog.lean
            (and, monitor only, the same methods as HTTP bytes through the real XML-RPC handler on a real channel: run_rpc_wire)
  tailf     http.tail_f_producer on real files that grow / rotate / are
            cleared / truncated / unlinked between more() calls           vs Model/TailF.lean
  chunkenc  http.deferring_chunked_producer over a scripted producer      vs Model/Chunked.lean (encoder)
  chunkdec  http_client.HTTPHandler fed the encoded stream in arbitrary
            fragmentations (recv stub and real socketpair)                vs Model/Chunked.lean (decoder)
  outbuf    a real deferring_http_channel (refill_buffer + async_chat.initiate_send) between scripted producers and a
            socket that accepts a scheduled number of bytes per send                 vs Model/OutBuf.lean
  chanlog   (monitor only) /logtail and /mainlogtail requested as HTTP bytes through that real channel, log bursts around
            the 4096-byte output buffer and the 64 KiB globbing size, data arriving again on the very next loop iteration,
            partial sends; the response bytes de-chunked strictly by an independent decoder and by the bundled client
Monitors: the property statement evaluated on the implementation's answers (Python slices of the
file content, an independent chunked decoder, the expected /logtail stream), plus the whole real
chain logtail_handler -> deferring producers -> HTTPHandler.
"""
import os, socket
from framework import Infra

ID = 'C16'
LEAN_PROPS = 'SupervisorModel.Props.C16'
DRIVER = 'drv_c16'
GENERATED = ['LogRead', 'TailF', 'Chunked', 'Rpc']
TRUSTED = [
    "modelled, not verified: Python file objects (seek/tell/read on a regular file = drop/take on a byte list), os.stat/fstat inode and size",
    "offsets/lengths beyond 64 bits (f.seek OverflowError) are outside the model; XML-RPC carries 32-bit integers, int() of an XML-RPC int is the identity",
    "bytes.decode('utf-8','replace') is a parameter of the theorems (any total function); the driver's utf8Replace reproduces CPython's policy and is compared with it on every run",
    "'%x' % n, bytes.find, bytes.split()[0] and int(tok,16) on lower-case hex digit strings are modelled (hexDigits, splitCRLF, firstToken, parseHex) and exercised, not verified",
    "asyncore/asynchat socket plumbing around handle_read (recv sizes, handle_error/close), HTTP status line and header parsing of HTTPHandler: exercised by the socketpair runs, not modelled",
    "the channel's output side is modelled from refill_buffer/initiate_send on (Model/OutBuf.lean: the producers are an arbitrary answer list, send() accepts an arbitrary prefix); select()/writable() timing (the `delay` of deferred producers) only decides WHEN initiate_send runs and is exercised by the chanlog runs with a virtual clock, not modelled",
    "the deferring composite/globbing/hooked producers and deferring_http_request.done(): exercised by the chain monitor, not modelled",
]
ASSUMPTIONS = [
    "the log file is not modified during one readFile/tailFile/more() call",
    "a log that is cleared and grows past the producer's old offset between two polls, and inode reuse, are indistinguishable from an append for tail_f_producer (DESIGN.md C16: outside the model)",
    "the /logtail stream is observed at the producer chain (what is handed to the channel), TCP segmentation is simulated by arbitrary fragmentation of that byte stream",
]
RULE = ("logread/rpclog: (content, offset, length) triples -- exhaustive small grid [-6,12]^2 over sizes 0..8 plus random 32-bit "
        "and edge values, content classes ascii / multi-byte UTF-8 / binary, all four moods, missing/unset log; "
        "tailf: random scripts of append/rotate/clear/truncate/unlink/idle with a poll after each; "
        "chunked: chunk lists with sizes around hex-digit boundaries and CR/LF-laden data, every fragmentation of short "
        "streams exhaustively plus random cuts, byte-at-a-time and whole; outbuf: buffer size 4 with every list of 2-3 producer answers over "
        "{NOT_DONE_YET, exhausted, 1, 3, 4, 5, 9 bytes} under constant send quotas {1, 3, 4, all}, random answer lists and quotas {0, 1, 2, size-1, size, "
        "size+1, all} for sizes 4/8/64, and the real size 4096 with pieces {1 .. 4095, 4096, 4097 .. 12000, 65535, 65536, 65537, 70000} and quotas "
        "{1, 100, 4095, 4096, all}; chanlog: scripts of appends (sizes around 4096 minus the chunk framing, 6000 .. 20000, 65536, 70000) each followed "
        "by 1-3 loop iterations with quota {1, 100, 4095, 4096, all} and clock steps {0.01, 0.2} s, both handlers; log answers of 5000 .. 200000 bytes "
        "over the wire; non-trivial = non-empty file/stream; "
        "distinct = distinct (kind, content-hash, arguments or cut positions)")

MARKER = b'==> File truncated <==\n'


def hexs(b):
    return b.hex() if b else '-'


# =================================================================================================
# readFile / tailFile (unchanged from the first version)
# =================================================================================================
def spec_read(f, off, ln):
    """the property statement for readLog"""
    if off < 0:
        return 'err BAD_ARGUMENTS' if ln != 0 else 'ok ' + hexs(f[max(0, len(f) + off):])
    if ln < 0:
        return 'err BAD_ARGUMENTS'
    return 'ok ' + hexs(f[off:] if ln == 0 else f[off:off + ln])


def spec_tail_window(f, off, ln):
    sz = len(f)
    n = max(0, min(ln, sz))
    data = b'' if off >= sz else f[sz - n:]
    return data, sz, (1 if sz > off + ln else 0)


def spec_tail(f, off, ln):
    return 'ok %s %d %d' % ((lambda d, s, o: (hexs(d), s, o))(*spec_tail_window(f, off, ln)))


def impl_lines(path, content, ops):
    from supervisor import options
    out = []
    for op, off, ln in ops:
        if op == 'read':
            try:
                d = options.readFile(path, off, ln)
                out.append('ok ' + hexs(d))
            except ValueError as e:
                out.append('err ' + str(e.args[0]))
        else:
            try:
                d, o, ov = options.tailFile(path, off, ln)
                if isinstance(d, str):
                    d = d.encode('utf-8')
                out.append('ok %s %d %d' % (hexs(d), o, 1 if ov else 0))
            except UnicodeDecodeError:
                out.append('exc UnicodeDecodeError')
    return out


def gen_content(rng, n):
    kind = rng.randrange(4)
    if kind == 0:
        return bytes(rng.choice(b'abcxyz\n') for _ in range(n))
    if kind == 1:
        return ('é€x\U0001f600' * n).encode()[:n] if n else b''
    if kind == 2:
        return bytes(rng.choice(b'ab\x1b\x00\r\n\xff\xc3\xa9\xe2\x82') for _ in range(n))
    return bytes(rng.randrange(256) for _ in range(n))


def rand_int(rng, sz):
    r = rng.random()
    if r < 0.5: return rng.randrange(-3, sz + 4)
    if r < 0.7: return rng.choice([0, 1, -1, 2**31 - 1, -2**31, 2**31 - 2])
    return rng.randrange(-2**31, 2**31)


def run_logread(ctx):
    rng = ctx.rng
    cases, impls = [], []
    path = os.path.join(ctx.scratch, 'log')
    def one(content, ops):
        with open(path, 'wb') as f:
            f.write(content)
        il = impl_lines(path, content, ops)
        for (op, off, ln), line in zip(ops, il):
            want = (spec_read if op == 'read' else spec_tail)(content, off, ln)
            ctx.count('op:' + op); ctx.count('answer:' + line.split()[0] + (':' + line.split()[1] if line.startswith('err') else ''))
            ctx.case_done(('logread', content, op, off, ln), nontrivial=len(content) > 0)
            if line != want:
                kind = 'decode-error' if line.startswith('exc') else 'wrong-window'
                ctx.violation(kind + ':' + op, 'required %s, observed %s' % (want, line),
                              {'part': 'logread', 'content_hex': hexs(content), 'op': op, 'offset': off, 'length': ln})
        cases.append(('case logread file=' + hexs(content), ['%s %d %d' % o for o in ops]))
        impls.append(il)
    top = 6 if ctx.tier == 'quick' else 9
    for sz in range(0, top):
        content = bytes(97 + i for i in range(sz))
        ops = [(op, off, ln) for op in ('read', 'tail') for off in range(-6, 13) for ln in range(-6, 13)]
        one(content, ops)
    for _ in range(ctx.n(150, 3000)):
        sz = rng.choice([0, 1, 2, 3, 5, 8, 13, 64, 200])
        content = gen_content(rng, sz)
        ascii_only = all(c < 128 for c in content)
        ops = []
        for _ in range(8):
            op = rng.choice(['read', 'tail']) if ascii_only else 'read'
            ops.append((op, rand_int(rng, sz), rand_int(rng, sz)))
        one(content, ops)
    ctx.sample({'case': cases[3][0], 'ops': cases[3][1][:5], 'impl': impls[3][:5]})
    ctx.correspond('logread', cases, impls)


# =================================================================================================
# the XML-RPC layer: readLog, readProcessStdoutLog/StderrLog, tailProcessStdoutLog/StderrLog
# =================================================================================================
MOODS = [-1, 0, 1, 2]          # SHUTDOWN, RESTARTING, RUNNING, FATAL


def make_interface(mood, main_log, proc_log, channel='stdout'):
    from supervisor.tests.base import DummyOptions, DummyPConfig, PopulatedDummySupervisor
    from supervisor.rpcinterface import SupervisorNamespaceRPCInterface
    opts = DummyOptions()
    kw = {channel + '_logfile': proc_log}
    sup = PopulatedDummySupervisor(opts, 'grp', DummyPConfig(opts, 'proc', '/bin/true', **kw))
    opts.logfile = main_log
    opts.mood = mood
    return SupervisorNamespaceRPCInterface(sup)


def xml_roundtrip_monitor(ctx, value, inp):
    """the answer as the bundled client (xmlrpclib behind SupervisorTransport) receives it"""
    from supervisor import xmlrpc
    from supervisor.compat import xmlrpclib
    text = value if isinstance(value, str) else value[0]
    try:
        back = xmlrpclib.loads(xmlrpc.xmlrpc_marshal(value))[0][0]
    except Exception as e:
        bad = sorted(set(c for c in text if ord(c) < 32 and c not in '\t\n\r'))
        kind = 'xmlrpc-answer-not-wellformed:control-char' if bad else 'xmlrpc-answer-unparseable'
        ctx.count('xml:' + kind)
        ctx.violation(kind, 'the XML-RPC response for this log window cannot be parsed by the client (%s); characters %r'
                      % (type(e).__name__, bad), inp)
        return
    got = back if isinstance(value, str) else back[0]
    if got != text:
        kind = 'xmlrpc-answer-altered:cr-normalised' if got == text.replace('\r\n', '\n').replace('\r', '\n') else 'xmlrpc-answer-altered'
        ctx.count('xml:' + kind)
        ctx.violation(kind, 'the client receives %r for the window %r' % (got[:40], text[:40]), inp)
    else:
        ctx.count('xml:roundtrip-ok')


def rpc_one(ctx, mood, logkind, content, ops, path, cases, impls, force_xml=False):
    """one case = one mood + one log file; ops = [(method, found, off, len)]"""
    from supervisor.xmlrpc import RPCError, Faults
    if logkind == 'present':
        with open(path, 'wb') as f:
            f.write(content)
        logarg = path
    elif logkind == 'missing':
        logarg = path + '.does-not-exist'
    else:
        logarg = None
    il, ol = [], []
    for meth, found, off, ln in ops:
        channel = 'stderr' if 'Stderr' in meth else 'stdout'
        rpc = make_interface(mood, logarg, logarg, channel)
        name = 'grp:proc' if found else 'grp:nosuch'
        inp = {'part': 'rpclog', 'mood': mood, 'log': logkind, 'content_hex': hexs(content), 'method': meth,
               'name': name, 'offset': off, 'length': ln}
        try:
            if meth in ('readLog', 'readMainLog'):
                v = getattr(rpc, meth)(off, ln)
            else:
                v = getattr(rpc, meth)(name, off, ln)
            if isinstance(v, str):
                line = 'ok ' + hexs(v.encode('utf-8'))
            else:
                line = 'ok %s %d %d' % (hexs(v[0].encode('utf-8')), v[1], 1 if v[2] else 0)
            if force_xml or ctx.tier == 'thorough' or ctx.rng.random() < 0.5:
                xml_roundtrip_monitor(ctx, v, inp)
        except RPCError as e:
            line = 'fault %d' % e.code
        except Exception as e:          # anything else would be an HTTP 500
            line = 'exc ' + type(e).__name__
        il.append(line)
        op = ('read %d %d' % (off, ln)) if meth in ('readLog', 'readMainLog') else \
             ('%s %d %d %d' % ('pread' if meth.startswith('read') else 'ptail', 1 if found else 0, off, ln))
        ol.append(op)
        # ---- monitor: the property statement
        is_tail = meth.startswith('tail')
        if mood < 1:
            want = 'fault %d' % Faults.SHUTDOWN_STATE
        elif meth not in ('readLog', 'readMainLog') and not found:
            want = 'fault %d' % Faults.BAD_NAME
        elif logkind != 'present':
            want = 'ok - 0 0' if is_tail else 'fault %d' % Faults.NO_FILE
        elif is_tail:
            d, sz, ov = spec_tail_window(content, off, ln)
            want = 'ok %s %d %d' % (hexs(d.decode('utf-8', 'replace').encode('utf-8')), sz, ov)
        else:
            s = spec_read(content, off, ln)
            want = ('fault %d' % Faults.BAD_ARGUMENTS) if s.startswith('err') else \
                   'ok ' + hexs((bytes.fromhex(s[3:]) if s[3:] != '-' else b'').decode('utf-8', 'replace').encode('utf-8'))
        ctx.count('rpc:' + meth); ctx.count('rpc-answer:' + ' '.join(line.split()[:2] if not line.startswith('ok') else ['ok']))
        ctx.case_done(('rpclog', mood, logkind, content, meth, found, off, ln), nontrivial=logkind == 'present' and len(content) > 0)
        if line != want:
            kind = ('log-rpc-raised:' + line.split()[1]) if line.startswith('exc') else 'log-rpc-wrong-answer:' + ('tail' if is_tail else 'read')
            ctx.violation(kind, 'required %s, observed %s' % (want, line), inp)
    cases.append(('case rpclog mood=%d log=%s' % (mood, hexs(content) if logkind == 'present' else logkind), ol))
    impls.append(il)


READ_METHS = ['readLog', 'readMainLog', 'readProcessStdoutLog', 'readProcessStderrLog', 'readProcessLog']
TAIL_METHS = ['tailProcessStdoutLog', 'tailProcessStderrLog', 'tailProcessLog']

# regression corpus: F7 (window cutting a multi-byte character, binary log) -- must pass now
CORPUS_RPC = [
    (1, 'present', 'aé'.encode(), [('readProcessStdoutLog', True, 0, 2), ('tailProcessStdoutLog', True, 0, 1),
                                   ('readLog', True, 0, 2), ('readProcessStderrLog', True, -1, 0)]),
    (1, 'present', b'\xff\xfe\x80abc', [('readLog', True, 0, 0), ('readProcessStdoutLog', True, 1, 3), ('tailProcessStderrLog', True, 0, 4)]),
    (1, 'present', '€€'.encode(), [('readProcessStdoutLog', True, 1, 4), ('tailProcessStdoutLog', True, 0, 5), ('tailProcessStdoutLog', True, 0, 2)]),
    (1, 'present', 'x\U0001f600y'.encode(), [('readLog', True, 2, 2), ('readLog', True, -3, 0), ('tailProcessLog', True, 0, 3)]),
    # open findings F37 / F38: control characters and CR through the XML-RPC transport
    (1, 'present', b'a\x1bb', [('readProcessStdoutLog', True, 0, 0), ('tailProcessStdoutLog', True, 0, 3)]),
    (1, 'present', b'a\rb', [('readLog', True, 0, 0)]),
]


def run_rpclog(ctx):
    rng = ctx.rng
    cases, impls = [], []
    path = os.path.join(ctx.scratch, 'rpclog')
    for mood, kind, content, ops in CORPUS_RPC:
        rpc_one(ctx, mood, kind, content, ops, path, cases, impls, force_xml=True)
    # every window of short multi-byte and binary contents (all cuts)
    for content in ['aé€'.encode(), b'\xc3', b'\xe2\x82', 'é'.encode() * 2, b'a\x80\xffb', '\U0001f600'.encode()]:
        n = len(content)
        ops = [(m, True, off, ln) for m in ('readProcessStdoutLog', 'tailProcessStdoutLog')
               for off in range(-n - 1, n + 2) for ln in range(0, n + 2)]
        rpc_one(ctx, 1, 'present', content, ops, path, cases, impls)
    for _ in range(ctx.n(120, 2500)):
        sz = rng.choice([0, 1, 2, 3, 5, 8, 13, 64, 200])
        content = gen_content(rng, sz)
        mood = rng.choice(MOODS) if rng.random() < 0.3 else 1
        kind = rng.choice(['present'] * 8 + ['missing', 'unset'])
        ops = []
        for _ in range(6):
            m = rng.choice(READ_METHS + TAIL_METHS)
            ops.append((m, rng.random() < 0.9, rand_int(rng, sz), rand_int(rng, sz)))
        rpc_one(ctx, mood, kind, content, ops, path, cases, impls)
    ctx.sample({'case': cases[0][0], 'ops': cases[0][1], 'impl': impls[0]})
    ctx.correspond('rpclog', cases, impls)


# =================================================================================================
# tail_f_producer on real files
# =================================================================================================
class _Req(object):
    pass


class LogWorld:
    """a log path whose file is appended to, rotated, cleared, truncated, unlinked; keeps a descriptor
    on every file it ever created, so that contents stay readable after unlink and inodes are never reused"""
    def __init__(self, path):
        self.path = path
        self.fds = {}          # ino -> fd (read/write)
        self.path_ino = None
        self.n = 0

    def create(self, content):
        fd = os.open(self.path, os.O_RDWR | os.O_CREAT | os.O_EXCL)
        os.write(fd, content)
        ino = os.fstat(fd).st_ino
        self.fds[ino] = fd
        self.path_ino = ino
        return ino

    def content(self, ino):
        fd = self.fds[ino]
        return os.pread(fd, os.fstat(fd).st_size, 0)

    def append(self, ino, data):
        fd = self.fds[ino]
        os.pwrite(fd, data, os.fstat(fd).st_size)

    def rotate(self, content):
        self.n += 1
        if self.path_ino is not None:
            os.rename(self.path, '%s.%d' % (self.path, self.n))
        return self.create(content)

    def unlink(self):
        if self.path_ino is not None:
            os.unlink(self.path)
            self.path_ino = None

    def truncate(self, ino, n):
        os.ftruncate(self.fds[ino], n)

    def close(self):
        for fd in self.fds.values():
            os.close(fd)


def tailf_case(ctx, script, head, idx, real_chain=False):
    """script: initial content, then ops; returns (case_line, op_lines, impl_lines).  A poll follows every op."""
    from supervisor.http import tail_f_producer, NOT_DONE_YET
    d = os.path.join(ctx.scratch, 'tf%d' % idx)
    os.makedirs(d)
    w = LogWorld(os.path.join(d, 'log'))
    init = script[0]
    follow = w.create(init)                 # the inode the producer must be following, by the statement
    req = _Req()
    prod = tail_f_producer(req, w.path, head)
    case = 'case tailf ino=%d head=%d content=%s' % (follow, head, hexs(init))
    ops, il = [], []
    # monitor state: what the statement promises
    pos = max(0, len(init) - head)
    expected, delivered, markers_due, markers_seen = b'', b'', 0, 0
    for op in script[1:]:
        kind = op[0]
        ctx.count('tailf-op:' + kind)
        if kind == 'append':
            w.append(follow, op[1])
        elif kind == 'rotate':
            w.rotate(op[1])
        elif kind == 'clear':
            w.truncate(follow, 0)
            if op[1]:
                w.append(follow, op[1])
        elif kind == 'truncate':
            w.truncate(follow, op[1])
        elif kind == 'unlink':
            w.unlink()
        elif kind == 'idle':
            pass
        # ---- poll
        try:
            r = prod.more()
        except Exception as e:
            il.append('exc ' + type(e).__name__)
            ctx.violation('tailf-raised:' + type(e).__name__, 'more() raised %r after %r' % (e, op), {'part': 'tailf', 'head': head, 'script': ser(script)})
            break
        path_ino = w.path_ino
        if path_ino is not None and path_ino != follow:
            follow = path_ino
            pos = 0
        content = w.content(follow)
        ops.append('more %s %s' % ('-' if path_ino is None else path_ino, hexs(content)))
        if r is NOT_DONE_YET:
            il.append('notdone')
        elif isinstance(r, str):
            il.append('marker ' + hexs(r.encode('utf-8'))); markers_seen += 1
        else:
            il.append('data ' + hexs(r)); delivered += r
        if len(content) < pos:
            pos = 0; markers_due += 1
        else:
            expected += content[pos:]; pos = len(content)
        ctx.count('tailf-out:' + il[-1].split()[0])
    # one more idle poll so that bytes held back by a marker answer are delivered
    for _ in range(2):
        r = prod.more()
        content = w.content(follow)
        ops.append('more %s %s' % ('-' if w.path_ino is None else w.path_ino, hexs(content)))
        if r is NOT_DONE_YET: il.append('notdone')
        elif isinstance(r, str): il.append('marker ' + hexs(r.encode('utf-8'))); markers_seen += 1
        else: il.append('data ' + hexs(r)); delivered += r
        if len(content) < pos:
            pos = 0; markers_due += 1
        else:
            expected += content[pos:]; pos = len(content)
    prod._close(); w.close()
    ctx.case_done(('tailf', head, ser(script)), nontrivial=len(script) > 1)
    inp = {'part': 'tailf', 'head': head, 'script': ser(script)}
    if delivered != expected:
        k = next((i for i in range(min(len(delivered), len(expected))) if delivered[i] != expected[i]), min(len(delivered), len(expected)))
        kind = 'tailf-bytes-duplicated' if len(delivered) > len(expected) else 'tailf-bytes-lost' if len(delivered) < len(expected) else 'tailf-bytes-wrong'
        ctx.violation(kind, 'stream differs from the log at byte %d: delivered %d bytes, the statement requires %d' % (k, len(delivered), len(expected)), inp)
    if markers_seen != markers_due:
        ctx.violation('tailf-marker-count', '%d truncation markers for %d shrinks' % (markers_seen, markers_due), inp)
    return case, ops, il


def ser(script):
    return [script[0].hex()] + [[o[0]] + [x.hex() if isinstance(x, bytes) else x for x in o[1:]] for o in script[1:]]


def deser(s):
    return [bytes.fromhex(s[0])] + [tuple([o[0]] + [bytes.fromhex(x) if isinstance(x, str) else x for x in o[1:]]) for o in s[1:]]


def gen_script(rng):
    def data(maxn=12):
        return bytes(rng.choice(b'ab\n\xc3\xa9\x00\r') for _ in range(rng.randrange(1, maxn)))
    script = [data(40) if rng.random() < 0.8 else b'']
    size = len(script[0])
    for _ in range(rng.randrange(1, 10)):
        r = rng.random()
        if r < 0.4:
            d = data(); script.append(('append', d)); size += len(d)
        elif r < 0.55:
            d = data(20) if rng.random() < 0.7 else b''
            script.append(('rotate', d)); size = len(d)
        elif r < 0.7:
            # cleared, possibly already rewritten -- but not past what has been delivered (ASSUMPTIONS)
            d = data(max(2, size)) if size > 1 and rng.random() < 0.5 else b''
            d = d[:max(0, size - 1)]
            if size == 0:
                script.append(('idle',))
            else:
                script.append(('clear', d)); size = len(d)
        elif r < 0.8:
            if size > 0:
                k = rng.randrange(0, size); script.append(('truncate', k)); size = k
            else:
                script.append(('idle',))
        elif r < 0.88:
            script.append(('unlink',))
        else:
            script.append(('idle',))
    return script


CORPUS_TAILF = [
    # F8: the marker is text; growth after truncation resumes at 0
    (1024, [b'hello\n', ('append', b'more\n'), ('clear', b''), ('append', b'new\n')]),
    (3, [b'0123456789', ('append', b'ab'), ('rotate', b'fresh'), ('append', b'!'), ('unlink',), ('append', b'?'), ('rotate', b'')]),
    (0, [b'abc', ('truncate', 1), ('append', b'xyz')]),
    (1024, [b'', ('idle',), ('append', b'\xc3'), ('append', b'\xa9')]),
]


def run_tailf(ctx):
    rng = ctx.rng
    cases, impls = [], []
    idx = 0
    scripts = [(h, s) for h, s in CORPUS_TAILF]
    for _ in range(ctx.n(150, 2500)):
        scripts.append((rng.choice([0, 1, 5, 1024, 1024, 1024]), gen_script(rng)))
    for head, script in scripts:
        c, ops, il = tailf_case(ctx, script, head, idx); idx += 1
        cases.append((c, ops)); impls.append(il)
    ctx.sample({'case': cases[0][0][:80], 'ops': [o[:60] for o in cases[0][1]], 'impl': impls[0]})
    ctx.correspond('tailf', cases, impls)


# =================================================================================================
# chunked encoder / decoder
# =================================================================================================
class Scripted:
    def __init__(self, items):
        self.items = list(items)
    def more(self):
        return self.items.pop(0)


def ref_chunk_decode(stream):
    """independent decoder of a (possibly unterminated) chunked body -> (chunks, terminated)"""
    chunks, i = [], 0
    while i < len(stream):
        j = stream.index(b'\r\n', i)
        n = int(stream[i:j].split(b';')[0], 16)
        if n == 0:
            return chunks, True
        d = stream[j + 2:j + 2 + n]
        if len(d) != n or stream[j + 2 + n:j + 4 + n] != b'\r\n':
            raise ValueError('truncated chunk')
        chunks.append(d); i = j + 4 + n
    return chunks, False


def enc_case(ctx, items):
    """items: list of ('nd',) | ('b', bytes) | ('s', str)"""
    from supervisor.http import deferring_chunked_producer, NOT_DONE_YET
    real = [NOT_DONE_YET if it[0] == 'nd' else it[1] for it in items]
    prod = deferring_chunked_producer(Scripted(real + [b''] * 4))
    ops, il, stream = [], [], b''
    payload, ended = b'', False
    for it in items:
        ops.append('nd' if it[0] == 'nd' else '%s %s' % (it[0], hexs(it[1] if it[0] == 'b' else it[1].encode('utf-8'))))
        try:
            r = prod.more()
        except Exception as e:
            il.append('exc ' + type(e).__name__)
            ctx.violation('chunked-producer-raised:' + type(e).__name__, 'more() raised %r for %r' % (e, it),
                          {'part': 'chunkenc', 'items': [[i[0]] + ([i[1].hex()] if i[0] == 'b' else [i[1]] if i[0] == 's' else []) for i in items]})
            return ops, il, None
        if r is NOT_DONE_YET:
            il.append('nd')
        else:
            il.append('out ' + hexs(r)); stream += r
        if it[0] != 'nd' and not ended:
            b = it[1] if it[0] == 'b' else it[1].encode('utf-8')
            if b: payload += b
            else: ended = True
        ctx.count('enc-item:' + it[0])
    inp = {'part': 'chunkenc', 'items': [[i[0]] + ([i[1].hex()] if i[0] == 'b' else [i[1]] if i[0] == 's' else []) for i in items]}
    try:
        chunks, term = ref_chunk_decode(stream)
        if b''.join(chunks) != payload or term != ended:
            ctx.violation('chunked-stream-wrong', 'an independent decoder reads %r (terminated=%s) from the stream, the producer was given %r (ended=%s)'
                          % (b''.join(chunks)[:40], term, payload[:40], ended), inp)
    except ValueError as e:
        ctx.violation('chunked-stream-malformed', 'the produced stream is not a well-formed chunked body: %s' % e, inp)
    ctx.case_done(('chunkenc', tuple(ops)), nontrivial=bool(payload))
    return ops, il, stream


class RecListener(object):
    def __init__(self):
        self.fed, self.is_done, self.errors = [], False, []
    def status(self, url, status): pass
    def error(self, url, error): self.errors.append(error)
    def response_header(self, url, name, value): pass
    def done(self, url): self.is_done = True
    def feed(self, url, data): self.fed.append(bytes(data))
    def close(self, url): pass


HEADER = b'HTTP/1.1 200 OK\r\nServer: Medusa/1.12\r\nContent-Type: text/plain;charset=utf-8\r\nTransfer-Encoding: chunked\r\n\r\n'


def dec_case(ctx, segs, use_socket=False, header_segs=None):
    """feed the real HTTPHandler: the response header, then the body segments one handle_read() each"""
    from supervisor.http_client import HTTPHandler
    lst = RecListener()
    a = b = None
    if use_socket:
        a, b = socket.socketpair()
        h = HTTPHandler(lst, conn=a, map={})
        def give(data):
            b.sendall(data); h.handle_read()
    else:
        h = HTTPHandler(lst, conn=None, map={})
        def give(data):
            h.recv = lambda n: data
            h.handle_read()
    h.url = 'http://x/logtail/p'
    il = []
    try:
        for hs in (header_segs or [HEADER]):
            give(hs)
        for s in segs:
            before = len(lst.fed)
            try:
                give(s)
                err = '-'
            except Exception as e:
                err = type(e).__name__
            new = lst.fed[before:]
            il.append('fed=%s done=%d err=%s' % (','.join(hexs(x) for x in new) if new else '-', 1 if lst.is_done else 0, err))
            if err != '-':
                break
    finally:
        if a is not None:
            a.close(); b.close()
    return il, lst


def splits_exhaustive(stream):
    n = len(stream)
    for mask in range(1 << (n - 1)):
        cuts = [i + 1 for i in range(n - 1) if mask >> i & 1]
        yield [stream[x:y] for x, y in zip([0] + cuts, cuts + [n])]


def split_random(rng, stream, pieces):
    n = len(stream)
    cuts = sorted(set(rng.randrange(1, n) for _ in range(min(pieces, n - 1)))) if n > 1 else []
    return [stream[x:y] for x, y in zip([0] + cuts, cuts + [n])]


def gen_chunks(rng):
    def piece():
        r = rng.random()
        if r < 0.5: n = rng.randrange(1, 6)
        elif r < 0.8: n = rng.choice([9, 10, 15, 16, 17, 31, 255, 256, 257])
        else: n = rng.choice([4095, 4096, 4097, 70000]) if rng.random() < 0.15 else rng.randrange(1, 600)
        alphabet = rng.choice([b'ab', b'\r\n', b'\r\n0a', b'0\r\n\r\n1f'])
        return bytes(rng.choice(alphabet) for _ in range(n))
    return [piece() for _ in range(rng.randrange(1, 5))]


def run_chunked(ctx):
    from supervisor.http import deferring_chunked_producer
    rng = ctx.rng
    # ---- encoder
    ecases, eimpls = [], []
    corpus_items = [
        [('s', '==> File truncated <==\n'), ('b', b'abc')],                # F8
        [('nd',), ('b', b'x' * 16), ('s', 'é€'), ('nd',), ('b', b''), ('b', b'late'), ('nd',)],
        [('s', ''), ('b', b'after end')],
    ]
    streams = []
    for _ in range(ctx.n(120, 2000)):
        items = []
        for _ in range(rng.randrange(1, 7)):
            r = rng.random()
            if r < 0.2: items.append(('nd',))
            elif r < 0.7: items.append(('b', rng.choice(gen_chunks(rng))[:300] if rng.random() < 0.93 else b''))
            else: items.append(('s', rng.choice(['==> File truncated <==\n', 'é', 'x€y' * rng.randrange(1, 9), 'plain', '' if rng.random() < 0.2 else '\r\n'])))
        corpus_items.append(items)
    for items in corpus_items:
        ops, il, stream = enc_case(ctx, items)
        ecases.append(('case chunkenc', ops)); eimpls.append(il)
    ctx.sample({'case': 'chunkenc', 'ops': ecases[0][1], 'impl': eimpls[0]})
    ctx.correspond('chunkenc', ecases, eimpls)

    # ---- decoder: encoded streams produced by the real producer, fragmented
    dcases, dimpls = [], []
    def encode_real(chunks, close):
        prod = deferring_chunked_producer(Scripted(list(chunks) + [b''] * 3))
        s = b''.join(prod.more() for _ in chunks)
        if close:
            s += prod.more()
        return s
    def one(chunks, close, segs, use_socket):
        il, lst = dec_case(ctx, segs, use_socket)
        dcases.append(('case chunkdec', ['seg ' + hexs(s) for s in segs])); dimpls.append(il)
        got = b''.join(lst.fed)
        inp = {'part': 'chunkdec', 'chunks': [c.hex() for c in chunks], 'close': close, 'cuts': [len(s) for s in segs], 'socket': use_socket}
        ctx.count('dec:segments', len(segs)); ctx.count('dec:cases'); ctx.count('dec:socket' if use_socket else 'dec:recv-stub')
        ctx.case_done(('chunkdec', tuple(chunks), close, tuple(len(s) for s in segs)), nontrivial=True)
        if got != b''.join(chunks) or any('err=-' not in l for l in il) or lst.errors:
            ctx.violation('client-reassembly-wrong', 'the bundled client reassembled %d bytes (%r...) from a stream carrying %d bytes; errors %r'
                          % (len(got), got[:30], len(b''.join(chunks)), (lst.errors or [l for l in il if 'err=-' not in l])[:1]), inp)
    # small-scope exhaustive: every fragmentation of short streams
    small = [[b'a'], [b'\r\n'], [b'ab', b'\r'], [b'0\r\n']]
    if ctx.tier == 'thorough' or ctx.boost > 1:
        small += [[b'\n\r\n', b'x'], [b'a' * 3, b'\r\n\r']]
    for chunks in small:
        for close in (False, True):
            s = encode_real(chunks, close)
            if len(s) <= 15:
                for segs in splits_exhaustive(s):
                    one(chunks, close, segs, False)
    for k in range(ctx.n(150, 2500)):
        chunks = gen_chunks(rng)
        close = rng.random() < 0.2
        s = encode_real(chunks, close)
        mode = rng.randrange(5)
        if mode == 0 and len(s) < 400: segs = [s[i:i + 1] for i in range(len(s))]
        elif mode == 1: segs = [s[i:i + 4096] for i in range(0, len(s), 4096)]
        else: segs = [p for q in split_random(rng, s, rng.choice([1, 2, 3, 8, 40])) for p in [q[i:i + 4096] for i in range(0, len(q), 4096)]]
        one(chunks, close, segs, use_socket=(k % 3 == 0))
    ctx.sample({'case': 'chunkdec', 'ops': dcases[-1][1][:4], 'impl': dimpls[-1][:4]})
    ctx.correspond('chunkdec', dcases, dimpls)


# =================================================================================================
# the whole real chain: logtail_handler -> tail_f_producer -> deferring producers -> HTTPHandler
# =================================================================================================
class _Srv:
    SERVER_IDENT = 'verif'
    class logger:
        @staticmethod
        def log(*a): pass


class _Chan:
    def __init__(self):
        self.producers, self.server, self.addr, self.closed = [], _Srv(), ('127.0.0.1', 1), False
    def push_with_producer(self, p): self.producers.append(p)
    def close_when_done(self): self.closed = True


def chain_case(ctx, script, idx, main):
    from supervisor.http import deferring_http_request, logtail_handler, mainlogtail_handler, NOT_DONE_YET
    from supervisor.tests.base import DummyOptions, DummyPConfig, PopulatedDummySupervisor
    rng = ctx.rng
    d = os.path.join(ctx.scratch, 'ch%d' % idx); os.makedirs(d)
    w = LogWorld(os.path.join(d, 'log'))
    follow = w.create(script[0])
    opts = DummyOptions()
    sup = PopulatedDummySupervisor(opts, 'grp', DummyPConfig(opts, 'proc', '/bin/true', stdout_logfile=w.path))
    opts.logfile = w.path
    ch = _Chan()
    uri = '/mainlogtail' if main else '/logtail/grp:proc'
    req = deferring_http_request(ch, 'GET %s HTTP/1.1' % uri, 'GET', uri, '1.1', ['Host: x'])
    (mainlogtail_handler if main else logtail_handler)(sup).handle_request(req)
    inp = {'part': 'chain', 'main': main, 'script': ser(script)}
    if len(ch.producers) != 1 or ch.closed:
        ctx.violation('logtail-not-streaming', 'the handler pushed %d producers, close_when_done=%s' % (len(ch.producers), ch.closed), inp)
        return
    prod = ch.producers[0]
    stream = b''
    pos = max(0, len(script[0]) - 1024)
    expected = b''
    def pull():
        nonlocal stream, pos, expected, follow
        for _ in range(3):
            r = prod.more()
            if r is not NOT_DONE_YET:
                stream += r
        if w.path_ino is not None and w.path_ino != follow:
            follow = w.path_ino; pos = 0
        c = w.content(follow)
        if len(c) < pos:
            expected += MARKER + c; pos = len(c)
        else:
            expected += c[pos:]; pos = len(c)
    try:
        pull()
        for op in script[1:]:
            if op[0] == 'append': w.append(follow, op[1])
            elif op[0] == 'rotate': w.rotate(op[1])
            elif op[0] == 'clear':
                w.truncate(follow, 0)
                pull()
                if op[1]: w.append(follow, op[1])
            elif op[0] == 'truncate': w.truncate(follow, op[1])
            elif op[0] == 'unlink': w.unlink()
            pull()
    except Exception as e:
        ctx.violation('logtail-stream-raised:' + type(e).__name__, 'the producer chain raised %r' % (e,), inp)
        w.close(); return
    w.close()
    # the client side, arbitrary fragmentation of everything including the response header
    segs = split_random(rng, stream, rng.choice([1, 3, 10, 60]))
    lst = RecListener()
    from supervisor.http_client import HTTPHandler
    h = HTTPHandler(lst, conn=None, map={}); h.url = 'u'
    err = None
    for s in segs:
        h.recv = lambda n, s=s: s
        try:
            h.handle_read()
        except Exception as e:
            err = e; break
    got = b''.join(lst.fed)
    ctx.count('chain:cases'); ctx.count('chain:bytes', len(got))
    ctx.case_done(('chain', main, ser(script), tuple(len(s) for s in segs)), nontrivial=True)
    if err is not None or got != expected or lst.is_done:
        ctx.violation('logtail-stream-mismatch', 'client got %d bytes, the statement requires %d (first difference at %d); error %r; done=%s'
                      % (len(got), len(expected), next((i for i in range(min(len(got), len(expected))) if got[i] != expected[i]), min(len(got), len(expected))), err, lst.is_done),
                      dict(inp, cuts=[len(s) for s in segs]))


def run_chain(ctx):
    rng = ctx.rng
    scripts = [s for _, s in CORPUS_TAILF] + [gen_script(rng) for _ in range(ctx.n(60, 800))]
    for i, s in enumerate(scripts):
        chain_case(ctx, s, i, main=(i % 2 == 1))


# =================================================================================================
# the channel's output buffer: producers -> deferring_http_channel.refill_buffer / async_chat.initiate_send -> socket
# =================================================================================================
class LimitedSock(object):
    """The channel's socket with a send() that accepts at most `quota` bytes of what it is offered (None = all of it):
    what a full kernel buffer or a slow reader does to a non-blocking socket.  The accepted bytes really travel through
    the socketpair to the client side."""
    def __init__(self, sock):
        self._s, self.quota, self.offers = sock, None, []
    def send(self, data):
        import errno
        n = len(data) if self.quota is None else min(self.quota, len(data))
        self.offers.append((len(data), n))
        if n == 0 and len(data):
            raise socket.error(errno.EWOULDBLOCK, 'Resource temporarily unavailable')
        return self._s.send(data[:n])
    def __getattr__(self, k):
        return getattr(self._s, k)


class ChannelRig(object):
    """a REAL deferring_http_channel on a socketpair, its socket wrapped in LimitedSock; `handlers` are installed on a
    minimal server object (props.c12._FakeServer)"""
    def __init__(self, handlers=(), obs=None):
        import props.c12 as c12
        from supervisor.http import deferring_http_channel
        self.a, self.b = socket.socketpair()
        self.ch = deferring_http_channel(c12._FakeServer(list(handlers)), self.a, ('127.0.0.1', 0))
        if obs is not None:
            self.ch.ac_out_buffer_size = obs
        self.sock = self.ch.socket = LimitedSock(self.a)
        self.said = []
        self.ch.log_info = lambda msg, level='info': self.said.append(msg)
        self.b.setblocking(False)
        self.received = b''

    def drain(self):
        got = b''
        try:
            while True:
                d = self.b.recv(1 << 17)
                if not d:
                    break
                got += d
        except (BlockingIOError, OSError):
            pass
        self.received += got
        return got

    def close(self):
        try:
            self.ch.close()
        except Exception:
            pass
        for s_ in (self.a, self.b):
            try:
                s_.close()
            except OSError:
                pass


class ScriptedFifoProducer(object):
    """more() answers the next scripted item (None = NOT_DONE_YET); `log` records every answer given, in order"""
    delay = 0.0
    def __init__(self, answers, log, last):
        self.answers, self.log, self.last = list(answers), log, last
    def more(self):
        from supervisor.http import NOT_DONE_YET
        if self.answers:
            a = self.answers.pop(0)
        else:
            a = None if self.last else b''
        self.log.append(a)
        return NOT_DONE_YET if a is None else a


def outbuf_case(ctx, obs, answers, accepts):
    """answers: list of bytes | None (NOT_DONE_YET) | b'' (that producer is exhausted; the next answers come from the next
    producer of the fifo); accepts: bytes the socket takes on each handle_write (None = everything offered).
    -> (case line, op lines, impl lines)"""
    rig = ChannelRig(obs=obs)
    log = []
    groups, cur = [], []
    for a in answers:
        if a == b'':
            groups.append(cur); cur = []
        else:
            cur.append(a)
    groups.append(cur)
    inp = {'part': 'outbuf', 'obs': obs, 'answers': ['nd' if a is None else len(a) for a in answers], 'accepts': accepts}
    ops, il = [], []
    try:
        for i, g in enumerate(groups):
            rig.ch.producer_fifo.push(ScriptedFifoProducer(g, log, last=(i == len(groups) - 1)))
        def yielded():
            return b''.join(a for a in log if a)
        for k in accepts:
            rig.sock.quota = k
            try:
                rig.ch.handle_write()
            except Exception as e:
                ctx.violation('channel-send-raised:' + type(e).__name__, 'handle_write raised %r' % (e,), inp)
                break
            got = rig.drain()
            ops.append('send k=%d' % ((1 << 30) if k is None else k))
            il.append('asked=%d sent=%s' % (len(log), hexs(got)))
            y = yielded()
            if rig.received != y[:len(rig.received)]:
                d = next((i for i in range(min(len(rig.received), len(y))) if rig.received[i] != y[i]), min(len(rig.received), len(y)))
                ctx.violation('channel-bytes-wrong', 'after %d sends the socket has carried %d bytes that are not a prefix of the %d bytes the producers '
                              'handed over (first difference at byte %d)' % (len(ops), len(rig.received), len(y), d), inp)
                break
        else:
            # the socket takes everything from now on: whatever is buffered must arrive
            rig.sock.quota = None
            for _ in range(4 + sum(len(a) for a in answers if a) // max(1, obs)):
                rig.ch.handle_write(); rig.drain()
            y = yielded()
            if rig.received != y:
                kind = 'channel-bytes-lost' if len(rig.received) < len(y) else 'channel-bytes-duplicated' if len(rig.received) > len(y) else 'channel-bytes-wrong'
                d = next((i for i in range(min(len(rig.received), len(y))) if rig.received[i] != y[i]), min(len(rig.received), len(y)))
                ctx.violation(kind, 'the producers handed %d bytes to the channel, the socket carried %d (first difference at byte %d); buffer size %d, pieces %s, accepted per send %s'
                              % (len(y), len(rig.received), d, obs, inp['answers'], accepts), inp)
    finally:
        rig.close()
    ctx.count('outbuf:cases'); ctx.count('outbuf:obs:%d' % obs)
    for a in answers:
        ctx.count('outbuf:piece:' + ('nd' if a is None else 'exhausted' if a == b'' else '<obs' if len(a) < obs else '=obs' if len(a) == obs else '>obs' if len(a) <= 16 * obs else '>>obs'))
    for k in accepts:
        ctx.count('outbuf:accept:' + ('all' if k is None else '0' if k == 0 else '<obs' if k < obs else '>=obs'))
    ctx.case_done(('outbuf', obs, tuple(answers), tuple(accepts)), nontrivial=any(answers))
    # the model is given enough NOT_DONE_YET answers after the script (the last producer never ends)
    enc = ','.join(['nd' if a is None else 'e' if a == b'' else a.hex() for a in answers] + ['nd'] * (len(accepts) + 1))
    return 'case outbuf obs=%d answers=%s' % (obs, enc), ops, il


def pattern(start, n):
    """n bytes of the endless text '0000000\n0000001\n...' from byte offset `start` (so that lost, repeated or moved bytes show)"""
    first = start // 8
    t = b''.join(b'%07d\n' % (i % 10000000) for i in range(first, first + n // 8 + 2))
    return t[start - first * 8:start - first * 8 + n]


def run_outbuf(ctx):
    rng = ctx.rng
    cases, impls = [], []
    def one(obs, answers, accepts):
        c, ops, il = outbuf_case(ctx, obs, answers, accepts)
        cases.append((c, ops)); impls.append(il)
    def piece(n, off=[0]):
        off[0] += n
        return pattern(off[0] - n, n)
    # regression corpus: seeded change C16-6 (refill overwrites the unsent rest): a piece larger than the buffer, the next one right behind
    one(4096, [piece(22), None, piece(6008), piece(50), None], [None, None, None, None, None])
    one(4, [piece(6), piece(2)], [4, 4, 4])
    # small scope, exhaustive: buffer size 4, every list of 2..3 answers over {NOT_DONE_YET, exhausted, 1, 3, 4, 5, 9 bytes}, constant schedules
    sizes = [None, b'', 1, 3, 4, 5, 9]
    import itertools
    combos = [c for n in (2, 3) for c in itertools.product(sizes, repeat=n)]
    if ctx.tier != 'thorough' and ctx.boost <= 1:
        combos = [c for c in combos if len(c) == 2] + rng.sample([c for c in combos if len(c) == 3], 60)
    for combo in combos:
        answers = [a if a is None or a == b'' else piece(a) for a in combo]
        for k in ([1, 3, 4, None] if ctx.tier == 'thorough' else [rng.choice([1, 3]), rng.choice([4, None])]):
            one(4, answers, [k] * rng.randrange(2, 7))
    # random schedules, small and real buffer sizes, piece sizes around the buffer size and the 64 KiB globbing size
    for _ in range(ctx.n(120, 1500)):
        obs = rng.choice([4, 8, 64])
        answers = []
        for _ in range(rng.randrange(1, 6)):
            r = rng.random()
            answers.append(None if r < 0.2 else b'' if r < 0.27 else piece(rng.choice([1, 2, obs - 1, obs, obs + 1, 2 * obs, 2 * obs + 1, 5 * obs + 3])))
        one(obs, answers, [rng.choice([0, 1, 2, obs - 1, obs, obs + 1, None]) for _ in range(rng.randrange(1, 10))])
    big = [1, 100, 4000, 4095, 4096, 4097, 6000, 8191, 8192, 8193, 12000]
    huge = [65535, 65536, 65537, 70000]
    for i in range(ctx.n(30, 300)):
        answers = []
        for _ in range(rng.randrange(2, 6)):
            r = rng.random()
            answers.append(None if r < 0.2 else piece(rng.choice(huge)) if r < 0.27 and i % 4 == 0 else piece(rng.choice(big)))
        one(4096, answers, [rng.choice([1, 100, 4095, 4096, None, None]) for _ in range(rng.randrange(2, 12))])
    ctx.sample({'case': cases[1][0], 'ops': cases[1][1], 'impl': impls[1]})
    ctx.correspond('outbuf', cases, impls)


# =================================================================================================
# /logtail and /mainlogtail through the real channel: request bytes in, response bytes out of a socket that accepts
# what the schedule says, bursts around the buffer sizes, data arriving again on the very next loop iteration
# =================================================================================================
def strict_dechunk(raw):
    """independent, strict decoder of a still-open chunked body -> (payload, error or None)"""
    body, pos = b'', 0
    while pos < len(raw):
        eol = raw.find(b'\r\n', pos)
        if eol == -1:
            return body, 'incomplete chunk-size line at byte %d: %r' % (pos, raw[pos:pos + 20])
        size_line = raw[pos:eol]
        if not size_line or any(c not in b'0123456789abcdefABCDEF' for c in size_line):
            return body, 'bad chunk-size line at byte %d: %r' % (pos, size_line[:20])
        size = int(size_line, 16)
        if size == 0:
            return body, 'the server terminated the stream at byte %d' % pos
        start, end = eol + 2, eol + 2 + size
        if len(raw) < end + 2:
            return body, 'the chunk at byte %d announces %d bytes but only %d follow' % (pos, size, len(raw) - start)
        if raw[end:end + 2] != b'\r\n':
            return body, 'the chunk at byte %d (size %d) is followed by %r instead of CRLF' % (pos, size, raw[end:end + 8])
        body += raw[start:end]
        pos = end + 2
    return body, None


def chanlog_case(ctx, idx, main, initial, script):
    """script: ('append', n) | ('iter', accept or None, dt).  One loop iteration = what asyncore.poll does for the channel:
    writable() at the virtual time, then the write event."""
    from supervisor.http import logtail_handler, mainlogtail_handler
    from supervisor.http_client import HTTPHandler
    from supervisor.tests.base import DummyOptions, DummyPConfig, PopulatedDummySupervisor
    import supervisor.medusa.asyncore_25 as asyncore
    rng = ctx.rng
    d = os.path.join(ctx.scratch, 'cl%d' % idx); os.makedirs(d)
    path = os.path.join(d, 'log')
    total = initial
    with open(path, 'wb') as f:
        f.write(pattern(0, initial))
    opts = DummyOptions()
    sup = PopulatedDummySupervisor(opts, 'grp', DummyPConfig(opts, 'proc', '/bin/true', stdout_logfile=path))
    opts.logfile = path
    rig = ChannelRig([logtail_handler(sup), mainlogtail_handler(sup)])
    inp = {'part': 'chanlog', 'main': main, 'initial': initial, 'script': [list(o) for o in script]}
    clock = [1000.0]
    iters = [0]
    def iterate(accept, dt):
        clock[0] += dt
        rig.sock.quota = accept
        iters[0] += 1
        if rig.ch.connected and rig.ch.writable(clock[0]):
            asyncore.write(rig.ch)
        return rig.drain()
    try:
        rig.sock.quota = None
        rig.b.setblocking(True)
        rig.b.sendall(('GET %s HTTP/1.1\r\nHost: x\r\n\r\n' % ('/mainlogtail' if main else '/logtail/grp:proc')).encode())
        rig.b.setblocking(False)
        asyncore.read(rig.ch)
        rig.drain()
        for op in script:
            if op[0] == 'append':
                with open(path, 'ab') as f:
                    f.write(pattern(total, op[1]))
                total += op[1]
                ctx.count('chanlog:append:' + ('<4096' if op[1] < 4000 else '~4096' if op[1] <= 4200 else '<64K' if op[1] < 65000 else '>=64K'))
            else:
                got = iterate(op[1], op[2])
                ctx.count('chanlog:iter:accept=%s:%s' % ('all' if op[1] is None else op[1], 'sent' if got else 'nothing'))
        quiet = 0
        for _ in range(60 + total // 2048):            # the reader takes everything from now on, the loop keeps turning
            quiet = 0 if iterate(None, 0.2) else quiet + 1
            if quiet >= 4:
                break
    except Exception as e:
        ctx.violation('logtail-channel-raised:' + type(e).__name__, 'the channel raised %r' % (e,), inp)
        rig.close()
        return
    said = list(rig.said)
    connected = rig.ch.connected
    rig.close()
    ctx.count('chanlog:cases'); ctx.count('chanlog:iterations', iters[0])
    ctx.case_done(('chanlog', main, initial, tuple(tuple(o) for o in script)), nontrivial=True)
    head, sep, raw = rig.received.partition(b'\r\n\r\n')
    if not sep or not head.startswith(b'HTTP/1.1 200') or b'transfer-encoding: chunked' not in head.lower():
        ctx.violation('logtail-not-streaming', 'no chunked 200 response: %r' % rig.received[:120], inp)
        return
    expected = pattern(0, total)[max(0, initial - 1024):]
    body, err = strict_dechunk(raw)
    def first_diff(a, b):
        return next((i for i in range(min(len(a), len(b))) if a[i] != b[i]), min(len(a), len(b)))
    if not connected or said:
        ctx.violation('logtail-channel-closed', 'the server closed the stream: %r' % (said[-1:] or 'closed',), inp)
    if err is not None:
        ctx.violation('logtail-channel-framing-broken', 'the response is not a well-formed chunked body: %s (after %d payload bytes of %d)'
                      % (err, len(body), len(expected)), inp)
    if body != expected:
        kind = 'logtail-channel-bytes-lost' if len(body) < len(expected) else 'logtail-channel-bytes-duplicated' if len(body) > len(expected) else 'logtail-channel-bytes-wrong'
        ctx.violation(kind, 'an independent client reads %d payload bytes, the log carries %d after the initial tail (first difference at %d)'
                      % (len(body), len(expected), first_diff(body, expected)), inp)
    # the bundled client on the same bytes, under a random fragmentation
    segs = split_random(rng, rig.received, rng.choice([1, 3, 10, 60]))
    segs = [p_ for q in segs for p_ in [q[i:i + 4096] for i in range(0, len(q), 4096)]]
    lst = RecListener()
    h = HTTPHandler(lst, conn=None, map={}); h.url = 'u'
    cerr = None
    for sg in segs:
        h.recv = lambda n, sg=sg: sg
        try:
            h.handle_read()
        except Exception as e:
            cerr = e; break
    got = b''.join(lst.fed)
    if cerr is not None or got != expected or lst.is_done or lst.errors:
        ctx.violation('logtail-channel-client-mismatch', 'the bundled client reassembled %d bytes, the log carries %d (first difference at %d); error %r %r; done=%s'
                      % (len(got), len(expected), first_diff(got, expected), cerr, lst.errors[:1], lst.is_done), dict(inp, cuts=[len(x) for x in segs]))


CORPUS_CHANLOG = [
    # seeded change C16-6: a 6000-byte burst, and the child writes again as soon as its first 4096 bytes are out
    (False, 22, [('append', 12), ('iter', None, 0.2), ('iter', None, 0.2), ('append', 6000), ('iter', None, 0.2), ('append', 44),
                 ('iter', None, 0.2), ('iter', None, 0.2), ('append', 10), ('iter', None, 0.2)]),
    (True, 2000, [('append', 4090), ('iter', 4095, 0.2), ('append', 1), ('iter', 4096, 0.2), ('append', 70000), ('iter', None, 0.2), ('append', 5),
                  ('iter', 100, 0.2), ('append', 5), ('iter', None, 0.2)]),
]


def gen_chanlog(rng):
    sizes = [1, 50, 1000, 4000, 4084, 4085, 4086, 4087, 4088, 4089, 4090, 4091, 4095, 4096, 4097, 6000, 8192, 12000, 20000]
    script = []
    for _ in range(rng.randrange(3, 11)):
        r = rng.random()
        n = rng.choice([65530, 65536, 70000]) if r < 0.06 else rng.choice(sizes) if r < 0.7 else rng.randrange(1, 9000)
        script.append(('append', n))
        for _ in range(rng.choice([1, 1, 1, 2, 3])):
            script.append(('iter', rng.choice([1, 100, 4095, 4096, None, None, None]), rng.choice([0.01, 0.2, 0.2])))
    return rng.choice([0, 5, 900, 1024, 3000]), script


def run_chanlog(ctx):
    rng = ctx.rng
    items = list(CORPUS_CHANLOG)
    for i in range(ctx.n(40, 500)):
        initial, script = gen_chanlog(rng)
        items.append((i % 3 == 0, initial, script))
    for i, (main, initial, script) in enumerate(items):
        chanlog_case(ctx, i, main, initial, script)


# =================================================================================================
# the log methods over the wire: real supervisor_xmlrpc_handler on a real deferring_http_channel (socketpair)
# =================================================================================================
def rpc_wire_case(ctx, content, meth, off, ln):
    """one log method requested as HTTP bytes through the real handler on a real channel, judged on the response bytes"""
    import props.c12 as c12
    from supervisor import xmlrpc
    c12._CTX[0] = ctx
    path = os.path.join(ctx.scratch, 'wirelog')
    with open(path, 'wb') as f:
        f.write(content)
    iface = make_interface(1, path, path)
    subs = [('supervisor', iface)]
    subs.append(('system', xmlrpc.SystemNamespaceRPCInterface(subs)))
    h = xmlrpc.supervisor_xmlrpc_handler(iface.supervisord, subs)
    params = [off, ln] if meth == 'readLog' else ['grp:proc', off, ln]
    inp = {'part': 'rpcwire', 'content_hex': hexs(content), 'method': meth, 'offset': off, 'length': ln}
    res = c12.wire_request(h, 'supervisor.' + meth, params, replay_input=inp)
    # what the statement requires
    if meth.startswith('tail'):
        d, sz, ov = spec_tail_window(content, off, ln)
        want = ('value', [d.decode('utf-8', 'replace'), sz, bool(ov)])
    else:
        sp = spec_read(content, off, ln)
        want = ('fault', xmlrpc.Faults.BAD_ARGUMENTS) if sp.startswith('err') else \
               ('value', (bytes.fromhex(sp[3:]) if sp[3:] != '-' else b'').decode('utf-8', 'replace'))
    got = res.get('answer') if res.get('status') == 200 else ('http', res.get('status'))
    ctx.count('wire:' + meth); ctx.count('wire-answer:' + str(got[0]))
    ctx.case_done(('rpcwire', content, meth, off, ln), nontrivial=len(content) > 0)
    if got == want:
        return
    text = want[1] if want[0] == 'value' and isinstance(want[1], str) else (want[1][0] if want[0] == 'value' else '')
    ctl = sorted(set(c for c in text if ord(c) < 32 and c not in '\t\n\r'))
    if got[0] == 'unparseable' and ctl:
        ctx.violation('xmlrpc-answer-not-wellformed:control-char', 'over the wire: the response for this window cannot be parsed; characters %r' % ctl, inp)
    elif got[0] == 'value' and '\r' in text and norm_cr(got[1]) == norm_cr(want[1]):
        ctx.violation('xmlrpc-answer-altered:cr-normalised', 'over the wire the client receives %r for %r' % (got[1], want[1]), inp)
    elif got[0] == 'http':
        ctx.violation('log-rpc-http-error:%s' % got[1], '%s%r answered HTTP %s' % (meth, tuple(params), got[1]), inp)
    else:
        ctx.violation('log-rpc-wire-wrong-answer:' + ('tail' if meth.startswith('tail') else 'read'),
                      'over the wire %r, the statement requires %r' % (got, want), inp)


def run_rpc_wire(ctx):
    """readLog / readProcessStdoutLog / tailProcessStdoutLog requested as HTTP bytes; judged on the bytes that come
    back: Content-Length == number of body bytes (checked inside wire_request), the body parses, and the value is the
    decoded window the statement requires.  Multi-byte and binary log contents, windows that cut characters."""
    rng = ctx.rng
    contents = ['aé€'.encode(), 'é'.encode() * 3, 'x\U0001f600y€'.encode(), b'a\xc3', b'\xe2\x82', b'\xff\xfeabc', 'plain ascii\n'.encode(),
                'ünïcödé log line\n'.encode() * 3]
    for _ in range(ctx.n(10, 150)):
        contents.append(gen_content(rng, rng.choice([1, 3, 8, 30])))
    for content in contents:
        n = len(content)
        windows = [(0, 0), (0, n), (1, max(1, n - 1)), (-2, 0), (n - 1, 5), (-1, 1)] + [(rand_int(rng, n), rand_int(rng, n)) for _ in range(2)]
        for off, ln in windows:
            for meth in ('readLog', 'readProcessStdoutLog', 'tailProcessStdoutLog'):
                rpc_wire_case(ctx, content, meth, off, ln)


def run_rpc_wire_big(ctx):
    """answers larger than the channel's 4096-byte output buffer and than the 64 KiB globbing buffer of the response chain:
    the response reaches the socket in many sends and more than one producer piece"""
    for n in ([5000, 70000, 140001] if ctx.tier == 'quick' else [4096, 5000, 65536, 70000, 140001, 200000]):
        content = pattern(0, n)
        rpc_wire_case(ctx, content, 'readLog', 0, 0)
        rpc_wire_case(ctx, content, 'readProcessStdoutLog', 1, n - 2)
        rpc_wire_case(ctx, content, 'tailProcessStdoutLog', 0, n)


def norm_cr(v):
    if isinstance(v, str):
        return v.replace('\r\n', '\n').replace('\r', '\n')
    if isinstance(v, list):
        return [norm_cr(x) for x in v]
    return v


def run(ctx):
    run_logread(ctx)
    run_rpclog(ctx)
    run_rpc_wire(ctx)
    run_rpc_wire_big(ctx)
    run_tailf(ctx)
    run_chunked(ctx)
    run_chain(ctx)
    run_outbuf(ctx)
    run_chanlog(ctx)


def replay(ctx, data):
    inp = data['input']
    part = inp.get('part', 'logread')
    if part == 'logread':
        path = os.path.join(ctx.scratch, 'log')
        content = bytes.fromhex(inp['content_hex']) if inp['content_hex'] != '-' else b''
        open(path, 'wb').write(content)
        line = impl_lines(path, content, [(inp['op'], inp['offset'], inp['length'])])[0]
        want = (spec_read if inp['op'] == 'read' else spec_tail)(content, inp['offset'], inp['length'])
        if line != want:
            ctx.violation(data.get('violation_kind', 'wrong-window'), 'required %s, observed %s' % (want, line), inp)
    elif part == 'rpclog':
        content = bytes.fromhex(inp['content_hex']) if inp['content_hex'] != '-' else b''
        rpc_one(ctx, inp['mood'], inp['log'], content, [(inp['method'], inp['name'] == 'grp:proc', inp['offset'], inp['length'])],
                os.path.join(ctx.scratch, 'rpclog'), [], [], force_xml=True)
    elif part == 'rpcwire':
        rpc_wire_case(ctx, bytes.fromhex(inp['content_hex']) if inp['content_hex'] != '-' else b'', inp['method'], inp['offset'], inp['length'])
    elif part == 'tailf':
        tailf_case(ctx, deser(inp['script']), inp['head'], 0)
    elif part == 'chain':
        chain_case(ctx, deser(inp['script']), 0, inp['main'])
    elif part == 'outbuf':
        off = [0]
        def piece(n):
            off[0] += n
            return pattern(off[0] - n, n)
        outbuf_case(ctx, inp['obs'], [None if a == 'nd' else b'' if a == 0 else piece(a) for a in inp['answers']], inp['accepts'])
    elif part == 'chanlog':
        chanlog_case(ctx, 0, inp['main'], inp['initial'], [tuple(o) for o in inp['script']])
    elif part == 'chunkenc':
        enc_case(ctx, [tuple([i[0]] + ([bytes.fromhex(i[1])] if i[0] == 'b' else i[1:])) for i in inp['items']])
    elif part == 'chunkdec':
        from supervisor.http import deferring_chunked_producer
        chunks = [bytes.fromhex(c) for c in inp['chunks']]
        prod = deferring_chunked_producer(Scripted(chunks + [b''] * 3))
        s = b''.join(prod.more() for _ in chunks) + (prod.more() if inp['close'] else b'')
        segs, i = [], 0
        for n in inp['cuts']:
            segs.append(s[i:i + n]); i += n
        il, lst = dec_case(ctx, segs, inp.get('socket', False))
        if b''.join(lst.fed) != b''.join(chunks):
            ctx.violation('client-reassembly-wrong', 'reassembled %r' % (b''.join(lst.fed)[:40],), inp)


# ---- MANIFEST metadata -----------------------------------------------------------------------
TECHNIQUE = ("Lean 4 theorems over models whose comparisons, offset arithmetic, chunk framing, fault tables and decode flags are "
             "regenerated from options.py/http.py/http_client.py/rpcinterface.py; refinement of the asynchat decoder loop to a "
             "byte-at-a-time automaton (fragmentation invariance); differential correspondence against the real functions and classes")
LEVEL_TEXT = ("readFile_spec/tailFile_spec for every content and every integer offset/length; the RPC wrappers answer NO_FILE/"
              "BAD_ARGUMENTS/the decoded window and never another exception, for every decoder (log_rpc_never_raises); "
              "tail_f_producer delivers exactly the appended bytes for every observation sequence with fixed inode and "
              "non-decreasing size and restarts at 0 after rotation/truncation (tailf_appends, tailf_restart_*); the client "
              "reassembles every chunk list under every fragmentation (chunk_roundtrip, decoder_fragmentation_invariant); the channel's "
              "output buffer neither loses, repeats nor reorders a byte for every producer answer list, buffer size and send-size schedule, "
              "and delivers everything once the socket keeps accepting (outbuf_conserves, outbuf_delivers_everything, logtail_stream_through_channel)")
LEVEL_NOTE = ("trusts Lean's kernel, extract.py, Python file/stat semantics, CPython formatting/int/find/split and the UTF-8 codec, "
              "asyncore socket plumbing; TCP is simulated by fragmentation; two open findings (XML-RPC transport of control characters / CR)")
DESIGN_REF = "DESIGN.md section 6, C16"
