"""
C13, last sentence, with the single-process call as the oracle (twin worlds).

Two identical little worlds (real SupervisorNamespaceRPCInterface, real ProcessGroup / Subprocess over proc_l1's scripted
system-call seam, virtual clock, scripted child deaths) run the same history.  At one step world A receives a group-wide request in
one of its public forms -- `startProcess('g:*', w)`, `startProcess('g:', w)`, `startProcessGroup('g', w)`, `startAllProcesses(w)` and the
same for stop / signal -- for both values of `wait`; world B receives, for each process of the scope in turn that is eligible at
that moment, the single-process request `startProcess('g:p', w)` (the same arguments).  Both are then polled once per main-loop
pass.  The monitors demand of A exactly what B reported: one entry per process B asked, with B's status and description; the answer
in the very invocation in which B's last single call answered (immediately when none of them deferred); the same forks and
signals; the same process states after every pass.
"""
import proc_l1

TICK = proc_l1.TICK
KINDS = ('start', 'stop', 'signal')
FORMS = ('star', 'empty', 'group', 'all')
MAX_INV = 40


class _Opt(proc_l1.ScriptedOptions):
    """per-process seam: fork hands out fresh pids (or fails as scripted), kill records and, if scripted, lets the child die"""
    def __init__(self, world, name):
        proc_l1.ScriptedOptions.__init__(self)
        self.world, self.name = world, name
        self.spawn = ('ok',)

    def make_pipes(self, stderr=True):
        return {'child_stdin': 3, 'stdin': 4, 'stdout': 5, 'child_stdout': 6, 'stderr': 7, 'child_stderr': 8}

    def fork(self):
        w = self.world
        prog = w.progs[self.name]
        n = w.nforks.get(self.name, 0)
        w.nforks[self.name] = n + 1
        fate = prog['fates'][min(n, len(prog['fates']) - 1)]
        if fate == 'forkerr':
            w.obs.append('forkerr:%s' % self.name)
            raise OSError(11, 'fork')
        w.nextpid += 1
        pid = w.nextpid
        w.obs.append('fork:%s' % self.name)
        w.live[pid] = self.name
        if fate == 'dies-at-once':
            w.dead.append((pid, 1 << 8))
        elif isinstance(fate, tuple):              # ('dies-after', ticks, exit code)
            w.timed.append((w.clock.t + fate[1], pid, fate[2] << 8))
        return pid

    def close_parent_pipes(self, pipes):
        pass

    def close_child_pipes(self, pipes):
        pass

    def kill(self, pid, sig):
        w = self.world
        w.obs.append('kill:%s:%d' % (w.live.get(abs(pid), '?'), int(sig)))
        prog = w.progs[self.name]
        if abs(pid) in w.live and (int(sig) == 9 or (prog['dies_on'] == 'any' and int(sig) not in (1, 10, 12, 18, 19))
                                   or (prog['dies_on'] == 'hup' and int(sig) in (1, 15))):
            if not any(p == abs(pid) for p, _ in w.dead):
                w.dead.append((abs(pid), int(sig)))


class _Supervisord(object):
    def __init__(self, world):
        self.world = world
        self.options = proc_l1.ScriptedOptions()
        self.process_groups = {}

    def get_state(self):
        return self.options.mood

    def reap(self, once=False, recursionguard=0):
        w = self.world
        while w.dead:
            pid, sts = w.dead.pop(0)
            name = w.live.pop(pid, None)
            if name is not None:
                p = w.procs[name]
                if p.pid == pid:
                    p.finish(pid, sts)


class World(object):
    """progs: [dict(group, name, prio, gprio, autostart, startsecs, startretries, autorestart, stopwaitsecs, dies_on, fates)]"""
    def __init__(self, progs):
        import supervisor.process as sp, supervisor.rpcinterface as ri, supervisor.events as ev
        from supervisor.options import ProcessConfig, ProcessGroupConfig
        from supervisor.datatypes import RestartUnconditionally, RestartWhenExitUnexpected
        self.clock = proc_l1.FakeTime()
        self.sp, self.ri = sp, ri
        self.progs = {p['name']: p for p in progs}
        self.nforks, self.live, self.dead, self.timed, self.obs, self.nextpid = {}, {}, [], [], [], 100
        self.supervisord = _Supervisord(self)
        self.procs = {}
        ev.clear()

        class PC(proc_l1.NoDispatchConfigMixin, ProcessConfig):
            pass
        bygroup = {}
        for p in progs:
            bygroup.setdefault(p['group'], []).append(p)
        for g, members in bygroup.items():
            pcs = []
            for p in members:
                ar = {'false': False, 'unexpected': RestartWhenExitUnexpected, 'true': RestartUnconditionally}[p['autorestart']]
                pcs.append(PC(_Opt(self, p['name']), name=p['name'], command='/bin/prog', directory=None, umask=None, priority=p['prio'],
                              autostart=p['autostart'], autorestart=ar, startsecs=p['startsecs'], startretries=p['startretries'], uid=None,
                              stdout_logfile=None, stdout_capture_maxbytes=0, stdout_events_enabled=False, stdout_syslog=False,
                              stdout_logfile_backups=0, stdout_logfile_maxbytes=0, stderr_logfile=None, stderr_capture_maxbytes=0,
                              stderr_logfile_backups=0, stderr_logfile_maxbytes=0, stderr_events_enabled=False, stderr_syslog=False,
                              stopsignal=15, stopwaitsecs=p['stopwaitsecs'], stopasgroup=False, killasgroup=False, exitcodes=[0],
                              redirect_stderr=False, environment={}, serverurl=None))
            gc = ProcessGroupConfig(self.supervisord.options, g, members[0]['gprio'], pcs)
            grp = gc.make_group()
            self.supervisord.process_groups[g] = grp
            for n, pr in grp.processes.items():
                self.procs[n] = pr
        self.rpc = ri.SupervisorNamespaceRPCInterface(self.supervisord)

    def use(self):
        self.sp.time = self.clock
        self.ri.time = self.clock

    def one_pass(self, dt):
        """what the main loop does between two polls of the channel: time passes, children die, transition, reap"""
        self.use()
        self.clock.t += dt
        for t, pid, sts in list(self.timed):
            if t <= self.clock.t:
                self.timed.remove((t, pid, sts))
                if pid in self.live:
                    self.dead.append((pid, sts))
        for g in sorted(self.supervisord.process_groups.values()):
            g.transition()
        self.supervisord.reap()

    def states(self):
        return ' '.join('%s=%s' % (n, proc_l1.STATE_NAMES.get(p.get_state())) for n, p in sorted(self.procs.items()))

    def scope(self, form, gname):
        """(group, process) pairs in the order the daemon handles them: groups and processes by priority"""
        groups = sorted(self.supervisord.process_groups.values()) if form == 'all' else [g for n, g in self.supervisord.process_groups.items() if n == gname]
        return [(g, p) for g in groups for p in sorted(g.processes.values())]


def _eligible(kind, state):
    from supervisor.states import RUNNING_STATES, SIGNALLABLE_STATES
    return {'start': state not in RUNNING_STATES, 'stop': state in RUNNING_STATES, 'signal': state in SIGNALLABLE_STATES}[kind]


def _group_call(w, kind, form, gname, arg):
    m = {'start': 'startProcess', 'stop': 'stopProcess', 'signal': 'signalProcess'}[kind]
    if form in ('star', 'empty'):
        return getattr(w.rpc, m)(gname + (':*' if form == 'star' else ':'), arg)
    if form == 'group':
        return getattr(w.rpc, m + 'Group')(gname, arg)
    return getattr(w.rpc, {'start': 'startAllProcesses', 'stop': 'stopAllProcesses', 'signal': 'signalAllProcesses'}[kind])(arg)


def _single(w, kind, ns, arg):
    """-> ('done', (status, description)) | ('pending', callback)"""
    import types
    from supervisor.xmlrpc import RPCError, Faults
    m = {'start': 'startProcess', 'stop': 'stopProcess', 'signal': 'signalProcess'}[kind]
    try:
        v = getattr(w.rpc, m)(ns, arg)
    except RPCError as e:
        return ('done', (e.code, e.text))
    if isinstance(v, types.FunctionType):
        return ('pending', v)
    return ('done', (Faults.SUCCESS, 'OK'))


def _poll_single(cb):
    from supervisor.xmlrpc import RPCError, Faults
    from supervisor.http import NOT_DONE_YET
    try:
        v = cb()
    except RPCError as e:
        return (e.code, e.text)
    return None if v is NOT_DONE_YET else (Faults.SUCCESS, 'OK')


def run_twin(case):
    """case: dict(progs, warmup=[dt...], kind, form, group, arg, after=[dt...]) -> facts"""
    from supervisor.xmlrpc import RPCError
    from supervisor.http import NOT_DONE_YET
    A, B = World(case['progs']), World(case['progs'])
    facts = dict(states=[], refused=None)
    for dt in case['warmup']:
        A.one_pass(dt); B.one_pass(dt)
    facts['states_at_call'] = A.states()
    if A.states() != B.states() or A.obs != B.obs:
        facts['rig'] = 'the two worlds differ before the call'
        return facts
    a0, b0 = len(A.obs), len(B.obs)
    kind, form, gname, arg = case['kind'], case['form'], case['group'], case['arg']
    # ---- world A: the group-wide request; invocation 1 of the deferred function at once, then one per pass
    A.use()
    fa, a_answer, a_inv = None, None, None
    try:
        fa = _group_call(A, kind, form, gname, arg)
    except RPCError as e:
        facts['refused'] = (e.code, e.text)
    if fa is not None and not callable(fa):        # the signal forms answer with the list itself
        a_answer, a_inv, fa = fa, 1, None
    # ---- world B: the single requests, in the daemon's order, for the processes eligible when their turn comes
    B.use()
    pending, b_entries, asked, b_inv = [], [], [], None
    if facts['refused'] is None:
        for g, p in B.scope(form, gname):
            if _eligible(kind, p.get_state()):
                ns = '%s:%s' % (g.config.name, p.config.name)
                asked.append(ns)
                r = _single(B, kind, ns, arg)
                if r[0] == 'done':
                    b_entries.append((g.config.name, p.config.name) + r[1])
                else:
                    pending.append((g.config.name, p.config.name, r[1]))
    after = list(case['after'])
    for inv in range(1, MAX_INV + 1):
        if inv > 1:
            dt = after.pop(0) if after else 1024
            A.one_pass(dt); B.one_pass(dt)
        if fa is not None and a_answer is None:
            A.use()
            try:
                v = fa()
            except Exception as ex:
                v = 'exception %s' % type(ex).__name__
            if v is not NOT_DONE_YET:
                a_answer, a_inv = v, inv
        if b_inv is None:
            B.use()
            for item in pending[:]:
                r = _poll_single(item[2])
                if r is not None:
                    pending.remove(item)
                    b_entries.append((item[0], item[1]) + r)
            if not pending:
                b_inv = inv
        facts['states'].append((A.states(), B.states()))
        if (a_answer is not None or facts['refused'] is not None) and b_inv is not None and not after:
            break
    facts.update(asked=asked, a_answer=a_answer, a_inv=a_inv, b_entries=b_entries, b_inv=b_inv, a_obs=A.obs[a0:], b_obs=B.obs[b0:],
                 nforks=len([o for o in A.obs if o.startswith('fork:')]))
    return facts


def monitor(ctx, case, facts, inp):
    what = '%s %s(%s, %r)' % (case['kind'], case['form'], case['group'], case['arg'])
    def bad(kind, text):
        ctx.violation('group-twin-' + kind, '%s with the processes %s: %s' % (what, facts.get('states_at_call'), text), inp)
    if facts.get('rig'):
        raise AssertionError(facts['rig'])
    known = case['group'] in set(p['group'] for p in case['progs'])
    if facts['refused'] is not None:
        if known or case['form'] == 'all':
            bad('refused', 'refused as a whole with %r' % (facts['refused'],))
        elif facts['refused'][0] != 10:
            bad('unknown-group-answer', 'answered %r for a group that does not exist (BAD_NAME expected)' % (facts['refused'],))
        return
    if not known and case['form'] != 'all':
        bad('unknown-group-served', 'a group that does not exist was served')
        return
    ans = facts['a_answer']
    if not isinstance(ans, list) or any(not isinstance(e, dict) for e in ans):
        bad('no-answer', 'answer %r after %d invocations; the single calls had all answered at invocation %r' % (ans, MAX_INV, facts['b_inv']))
        return
    got = sorted((e.get('group'), e.get('name'), e.get('status'), e.get('description')) for e in ans)
    want = sorted(facts['b_entries'])
    if [x[:2] for x in got] != [x[:2] for x in want]:
        bad('entries-not-one-per-eligible', 'entries for %r, the eligible processes (asked one by one) were %r' % ([x[:2] for x in got], facts['asked']))
    elif got != want:
        bad('status-differs-from-single-call', 'entries %r, the single-process calls with the same arguments reported %r' % (got, want))
    if facts['a_inv'] != facts['b_inv']:
        bad('answer-time-differs-from-single-calls',
            'answered at poll %r, the single-process calls with the same arguments had all answered at poll %r%s'
            % (facts['a_inv'], facts['b_inv'], ' (none of them deferred its answer)' if facts['b_inv'] == 1 else ''))
    if facts['a_obs'] != facts['b_obs']:
        bad('acts-differ-from-single-calls', 'forks / signals %r, with the single-process calls %r' % (facts['a_obs'], facts['b_obs']))
    elif any(a != b for a, b in facts['states']):
        a, b = next((a, b) for a, b in facts['states'] if a != b)
        bad('states-differ-from-single-calls', 'process states %s, with the single-process calls %s' % (a, b))


# ---------------------------------------------------------------------------------------------- populations

def prog(name, group='g', **kw):
    d = dict(group=group, name=name, prio=999, gprio=999, autostart=True, startsecs=1, startretries=3, autorestart='unexpected',
             stopwaitsecs=1, dies_on='any', fates=['lives'])
    d.update(kw)
    return d


def corpus():
    # seeded change C13-9: two members not started yet, startsecs 2, one dies 0.4 s after the fork; start g:* / g: without waiting
    progs = [prog('ok', autostart=False, startsecs=2), prog('flaky', autostart=False, startsecs=2, fates=[('dies-after', 410, 1)])]
    for form in FORMS:
        for w in (False, True):
            yield dict(progs=progs, warmup=[1024], kind='start', form=form, group='g', arg=w, after=[256] * 10)
    progs = [prog('a'), prog('b', dies_on='kill', stopwaitsecs=2), prog('c', group='h', gprio=5)]
    for kind in ('stop', 'signal'):
        for form in FORMS:
            for arg in ((False, True) if kind == 'stop' else ('HUP', 'USR1')):
                yield dict(progs=progs, warmup=[1024, 2048], kind=kind, form=form, group='g', arg=arg, after=[512] * 8)


def gen_case(rng):
    n = rng.choice([1, 2, 2, 3, 3, 4])
    progs = []
    for i in range(n):
        fates = []
        for _ in range(rng.choice([1, 2, 3])):
            r = rng.random()
            fates.append('lives' if r < 0.45 else 'dies-at-once' if r < 0.6 else 'forkerr' if r < 0.68 else
                         ('dies-after', rng.choice([100, 410, 900, 1500, 2600, 5000]), rng.choice([0, 1])))
        progs.append(prog('p%d' % i, group=rng.choice(['g', 'g', 'h']), prio=rng.choice([1, 999, 999]), autostart=rng.random() < 0.6,
                          startsecs=rng.choice([0, 1, 1, 2, 3]), startretries=rng.choice([0, 1, 3]),
                          autorestart=rng.choice(['false', 'unexpected', 'true']), stopwaitsecs=rng.choice([1, 2]),
                          dies_on=rng.choice(['any', 'any', 'kill', 'hup']), fates=fates))
    gp = {'g': 999, 'h': rng.choice([5, 999, 1500])}
    for p in progs:
        p['gprio'] = gp[p['group']]
    kind = rng.choice(KINDS)
    arg = rng.random() < 0.5 if kind != 'signal' else rng.choice(['HUP', 'USR1', '15', 'KILL'])
    return dict(progs=progs, warmup=[rng.choice([256, 512, 1024, 2048]) for _ in range(rng.choice([0, 1, 2, 3, 5]))], kind=kind,
                form=rng.choice(FORMS), group=rng.choice([p['group'] for p in progs] * 6 + ['nosuch']), arg=arg,
                after=[rng.choice([256, 512, 1024, 1024, 2048]) for _ in range(rng.choice([2, 4, 8]))])


def population(ctx):
    for c in corpus():
        yield 'corpus', c
    for _ in range(ctx.n(250, 4000)):
        c = gen_case(ctx.rng)
        # every generated history is delivered in every public form and (start / stop) with both values of wait
        for form in FORMS:
            for arg in ((False, True) if c['kind'] != 'signal' else (c['arg'],)):
                yield 'random', dict(c, form=form, arg=arg)


def case_key(case):
    return 'twin %s %s %s %r | %s | %r %r' % (case['kind'], case['form'], case['group'], case['arg'], ' '.join(
        '%(group)s:%(name)s/%(prio)s/%(gprio)s/%(autostart)d/%(startsecs)s/%(startretries)s/%(autorestart)s/%(stopwaitsecs)s/%(dies_on)s/' % p
        + ','.join(str(f) for f in p['fates']) for p in case['progs']), case['warmup'], case['after'])


def run_case(ctx, case, origin):
    import supervisor.process as sp, supervisor.rpcinterface as ri, supervisor.events as ev
    saved = sp.time, ri.time
    try:
        facts = run_twin(case)
    finally:
        sp.time, ri.time = saved
        ev.clear()
    monitor(ctx, case, facts, dict(group_twin=case))
    ctx.count('twin:origin:' + origin)
    ctx.count('twin:%s:%s:%r' % (case['kind'], case['form'], case['arg'] if case['kind'] != 'signal' else 'sig'))
    if facts.get('refused') is None and facts.get('b_inv') is not None:
        ctx.count('twin:answered-' + ('at-once' if facts['b_inv'] == 1 else 'later'))
        ctx.count('twin:asked=%d' % min(len(facts['asked']), 4))
        for e in facts['b_entries']:
            ctx.count('twin:status:%s' % e[2])
    ctx.case_done(case_key(case), nontrivial=bool(facts.get('asked')))


def run(ctx):
    for origin, case in population(ctx):
        run_case(ctx, case, origin)


def replay(ctx, data):
    case = data['input']['group_twin']
    case = dict(case, progs=[dict(p, fates=[tuple(f) if isinstance(f, list) else f for f in p['fates']]) for p in case['progs']])
    run_case(ctx, case, 'replay')
