import SupervisorModel.Basic.Bytes
/-
  Text of an XML-RPC response body: a Python `str` is a list of code points; `as_bytes` /
  `str.encode('utf-8')` is `utf8Of`.  Used by the generated definitions of the response builders
  (Generated/Rpc.lean) and by Model/Rpc.lean.
-/
namespace Sv.Rpc

/-- UTF-8 encoding of one code point -/
def utf8Char (c : Char) : Bytes :=
  let n := c.toNat
  if n < 0x80 then [UInt8.ofNat n]
  else if n < 0x800 then [UInt8.ofNat (0xC0 + n / 64), UInt8.ofNat (0x80 + n % 64)]
  else if n < 0x10000 then
    [UInt8.ofNat (0xE0 + n / 4096), UInt8.ofNat (0x80 + n / 64 % 64), UInt8.ofNat (0x80 + n % 64)]
  else
    [UInt8.ofNat (0xF0 + n / 262144), UInt8.ofNat (0x80 + n / 4096 % 64), UInt8.ofNat (0x80 + n / 64 % 64),
     UInt8.ofNat (0x80 + n % 64)]

/-- `as_bytes(text)` -/
def utf8Of (s : List Char) : Bytes := s.flatMap utf8Char

end Sv.Rpc
