import SupervisorModel.Model.Reread
/-
  Line protocol for C15:  case reread <old config tokens> -- <new config tokens>   (tokens as in ConfigIO, plus
  C=<hex working directory at the time of that parse>)
  ops: diff | calls <hex group name>* | callsf <hex,hex|-> <hex group name>* | after <hex group name>*
  A file that cannot be parsed answers `CANT_REREAD`, or `exc <class>` when the class that leaves process_config is not
  one reloadConfig turns into that fault.
-/
namespace Sv.Reread
open Sv.Config

def splitAt2 (sep : String) : List String → List String → List String × List String
  | acc, [] => (acc.reverse, [])
  | acc, t :: r => if t == sep then (acc.reverse, r) else splitAt2 sep (t :: acc) r

def namesS (l : List String) : String := if l.isEmpty then "-" else ",".intercalate (l.map hexS)

def callS : Call → String
  | .stop g => "stop:" ++ hexS g
  | .remove g => "remove:" ++ hexS g
  | .add g => "add:" ++ hexS g

def decodeArgs (l : List String) : Option (List String) := l.mapM strOfHex

/-- the C= token (working directory of that parse; "" when absent) and the remaining tokens -/
def takeCwd (toks : List String) : Option (String × List String) :=
  let cs := toks.filter (strStartsWith "C=")
  let rest := toks.filter fun t => !strStartsWith "C=" t
  match cs with
  | [] => some ("", rest)
  | [c] => (strOfHex (String.ofList (c.toList.drop 2))).map fun d => (d, rest)
  | _ => none

/-- tokens ↦ outcome of process_config(do_usage=False) in the working directory they name -/
def parseToks (toks : List String) : Option (Except String (List GConfig)) :=
  match takeCwd toks with
  | none => none
  | some (cwd, rest) =>
    match parseIni rest emptyIni with
    | none => none
    | some ini => some (parseAt cwd ini)

def outcomeS : Outcome → String
  | .fault .cantReread => "CANT_REREAD"
  | .fault .badName => "BAD_NAME" | .fault .alreadyAdded => "ALREADY_ADDED" | .fault .stillRunning => "STILL_RUNNING"
  | .escapes c => "exc " ++ c

def runCase (cfg : List String) (ops : List String) : List String :=
  let parts := splitAt2 "--" [] cfg
  match parseToks parts.1, parseToks parts.2 with
  | some oldParsed, some parsed =>
    match oldParsed with
    | .error _ => ops.map fun _ => "bad-config"
    | .ok oldGroups =>
      -- the daemon runs the old file: every group active, every process running
      let st : State := { file := oldGroups,
                          active := oldGroups.map fun g => { cfg := g, procs := g.procs.map fun p => { name := p.name, pid := 1, stopped := false } } }
      let r := reloadConfig st (match parsed with | .ok g => .ok g | .error e => .error e)
      let failed : String := match parsed with | .error e => outcomeS (rereadUnparsable st e).1 | .ok _ => "CANT_REREAD"
      ops.map fun op =>
        match words op with
        | ["diff"] =>
          match r.1 with
          | .ok (a, c, rm) => s!"added={namesS a} changed={namesS c} removed={namesS rm}"
          | .error _ => failed
        | "calls" :: args =>
          match decodeArgs args, r.1 with
          | some as, .ok (a, c, rm) => " ".intercalate ((updateCalls (validNames as) [] a c rm).map callS)
          | some _, .error _ => failed
          | none, _ => "bad-op"
        | "callsf" :: fl :: args =>
          -- fl: comma-separated hex names of the groups whose stop reports a failure ("-" for none)
          match decodeArgs (if fl == "-" then [] else fl.splitOn ","), decodeArgs args, r.1 with
          | some fs, some as, .ok (a, c, rm) => " ".intercalate ((updateCalls (validNames as) fs a c rm).map callS)
          | some _, some _, .error _ => failed
          | _, _, _ => "bad-op"
        | "after" :: args =>
          match decodeArgs args, parsed with
          | some as, .ok new => namesS ((doUpdate st new as).active.map (·.cfg.name))
          | some _, .error _ => namesS (r.2.active.map (·.cfg.name))
          | none, _ => "bad-op"
        | _ => "bad-op"
  | _, _ => ops.map fun _ => "bad-config"

/-! ## histories:  case history <tokens of the file the daemon started with>
    ops (each answered with `<answer> | file=<digest> | active=<digest>`):
      reread T <tokens>                      reloadConfig with the file now on disk
      update <hex,hex|-> T <tokens>          supervisorctl update [names] (it rereads first)
      remove <hex> / add <hex>               removeProcessGroup / addProcessGroup
    In a history no process is ever started, so every stop completes trivially. -/

def optIntS : Option Int → String
  | none => "None"
  | some n => toString n

/-- the socket options of an fcgi group beside its url (backlog, mode; the owner is determined by the processes' uid) -/
def sockExtra (g : GConfig) : String :=
  match g.kind with
  | .fcgi => " backlog=" ++ optIntS g.socket_backlog ++ " mode=" ++ optIntS g.socket_mode
  | _ => ""

def cfgDigest (g : GConfig) : String := groupLine g ++ sockExtra g ++ ";" ++ ";".intercalate (g.procs.map procLine)
def listDigest (l : List GConfig) : String := if l.isEmpty then "-" else "#".intercalate (l.map cfgDigest)
def stateLine (ans : String) (s : State) : String :=
  ans ++ " | file=" ++ listDigest s.file ++ " | active=" ++ listDigest (s.active.map (·.cfg))

def faultS : Fault → String
  | .cantReread => "CANT_REREAD" | .badName => "BAD_NAME" | .alreadyAdded => "ALREADY_ADDED" | .stillRunning => "STILL_RUNNING"

def parseGroups (toks : List String) : Option (Except String (List GConfig)) := parseToks toks

def histStep (s : State) (op : String) : String × State :=
  match words op with
  | "reread" :: "T" :: toks =>
    match parseGroups toks with
    | none => ("bad-op", s)
    | some parsed =>
      let r := reloadConfig s parsed
      match r.1, parsed with
      | .ok (a, c, rm), _ => (stateLine s!"added={namesS a} changed={namesS c} removed={namesS rm}" r.2, r.2)
      | .error _, .error e => (stateLine (outcomeS (rereadUnparsable s e).1) r.2, r.2)
      | .error f, .ok _ => (stateLine (faultS f) r.2, r.2)
  | "update" :: al :: "T" :: toks =>
    match decodeArgs (if al == "-" then [] else al.splitOn ","), parseGroups toks with
    | some args, some (.ok new) => let s' := doUpdate s new args; (stateLine "ok" s', s')
    | some _, some (.error e) => (stateLine (outcomeS (rereadUnparsable s e).1) s, s)
    | _, _ => ("bad-op", s)
  | ["remove", h] =>
    match strOfHex h with
    | none => ("bad-op", s)
    | some g => let r := removeProcessGroup s g
                (stateLine (match r.1 with | .ok _ => "ok" | .error f => faultS f) r.2, r.2)
  | ["add", h] =>
    match strOfHex h with
    | none => ("bad-op", s)
    | some g => let r := addProcessGroup s g
                (stateLine (match r.1 with | .ok _ => "ok" | .error f => faultS f) r.2, r.2)
  | _ => ("bad-op", s)

def histRun : State → List String → List String
  | _, [] => []
  | s, op :: rest => let r := histStep s op; r.1 :: histRun r.2 rest

def runHistory (cfg : List String) (ops : List String) : List String :=
  match parseGroups cfg with
  | some (.ok gs) => histRun { file := gs, active := gs.map fun g => { cfg := resolveCfg g, procs := freshProcs g } } ops
  | _ => ops.map fun _ => "bad-config"

end Sv.Reread
