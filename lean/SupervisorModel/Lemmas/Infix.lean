import SupervisorModel.Model.OutDisp
import SupervisorModel.Lemmas.OutDispMain
/-
  Helper lemmas for C07/C08: first-occurrence search (`splitFirst` = `data.split(token, 1)`),
  the longest token prefix at the end of a buffer (`pae`, the specification of medusa's
  `find_prefix_at_end`), the key lemma `splitFirst_append` (a buffer in which the token does
  not occur only matters through its last `pae` bytes), and the bridge from the modelled loop
  `findPrefixAtEnd` (regenerated guard/arithmetic) to `pae`.  Core Lean only.
-/
set_option linter.unusedSimpArgs false
namespace Sv.OutDisp
open Sv.Gen.OutDisp

/-- largest l in [1, n] with hay.endswith(tok[:l]), else 0 -/
def pae.go (hay tok : Bytes) : Nat → Nat
  | 0 => 0
  | l+1 => if (tok.take (l+1)).isSuffixOf hay then l+1 else pae.go hay tok l
def pae (hay tok : Bytes) : Nat := pae.go hay tok (tok.length - 1)

theorem pae_go_le (hay tok : Bytes) (n : Nat) : pae.go hay tok n ≤ n := by
  induction n with
  | zero => simp [pae.go]
  | succ l ih => unfold pae.go; split <;> omega

theorem pae_go_max (hay tok : Bytes) (n l : Nat) (h1 : l ≤ n)
    (hs : (tok.take l).isSuffixOf hay = true) : l ≤ pae.go hay tok n := by
  induction n with
  | zero => omega
  | succ m ih =>
    unfold pae.go
    by_cases hl : l = m + 1
    · subst hl; simp [hs]
    · split
      · omega
      · exact ih (by omega)

theorem pae_le_tok (hay tok : Bytes) : pae hay tok ≤ tok.length - 1 := pae_go_le _ _ _
theorem pae_max (hay tok : Bytes) (l : Nat) (h1 : l ≤ tok.length - 1)
    (hs : (tok.take l).isSuffixOf hay = true) : l ≤ pae hay tok := pae_go_max hay tok _ l h1 hs

theorem pae_go_spec (hay tok : Bytes) (n : Nat) :
    (tok.take (pae.go hay tok n)).isSuffixOf hay = true := by
  induction n with
  | zero => simp [pae.go]
  | succ m ih =>
    unfold pae.go
    split
    · assumption
    · exact ih

theorem pae_spec (hay tok : Bytes) : (tok.take (pae hay tok)).isSuffixOf hay = true := pae_go_spec _ _ _
theorem pae_le_length (hay tok : Bytes) : pae hay tok ≤ hay.length := by
  have h := pae_spec hay tok
  rw [List.isSuffixOf_iff_suffix] at h
  have h2 := h.length_le
  have h3 : pae hay tok ≤ tok.length := by
    have := pae_go_le hay tok (tok.length - 1); unfold pae; omega
  rw [List.length_take] at h2
  omega

theorem splitFirstGo_none_cons {tok : Bytes} {c : UInt8} {xs : Bytes}
    (h : splitFirstGo tok (c :: xs) = none) :
    tok.isPrefixOf (c :: xs) = false ∧ splitFirstGo tok xs = none := by
  unfold splitFirstGo at h
  split at h
  · simp at h
  · rename_i hp
    simp at h
    refine ⟨?_, h⟩
    cases hb : tok.isPrefixOf (c :: xs)
    · rfl
    · exact absurd hb hp

/-- if tok is a prefix of x ++ y but not of x, then x is a proper prefix of tok -/
theorem prefix_append_cases {tok x y : Bytes}
    (h : tok.isPrefixOf (x ++ y) = true) (hn : tok.isPrefixOf x = false) :
    x.length < tok.length ∧ tok.take x.length = x := by
  rw [List.isPrefixOf_iff_prefix] at h
  have hn' : ¬ tok <+: x := by
    intro hp; rw [← List.isPrefixOf_iff_prefix] at hp; simp [hp] at hn
  obtain ⟨t, ht⟩ := h
  by_cases hl : tok.length ≤ x.length
  · exfalso; apply hn'
    have : tok = (x ++ y).take tok.length := by rw [← ht]; simp
    rw [List.take_append_of_le_length hl] at this
    exact this ▸ List.take_prefix _ _
  · constructor
    · omega
    · have : (tok ++ t).take x.length = (x ++ y).take x.length := by rw [ht]
      rw [List.take_append_of_le_length (by omega)] at this
      simpa using this

/-- Key lemma: token absent from x ⇒ searching x ++ y only needs the last `pae x tok` bytes of x -/
theorem splitFirstGo_append (tok : Bytes) (x y : Bytes)
    (h : splitFirstGo tok x = none) :
    splitFirstGo tok (x ++ y) =
      (splitFirstGo tok (x.drop (x.length - pae x tok) ++ y)).map
        (fun ba => (x.take (x.length - pae x tok) ++ ba.1, ba.2)) := by
  induction x with
  | nil => simp [pae]
  | cons c xs ih =>
    obtain ⟨hnp, hxs⟩ := splitFirstGo_none_cons h
    have ihx := ih hxs
    by_cases hk : pae (c :: xs) tok = (c :: xs).length
    · simp [hk]
    · have hle : pae (c :: xs) tok ≤ (c :: xs).length := pae_le_length _ _
      have hkle : pae (c :: xs) tok ≤ xs.length := by
        simp at hle hk; omega
      have hkeq : pae (c :: xs) tok = pae xs tok := by
        apply Nat.le_antisymm
        · apply pae_max
          · exact pae_le_tok _ _
          · have := pae_spec (c :: xs) tok
            rw [List.isSuffixOf_iff_suffix] at this ⊢
            rcases List.suffix_cons_iff.1 this with h1 | h1
            · exfalso
              have : (tok.take (pae (c :: xs) tok)).length = (c :: xs).length := by rw [h1]
              rw [List.length_take] at this
              simp at this hk; omega
            · exact h1
        · apply pae_max
          · exact pae_le_tok _ _
          · have := pae_spec xs tok
            rw [List.isSuffixOf_iff_suffix] at this ⊢
            exact List.suffix_cons_iff.2 (Or.inr this)
      have hnp' : tok.isPrefixOf (c :: xs ++ y) = false := by
        cases hb : tok.isPrefixOf (c :: xs ++ y)
        · rfl
        · exfalso
          obtain ⟨hl, ht⟩ := prefix_append_cases hb hnp
          have : (c :: xs).length ≤ pae (c :: xs) tok := by
            apply pae_max
            · omega
            · rw [ht]; simp
          omega
      have e1 : (c :: xs).length - pae (c :: xs) tok = (xs.length - pae xs tok) + 1 := by
        simp; omega
      rw [e1]
      simp only [List.take_succ_cons, List.drop_succ_cons, List.cons_append]
      rw [List.cons_append] at hnp'
      rw [splitFirstGo, if_neg (by simp [hnp']), ihx]
      cases splitFirstGo tok (List.drop (xs.length - pae xs tok) xs ++ y) <;> simp

/-- a found token lies inside the searched buffer: `x = before ++ tok ++ after` -/
theorem splitFirstGo_some_eq {tok x b a : Bytes} (h : splitFirstGo tok x = some (b, a)) :
    x = b ++ tok ++ a := by
  induction x generalizing b with
  | nil => simp [splitFirstGo] at h
  | cons c xs ih =>
    unfold splitFirstGo at h
    split at h
    · rename_i hp
      simp at h
      obtain ⟨rfl, rfl⟩ := h
      rw [List.isPrefixOf_iff_prefix] at hp
      obtain ⟨t, ht⟩ := hp
      rw [← ht]; simp
    · cases hr : splitFirstGo tok xs with
      | none => simp [hr] at h
      | some ba =>
        obtain ⟨b', a'⟩ := ba
        simp [hr] at h
        obtain ⟨rfl, rfl⟩ := h
        have := ih hr
        simp [this]

theorem splitFirstGo_some_append {tok x b a : Bytes} (y : Bytes)
    (h : splitFirstGo tok x = some (b, a)) :
    splitFirstGo tok (x ++ y) = some (b, a ++ y) := by
  induction x generalizing b with
  | nil => simp [splitFirstGo] at h
  | cons c xs ih =>
    have hx := splitFirstGo_some_eq h
    unfold splitFirstGo at h
    split at h
    · rename_i hp
      simp at h
      obtain ⟨rfl, rfl⟩ := h
      have hp2 : tok.isPrefixOf (c :: xs ++ y) = true := by
        rw [List.isPrefixOf_iff_prefix] at hp ⊢
        exact hp.trans (List.prefix_append _ _)
      have hl : tok.length ≤ (c :: xs).length := by
        rw [List.isPrefixOf_iff_prefix] at hp; exact hp.length_le
      rw [List.cons_append] at hp2
      rw [List.cons_append, splitFirstGo, if_pos hp2, ← List.cons_append,
        List.drop_append_of_le_length hl]
    · rename_i hp
      cases hr : splitFirstGo tok xs with
      | none => simp [hr] at h
      | some ba =>
        obtain ⟨b', a'⟩ := ba
        simp [hr] at h
        obtain ⟨rfl, rfl⟩ := h
        have hnp : tok.isPrefixOf (c :: xs ++ y) = false := by
          cases hb : tok.isPrefixOf (c :: xs ++ y)
          · rfl
          · exfalso
            have hf : tok.isPrefixOf (c :: xs) = false := by
              cases hq : tok.isPrefixOf (c :: xs)
              · rfl
              · exact absurd hq hp
            obtain ⟨hl, _⟩ := prefix_append_cases hb hf
            have := congrArg List.length hx
            simp at this hl
            omega
        rw [List.cons_append] at hnp
        rw [List.cons_append, splitFirstGo, if_neg (by simp [hnp]), ih hr]
        simp

theorem splitFirstGo_none_drop {tok x : Bytes} (k : Nat) (h : splitFirstGo tok x = none) :
    splitFirstGo tok (x.drop k) = none := by
  induction k generalizing x with
  | zero => simpa using h
  | succ k ih =>
    cases x with
    | nil => simp [splitFirstGo]
    | cons c xs =>
      simp only [List.drop_succ_cons]
      exact ih (splitFirstGo_none_cons h).2

/-! lifted to `splitFirst` (which answers `none` for an empty token) -/

theorem splitFirst_some_eq {tok x b a : Bytes} (h : splitFirst tok x = some (b, a)) :
    x = b ++ tok ++ a ∧ tok ≠ [] := by
  unfold splitFirst at h
  split at h
  · simp at h
  · rename_i ht
    exact ⟨splitFirstGo_some_eq h, by intro e; simp [e] at ht⟩

theorem splitFirst_some_length {tok x b a : Bytes} (h : splitFirst tok x = some (b, a)) :
    a.length < x.length := by
  obtain ⟨hx, ht⟩ := splitFirst_some_eq h
  have := congrArg List.length hx
  have : 0 < tok.length := List.length_pos_iff.2 ht
  simp at *; omega

theorem splitFirst_some_append {tok x b a : Bytes} (y : Bytes) (h : splitFirst tok x = some (b, a)) :
    splitFirst tok (x ++ y) = some (b, a ++ y) := by
  unfold splitFirst at h ⊢
  split at h
  · simp at h
  · rename_i ht; rw [if_neg ht]; exact splitFirstGo_some_append y h

theorem splitFirst_none_drop {tok x : Bytes} (k : Nat) (h : splitFirst tok x = none) :
    splitFirst tok (x.drop k) = none := by
  unfold splitFirst at h ⊢
  split
  · rfl
  · rename_i ht; rw [if_neg ht] at h; exact splitFirstGo_none_drop k h

theorem splitFirst_nil (tok : Bytes) : splitFirst tok [] = none := by
  unfold splitFirst; split <;> simp [splitFirstGo]

theorem splitFirst_append {tok : Bytes} (x y : Bytes) (h : splitFirst tok x = none) (ht : tok ≠ []) :
    splitFirst tok (x ++ y) =
      (splitFirst tok (x.drop (x.length - pae x tok) ++ y)).map
        (fun ba => (x.take (x.length - pae x tok) ++ ba.1, ba.2)) := by
  have hte : tok.isEmpty = false := by cases tok <;> simp_all
  unfold splitFirst at h ⊢
  rw [hte] at h ⊢
  simp only [Bool.false_eq_true, if_false] at h ⊢
  exact splitFirstGo_append tok x y h

/-! bridge: the modelled `find_prefix_at_end` loop computes `pae` -/

theorem fpaeLoop_eq (hay tok : Bytes) (n k : Nat) (hk : k ≤ n) (hkt : k ≤ tok.length) :
    fpaeLoop hay tok n (k : Int) = (pae.go hay tok k : Int) := by
  induction n generalizing k with
  | zero =>
    have : k = 0 := by omega
    subst this; simp [fpaeLoop, pae.go]
  | succ n ih =>
    cases k with
    | zero => simp [fpaeLoop, pae.go, fpae_g0, fpae_a2]
    | succ j =>
      have e : Py.sliceTo tok ((j + 1 : Nat) : Int) = tok.take (j + 1) := by
        unfold Py.sliceTo Py.normIdx
        have : ¬ (((j + 1 : Nat) : Int) < 0) := by omega
        rw [if_neg this]
        congr 1
        have : (((j + 1 : Nat) : Int)).toNat = j + 1 := by omega
        rw [this]; omega
      unfold fpaeLoop pae.go
      simp only [fpae_g0, fpae_a1, fpae_a2, Py.endswith, e]
      by_cases hs : (tok.take (j + 1)).isSuffixOf hay = true
      · simp [hs]
      · have hs' : (tok.take (j + 1)).isSuffixOf hay = false := by
          cases hq : (tok.take (j + 1)).isSuffixOf hay
          · rfl
          · exact absurd hq hs
        have hne : (((j + 1 : Nat) : Int) != 0) = true := by simp; omega
        rw [hs', hne]
        simp only [Bool.not_false, Bool.and_self, if_true, Bool.false_eq_true, if_false]
        have : ((j + 1 : Nat) : Int) - 1 = (j : Int) := by omega
        rw [this]
        exact ih j (by omega) (by omega)

theorem findPrefixAtEnd_eq (hay tok : Bytes) (ht : tok ≠ []) :
    findPrefixAtEnd hay tok = (pae hay tok : Int) := by
  unfold findPrefixAtEnd pae
  have hl : 0 < tok.length := List.length_pos_iff.2 ht
  have : fpae_a0 hay tok 0 = ((tok.length - 1 : Nat) : Int) := by simp [fpae_a0]; omega
  rw [this]
  exact fpaeLoop_eq hay tok tok.length (tok.length - 1) (by omega) (by omega)

end Sv.OutDisp
