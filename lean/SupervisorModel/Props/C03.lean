-- stub: replaced by the property author
namespace Sv.Props.C03
end Sv.Props.C03
