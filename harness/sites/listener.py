"""PEventListenerDispatcher.handle_listener_state_change / handle_result, PInputDispatcher, Subprocess.write
(supervisor/dispatchers.py, supervisor/process.py): protocol tokens, listener state codes, every guard and
slice/arithmetic expression of the parser."""
import os
from extract import Site, lean_bytes

LEAN_MODULE = 'Listener'
IMPORTS = []
OPENS = []


def TABLES():
    from supervisor import dispatchers, states
    import errno
    D = dispatchers.PEventListenerDispatcher
    out = []
    out.append('-- supervisor/states.py EventListenerStates (every member, in code order)')
    members = sorted(((v, k) for k, v in vars(states.EventListenerStates).items() if not k.startswith('_')))
    out.append('inductive LS where')
    for v, k in members:
        out.append('  | %s' % k)
    out.append('deriving DecidableEq, Repr, Inhabited')
    out.append('def LS.code : LS → Int')
    for v, k in members:
        out.append('  | .%s => %d' % (k, v))
    out.append('def LS.name : LS → String')
    for v, k in members:
        out.append('  | .%s => "%s"' % (k, states.getEventListenerStateDescription(v)))
    out.append('def LS.all : List LS := [%s]' % ', '.join('.' + k for v, k in members))
    out.append('-- supervisor/dispatchers.py PEventListenerDispatcher protocol tokens')
    out.append('def READY_FOR_EVENTS_TOKEN : List UInt8 := %s' % lean_bytes(D.READY_FOR_EVENTS_TOKEN))
    out.append('def RESULT_TOKEN_START : List UInt8 := %s' % lean_bytes(D.RESULT_TOKEN_START))
    out.append('def READY_FOR_EVENTS_LEN : Int := %d' % D.READY_FOR_EVENTS_LEN)
    out.append('def RESULT_TOKEN_START_LEN : Int := %d' % D.RESULT_TOKEN_START_LEN)
    # the initial listener state set by PEventListenerDispatcher.__init__ (read from a fresh instance)
    from supervisor.tests.base import DummyOptions, DummyPConfig, DummyProcess
    o = DummyOptions(); c = DummyPConfig(o, 'p', '/bin/p'); p = DummyProcess(c)
    p.listener_state = None
    d = D(p, 'stdout', 0)
    init = [k for v, k in members if v == p.listener_state]
    out.append('def initialListenerState : LS := .%s' % (init[0] if init else 'MISSING'))
    out.append('def initialResultlenIsNone : Bool := %s' % ('true' if d.resultlen is None else 'false'))
    out.append('def initialResult : List UInt8 := %s' % lean_bytes(d.result))
    out.append('def initialStateBuffer : List UInt8 := %s' % lean_bytes(d.state_buffer))
    # default result handler: which answer is accepted
    def probe(resp):
        try:
            dispatchers.default_handler(None, resp)
            return 'ok'
        except dispatchers.RejectEvent:
            return 'reject'
        except Exception:
            return 'error'
    out.append('-- dispatchers.default_handler probed on OK / FAIL / empty / lower-case ok')
    out.append('def defaultHandlerProbe : List (List UInt8 × String) := [%s]' % ', '.join(
        '(%s, "%s")' % (lean_bytes(r), probe(r)) for r in (b'OK', b'FAIL', b'', b'ok', b'OK\n')))
    return out


_hl_vars = {
    'data': ('buf', 'bytes'), 'self.state_buffer': ('buf', 'bytes'),
    'state': ('ls.code', 'int'),
    'self.READY_FOR_EVENTS_LEN': ('READY_FOR_EVENTS_LEN', 'int'),
    'self.RESULT_TOKEN_START_LEN': ('RESULT_TOKEN_START_LEN', 'int'),
    'self.READY_FOR_EVENTS_TOKEN': ('READY_FOR_EVENTS_TOKEN', 'bytes'),
    'self.RESULT_TOKEN_START': ('RESULT_TOKEN_START', 'bytes'),
    'pos': ('pos', 'int'), 'result_line': ('line', 'bytes'),
    'resultlen': ('n', 'int'), 'needed': ('needed', 'int'),
    'self.resultlen': ('rl', 'opt'), 'self.result': ('res', 'bytes'),
    'tokenlen': ('READY_FOR_EVENTS_LEN', 'int'),
}
_hl_consts = {
    'EventListenerStates.UNKNOWN': 'LS.UNKNOWN.code', 'EventListenerStates.ACKNOWLEDGED': 'LS.ACKNOWLEDGED.code',
    'EventListenerStates.READY': 'LS.READY.code', 'EventListenerStates.BUSY': 'LS.BUSY.code',
}
# the same function once more with self.resultlen as the integer it is inside the `else` branch
_hb_vars = dict(_hl_vars)
_hb_vars['self.resultlen'] = ('rln', 'int')

_params = '(ls : LS) (buf : List UInt8) (rl : Option Int) (res : List UInt8) (pos : Int) (line : List UInt8) (n : Int) (needed : Int)'
_bparams = '(buf : List UInt8) (rln : Int) (res : List UInt8) (needed : Int)'

SITES = [
    Site('supervisor/dispatchers.py', 'PEventListenerDispatcher.handle_listener_state_change', 'hlsc',
         _params, _hl_vars, consts=_hl_consts,
         want={'hlsc_g%d' % k for k in range(16)} | {'hlsc_a%d' % k for k in (4, 5, 6, 8, 10, 13, 14, 15, 16, 17, 20, 23, 24, 27)}),
    Site('supervisor/dispatchers.py', 'PEventListenerDispatcher.handle_listener_state_change', 'hbody',
         _bparams, _hb_vars, consts=_hl_consts,
         want={'hbody_a22', 'hbody_a25'}),
    Site('supervisor/dispatchers.py', 'PInputDispatcher.flush', 'flush',
         '(inbuf : List UInt8) (sent : Int)', {'self.input_buffer': ('inbuf', 'bytes'), 'sent': ('sent', 'int')}),
    Site('supervisor/dispatchers.py', 'PInputDispatcher.handle_write_event', 'hwe',
         '(inbuf : List UInt8) (errno : Int)', {'self.input_buffer': ('inbuf', 'bytes'), 'why.args[0]': ('errno', 'int')},
         consts={'errno.EPIPE': '(%d : Int)' % __import__('errno').EPIPE}),
    Site('supervisor/process.py', 'Subprocess.write', 'pwrite',
         '(pid : Int) (killing : Bool) (stdin : Option Nat) (closed : Bool) (inbuf chars : List UInt8) (errno : Int)',
         {'self.pid': ('pid', 'int'), 'self.killing': ('killing', 'bool'), 'stdin_fd': ('stdin', 'opt'),
          'dispatcher.closed': ('closed', 'bool'), 'dispatcher.input_buffer': ('inbuf', 'bytes'), 'chars': ('chars', 'bytes'),
          'why.args[0]': ('errno', 'int')},
         consts={'errno.EPIPE': '(%d : Int)' % __import__('errno').EPIPE,
                 'errno.EAGAIN': '(%d : Int)' % __import__('errno').EAGAIN,
                 'errno.EWOULDBLOCK': '(%d : Int)' % __import__('errno').EWOULDBLOCK}),
]
