import SupervisorModel.Basic.Bytes
import SupervisorModel.Basic.St
import SupervisorModel.Generated.Listener
/-
  Model of one event-listener process as supervisord sees it:

  * `PEventListenerDispatcher.handle_read_event / handle_listener_state_change / handle_result`
    (supervisor/dispatchers.py): the token parser over `state_buffer`, `resultlen`, `result`;
    the Python recursion is `runHL` with fuel, one call body = `stepP`.
  * `PInputDispatcher` (`input_buffer`, `flush`, `handle_write_event`) and `Subprocess.write`.
  * the per-process body of `EventListenerPool._dispatchEvent` (`trySend`).
  * the tail of `Subprocess.finish` that concerns listeners (`die`) and the dispatcher
    constructors run by a spawn (`spawn`).

  Every comparison / slice / arithmetic expression is the definition regenerated from the source
  (`Sv.Gen.Listener.*`); the control flow is written by hand and checked by correspondence.
  The stdin pipe is part of the state: `pipeBroken` (the read end is gone: every write raises
  EPIPE from then on -- a closed anonymous pipe never gets a reader again).
-/
namespace Sv.Listener
open Sv.Gen.Listener

/-! ### CPython `int(bytes)` -/

/-- `Py_ISSPACE` -/
def isSpace (c : UInt8) : Bool := c == 32 || (9 ≤ c && c ≤ 13)
def isDigit (c : UInt8) : Bool := 48 ≤ c && c ≤ 57

/-- digits with single underscores between digits; returns (value, number of digits) -/
def parseDigits : Bytes → Nat → Nat → Bool → Option (Nat × Nat)
  | [], acc, cnt, prevU => if prevU || cnt == 0 then none else some (acc, cnt)
  | c :: cs, acc, cnt, prevU =>
    if isDigit c then parseDigits cs (acc * 10 + (c.toNat - 48)) (cnt + 1) false
    else if c == 95 && !prevU && cnt != 0 then parseDigits cs acc cnt true
    else none

def stripSpace (b : Bytes) : Bytes := ((b.dropWhile isSpace).reverse.dropWhile isSpace).reverse

/-- `sys.get_int_max_str_digits()` default -/
def maxStrDigits : Nat := 4300

/-- `int(b)` for a bytes object, base 10: `none` = ValueError -/
def parseInt (b : Bytes) : Option Int :=
  match stripSpace b with
  | [] => none
  | c :: cs =>
    let neg := c == 45
    let body := if c == 45 || c == 43 then cs else c :: cs
    match parseDigits body 0 0 false with
    | none => none
    | some (v, cnt) =>
      if cnt > maxStrDigits then none
      else some (if neg then - (v : Int) else (v : Int))

/-! ### state -/

inductive HRes | ok | reject | error
deriving DecidableEq, Repr

structure Lst where
  -- Subprocess
  pid : Int := 0
  running : Bool := false          -- `state == ProcessStates.RUNNING`
  killing : Bool := false
  ls : LS := initialListenerState  -- `listener_state`
  event : Option Nat := none       -- `Subprocess.event` (event id)
  -- PEventListenerDispatcher
  buf : Bytes := []                -- `state_buffer`
  resultlen : Option Int := none
  result : Bytes := []
  outClosed : Bool := false
  -- PInputDispatcher and `pipes['stdin']`
  stdin : Option Nat := none
  inClosed : Bool := false
  inbuf : Bytes := []              -- `input_buffer`
  -- environment: the stdin pipe
  pipeBroken : Bool := false       -- the read end is gone
  pipeCap : Option Nat := none     -- free space (`none` = never fills up)
deriving DecidableEq, Repr

inductive Out
  | lstate (old new : LS)                    -- an assignment to `listener_state`
  | handler (ev : Option Nat) (res : Bytes)  -- `result_handler(process.event, result)` called
  | rejected (ev : Option Nat)               -- `notify(EventRejectedEvent(process, process.event))`
  | wrote (b : Bytes)                        -- bytes the kernel accepted on the listener's stdin
  | sent (ev : Nat)                          -- `_dispatchEvent` handed event `ev` to this listener
  | inClosed                                 -- stdin dispatcher closed
  | outClosed                                -- stdout dispatcher closed (EOF)
deriving DecidableEq, Repr

inductive Err
  | fuel              -- the recursion of handle_listener_state_change did not end
  | negSlice          -- `needed < 0`: outside the model (Python negative slice); proved unreachable
  | oserror (e : Int) -- OSError raised out of the modelled method
deriving DecidableEq, Repr

abbrev S := St Lst Out Err

/-! ### `handle_listener_state_change`: one call body -/

def findNL : Bytes → Option Nat
  | [] => none
  | c :: cs => if c == 10 then some 0 else (findNL cs).map (· + 1)

/-- `data.find(b'\n')` -/
def pyFind (b : Bytes) : Int :=
  match findNL b with
  | none => -1
  | some k => (k : Int)

structure StepR where
  p : Lst
  outs : List Out := []
  err : Option Err := none
  again : Bool := false
deriving DecidableEq, Repr

-- the generated guards with the model's fields plugged in
def gNoData (p : Lst) : Bool := hlsc_g0 p.ls p.buf p.resultlen p.result 0 [] 0 0
def gUnknown (p : Lst) : Bool := hlsc_g1 p.ls p.buf p.resultlen p.result 0 [] 0 0
def gAck (p : Lst) : Bool := hlsc_g2 p.ls p.buf p.resultlen p.result 0 [] 0 0
def gShort (p : Lst) : Bool := hlsc_g3 p.ls p.buf p.resultlen p.result 0 [] 0 0
def gReadyTok (p : Lst) : Bool := hlsc_g4 p.ls p.buf p.resultlen p.result 0 [] 0 0
def gReady (p : Lst) : Bool := hlsc_g6 p.ls p.buf p.resultlen p.result 0 [] 0 0
def gBusy (p : Lst) : Bool := hlsc_g7 p.ls p.buf p.resultlen p.result 0 [] 0 0
def gNoLen (p : Lst) : Bool := hlsc_g8 p.ls p.buf p.resultlen p.result 0 [] 0 0
def gNoNL (p : Lst) (pos : Int) : Bool := hlsc_g9 p.ls p.buf p.resultlen p.result pos [] 0 0
def gMore5 (p : Lst) : Bool := hlsc_g5 p.ls p.buf p.resultlen p.result 0 [] 0 0
def gMore15 (p : Lst) : Bool := hlsc_g15 p.ls p.buf p.resultlen p.result 0 [] 0 0

/-- the `try:` block of the header branch: `some n` = `self.resultlen = n`, `none` = ValueError -/
def headerLen (p : Lst) (line : Bytes) : Option Int :=
  if hlsc_g10 p.ls p.buf p.resultlen p.result 0 line 0 0 then none
  else
    match parseInt (hlsc_a15 p.ls p.buf p.resultlen p.result 0 line 0 0) with
    | none => none
    | some n =>
      if hlsc_g11 p.ls p.buf p.resultlen p.result 0 line (hlsc_a16 p.ls p.buf p.resultlen p.result 0 line n 0) 0 then none
      else some (hlsc_a17 p.ls p.buf p.resultlen p.result 0 line (hlsc_a16 p.ls p.buf p.resultlen p.result 0 line n 0) 0)

/-- the three resets after `handle_result`, with the new listener state -/
def afterResult (p : Lst) (ls : LS) : Lst :=
  { p with ls := ls, event := none,
           result := hlsc_a27 p.ls p.buf p.resultlen p.result 0 [] 0 0, resultlen := none }

/-- `handle_result(result)` followed by the three resets after it -/
def handled (h : Bytes → HRes) (p : Lst) : StepR :=
  match h p.result with
  | .ok => { p := afterResult p .ACKNOWLEDGED, outs := [.handler p.event p.result, .lstate p.ls .ACKNOWLEDGED] }
  | .reject => { p := afterResult p .ACKNOWLEDGED,
                 outs := [.handler p.event p.result, .lstate p.ls .ACKNOWLEDGED, .rejected p.event] }
  | .error => { p := afterResult p .UNKNOWN,
                outs := [.handler p.event p.result, .lstate p.ls .UNKNOWN, .rejected p.event] }

/-- the `else:` branch of BUSY (`self.resultlen` is the integer `rln`) -/
def bodyStep (h : Bytes → HRes) (p : Lst) (rln : Int) : StepR :=
  let needed := hbody_a22 p.buf rln p.result 0
  if hlsc_g13 p.ls p.buf p.resultlen p.result 0 [] 0 needed then
    if needed < 0 then { p := p, err := some .negSlice }
    else
      let p1 : Lst := { p with result := hlsc_a23 p.ls p.buf p.resultlen p.result 0 [] 0 needed,
                               buf := hlsc_a24 p.ls p.buf p.resultlen p.result 0 [] 0 needed }
      let needed' := hbody_a25 p1.buf rln p1.result needed
      if hlsc_g14 p1.ls p1.buf p1.resultlen p1.result 0 [] 0 needed' then
        let r := handled h p1
        { r with again := gMore15 r.p }
      else { p := p1, again := gMore15 p1 }
  else
    if hlsc_g14 p.ls p.buf p.resultlen p.result 0 [] 0 needed then
      let r := handled h p
      { r with again := gMore15 r.p }
    else { p := p, again := gMore15 p }

/-- `if self.resultlen is not None:` … and the final `if self.state_buffer:` of the BUSY branch -/
def busyTail (h : Bytes → HRes) (q : Lst) : StepR :=
  if hlsc_g12 q.ls q.buf q.resultlen q.result 0 [] 0 0 then
    match q.resultlen with
    | some rln => bodyStep h q rln
    | none => { p := q, again := gMore15 q }
  else { p := q, again := gMore15 q }

/-- one execution of the body of `handle_listener_state_change`; `again` = it calls itself -/
def stepP (h : Bytes → HRes) (p : Lst) : StepR :=
  if gNoData p then { p := p }
  else if gUnknown p then
    { p := { p with buf := hlsc_a4 p.ls p.buf p.resultlen p.result 0 [] 0 0 } }
  else if gAck p then
    if gShort p then { p := p }
    else if gReadyTok p then
      let p1 : Lst := { p with ls := .READY, buf := hlsc_a6 p.ls p.buf p.resultlen p.result 0 [] 0 0, event := none }
      { p := p1, outs := [.lstate p.ls .READY], again := gMore5 p1 }
    else
      let p1 : Lst := { p with ls := .UNKNOWN, buf := hlsc_a8 p.ls p.buf p.resultlen p.result 0 [] 0 0, event := none }
      { p := p1, outs := [.lstate p.ls .UNKNOWN], again := gMore5 p1 }
  else if gReady p then
    { p := { p with ls := .UNKNOWN, buf := hlsc_a10 p.ls p.buf p.resultlen p.result 0 [] 0 0, event := none },
      outs := [.lstate p.ls .UNKNOWN] }
  else if gBusy p then
    if gNoLen p then
      let pos := pyFind p.buf
      if gNoNL p pos then { p := p }
      else
        let line := hlsc_a13 p.ls p.buf p.resultlen p.result pos [] 0 0
        let p1 : Lst := { p with buf := hlsc_a14 p.ls p.buf p.resultlen p.result pos [] 0 0 }
        match headerLen p line with
        | some n => busyTail h { p1 with resultlen := some n }
        | none =>
          { p := { p1 with ls := .UNKNOWN, buf := hlsc_a20 p.ls p.buf p.resultlen p.result pos [] 0 0, event := none },
            outs := [.lstate p.ls .UNKNOWN, .rejected p.event] }
    else busyTail h p
  else { p := p }

/-- termination measure of the recursion -/
def mu (p : Lst) : Nat := 2 * p.buf.length + (if p.resultlen.isSome then 1 else 0)

/-- the recursion of `handle_listener_state_change`, `k` = remaining depth -/
def runHL (h : Bytes → HRes) : Nat → S → S
  | 0, s => raise .fuel s
  | k + 1, s =>
    if s.err.isSome then s
    else
      let r := stepP h s.p
      let s' : S := { p := r.p, outs := s.outs ++ r.outs, err := r.err }
      if r.again then runHL h k s' else s'

/-- `handle_listener_state_change()` -/
def hlsc (h : Bytes → HRes) (s : S) : S := runHL h (mu s.p + 1) s

/-- the bytes `a` arrive in `state_buffer`, then `handle_listener_state_change()` -/
def feed (h : Bytes → HRes) (a : Bytes) (s : S) : S :=
  hlsc h (setP (fun p => { p with buf := p.buf ++ a }) s)

/-- `if dispatcher.readable(): dispatcher.handle_read_event()` with `readfd` returning `data` -/
def readEvent (h : Bytes → HRes) (data : Bytes) : S → S := guard fun s =>
  if s.p.outClosed then s
  else if data.isEmpty then
    s |> setP (fun p => { p with outClosed := true }) |> emit .outClosed |> hlsc h
  else feed h data s

/-! ### stdin side -/

/-- `PInputDispatcher.flush()`; the OSError (if any) is returned, not raised.  The pipe: broken
    (EPIPE for ever), full (`pipeCap = some 0`: EAGAIN) or accepting up to `pipeCap` bytes. -/
def flush (s : S) : S × Option Int :=
  if s.p.pipeBroken then (s, some 32)
  else if s.p.pipeCap == some 0 then (s, some 11)
  else
    let k : Nat := match s.p.pipeCap with | none => s.p.inbuf.length | some c => min c s.p.inbuf.length
    let sent : Int := k
    let s1 := if k == 0 then s else emit (.wrote (s.p.inbuf.take k)) s
    (setP (fun p => { p with inbuf := flush_a1 p.inbuf sent, pipeCap := p.pipeCap.map (· - k) }) s1, none)

inductive WriteR | ok | epipe
deriving DecidableEq, Repr

/-- `Subprocess.write(chars)`: `epipe` = OSError(EPIPE) raised to the caller; other errnos set `err` -/
def pwrite (chars : Bytes) (s : S) : S × WriteR :=
  let p := s.p
  if pwrite_g0 p.pid p.killing p.stdin p.inClosed p.inbuf chars 0 then (s, .epipe)
  else if pwrite_g1 p.pid p.killing p.stdin p.inClosed p.inbuf chars 0 then (s, .epipe)
  else if pwrite_g2 p.pid p.killing p.stdin p.inClosed p.inbuf chars 0 then (s, .epipe)
  else
    let s1 := setP (fun q => { q with inbuf := pwrite_a2 q.pid q.killing q.stdin q.inClosed q.inbuf chars 0 }) s
    match flush s1 with
    | (s2, none) => (s2, .ok)
    | (s2, some e) =>
      if pwrite_g3 p.pid p.killing p.stdin p.inClosed p.inbuf chars e then
        if e == 32 then (s2, .epipe) else (raise (.oserror e) s2, .ok)
      else (s2, .ok)

/-- `if dispatcher.writable(): dispatcher.handle_write_event()` -/
def writeEvent : S → S := guard fun s =>
  if !(hwe_g0 s.p.inbuf 0) || s.p.inClosed then s          -- writable()
  else if hwe_g0 s.p.inbuf 0 then
    match flush s with
    | (s1, none) => s1
    | (s1, some e) =>
      if hwe_g1 s1.p.inbuf e then
        s1 |> setP (fun p => { p with inbuf := hwe_a0 p.inbuf e, inClosed := true }) |> emit .inClosed
      else raise (.oserror e) s1
  else s

inductive SendR | sent | skipped | epipe
deriving DecidableEq, Repr

/-- the body of the `for process in …` loop of `EventListenerPool._dispatchEvent` for one process -/
def trySend (ev : Nat) (envelope : Bytes) (s : S) : S × SendR :=
  if s.err.isSome then (s, .skipped)
  else if !s.p.running then (s, .skipped)
  else if s.p.ls == .READY then
    match pwrite envelope s with
    | (s1, .epipe) => (s1, .epipe)
    | (s1, .ok) =>
      if s1.err.isSome then (s1, .skipped)
      else
        (s1 |> emit (.lstate s1.p.ls .BUSY) |> setP (fun p => { p with ls := .BUSY, event := some ev }) |> emit (.sent ev),
         .sent)
  else (s, .skipped)

/-- `Subprocess.finish()` as far as the listener is concerned: `drain()`, then pid/pipes/dispatchers
    are forgotten and a held event is rejected -/
def die (h : Bytes → HRes) (lastData : Bytes) : S → S := guard fun s =>
  -- the child is gone, so is the read end of its stdin pipe
  let s1 := s |> setP (fun p => { p with pipeBroken := true }) |> readEvent h lastData |> writeEvent
  guard (fun s1 =>
    let s2 := setP (fun p => { p with pid := 0, running := false, killing := false, stdin := none,
                                      inbuf := [], inClosed := true, outClosed := true, buf := [],
                                      pipeBroken := true }) s1
    match s1.p.event with
    | some e => s2 |> emit (.rejected (some e)) |> setP (fun p => { p with event := none })
    | none => s2) s1

/-- the listener right after a fork: new pipes, new dispatchers
    (`PEventListenerDispatcher.__init__`, `PInputDispatcher.__init__`) -/
def fresh (pid : Int) : Lst :=
  { pid := pid, running := false, killing := false, ls := initialListenerState, event := none,
    buf := initialStateBuffer, resultlen := none, result := initialResult, outClosed := false,
    stdin := some 4, inClosed := false, inbuf := [], pipeBroken := false, pipeCap := none }

/-- `spawn()`: refused while a child exists ("process already running") -/
def spawn (pid : Int) : S → S := guard fun s =>
  if s.p.pid != 0 then s else setP (fun _ => fresh pid) s

/-- the process states a live listener can be in, as far as `_dispatchEvent` and `write` care -/
inductive PState | starting | running | stopping
deriving DecidableEq, Repr

def setPState (ps : PState) : S → S :=
  setP fun p => if p.pid == 0 then p else match ps with
    | .starting => { p with running := false, killing := false }
    | .running => { p with running := true, killing := false }
    | .stopping => { p with running := false, killing := true }

/-! ### line protocol -/

def defaultHandler (r : Bytes) : HRes := if r == [79, 75] then .ok else .reject
/-- a stricter scripted handler used by the harness: OK / FAIL / anything else raises -/
def strictHandler (r : Bytes) : HRes :=
  if r == [79, 75] then .ok else if r == [70, 65, 73, 76] then .reject else .error

def showOpt (e : Option Nat) : String := match e with | none => "-" | some n => toString n

def showOut : Out → String
  | .lstate o n => s!"ls:{o.name}>{n.name}"
  | .handler e r => s!"h:{showOpt e}:{hexOfBytes r}"
  | .rejected e => s!"rej:{showOpt e}"
  | .wrote b => s!"w:{hexOfBytes b}"
  | .sent e => s!"sent:{e}"
  | .inClosed => "inclosed"
  | .outClosed => "outclosed"

def showErr : Option Err → String
  | none => "-"
  | some .fuel => "RecursionError"
  | some .negSlice => "model-escape"
  | some (.oserror e) => s!"OSError:{e}"

/-- dispatcher `closed` flags are not printed (they show in what later reads/writes do) -/
def visible : Out → Bool
  | .inClosed => false
  | .outClosed => false
  | .sent _ => false          -- printed as the op's answer
  | _ => true

def showOuts (os : List Out) : String :=
  let v := os.filter visible
  if v.isEmpty then "-" else ";".intercalate (v.map showOut)

def showState (s : S) (pre : Nat) : String :=
  s!"{s.p.ls.name} ev={showOpt s.p.event} | {showOuts (s.outs.drop pre)} | {showErr s.err}"

def parsePState (t : String) : Option PState :=
  match t with
  | "starting" => some .starting
  | "running" => some .running
  | "stopping" => some .stopping
  | _ => none

def parseCap (t : String) : Option (Option Nat) :=
  if t == "inf" then some none else t.toNat?.map some

/-- the operations of one listener's history -/
inductive Op
  | read (d : Bytes)                  -- its stdout becomes readable (`[]` = EOF)
  | send (ev : Nat) (envelope : Bytes) -- the pool tries to hand it an event
  | wev                               -- its stdin becomes writable
  | pstate (ps : PState)
  | cap (c : Option Nat)              -- the kernel pipe's free space changes
  | breakpipe                         -- the listener closes its stdin
  | die (d : Bytes)
  | spawn (pid : Int)

def applyOp (h : Bytes → HRes) (s : S) : Op → S
  | .read d => readEvent h d s
  | .send ev env => (trySend ev env s).1
  | .wev => writeEvent s
  | .pstate ps => setPState ps s
  | .cap c => setP (fun p => { p with pipeCap := c }) s
  | .breakpipe => setP (fun p => { p with pipeBroken := true }) s
  | .die d => die h d s
  | .spawn pid => spawn pid s

/-- one operation; an exception that escaped the previous operation was observed and is gone -/
def step (h : Bytes → HRes) (s : S) (op : Op) : S := applyOp h { s with err := none } op

def exec (h : Bytes → HRes) (s : S) (ops : List Op) : S := ops.foldl (step h) s

def parseOp (l : String) : Option Op :=
  match words l with
  | ["read", hx] => (bytesOfHex hx).map .read
  | ["send", ev, hx] =>
    match ev.toNat?, bytesOfHex hx with
    | some e, some b => some (.send e b)
    | _, _ => none
  | ["wev"] => some .wev
  | ["pstate", t] => (parsePState t).map .pstate
  | ["cap", t] => (parseCap t).map .cap
  | ["breakpipe"] => some .breakpipe
  | ["die", hx] => (bytesOfHex hx).map .die
  | ["spawn", pid] => pid.toInt?.map .spawn
  | _ => none

def runOps (h : Bytes → HRes) : S → List String → List String
  | _, [] => []
  | s, l :: ls =>
    match parseOp l with
    | none => "bad-op" :: runOps h s ls
    | some op =>
      let s' := step h s op
      let extra := match op with
        | .send ev env => (match (trySend ev env { s with err := none }).2 with | .sent => " sent" | _ => " notsent")
        | _ => ""
      (showState s' s.outs.length ++ extra) :: runOps h s' ls

def initial : Lst := { outClosed := true, inClosed := true }

def runCase (cfg : List String) (ops : List String) : List String :=
  match kvGet cfg "handler" with
  | some "default" => runOps defaultHandler { p := initial } ops
  | some "strict" => runOps strictHandler { p := initial } ops
  | _ => ops.map fun _ => "bad-config"

end Sv.Listener
