"""
C20 -- a small simulated supervisord (`World`) behind the scripted proxy, and the property stated over it.

The scripted part of c20.py derives what "should" have happened from the answers the client *asked for*; a client
that never asks (an early return before the names are validated, a skipped name, a dropped request) leaves nothing
to judge.  Here the server has a state of its own -- active process groups with processes in states, the groups the
configuration file now defines (pending added / changed / removed groups, possibly none), per-process failures,
a daemon that is shutting down -- and answers every RPC from that state with the semantics of
supervisor/rpcinterface.py (BAD_NAME for an unknown name, the isRunning / isNotRunning / isSignallable filters of
the *ProcessGroup / *AllProcesses methods, ALREADY_ADDED / STILL_RUNNING, diff_to_active, ...).

`spec(action, arg, world)` evaluates the statement on the command line and the world alone -- which processes or
groups the names select by the namespec rules, what the server's result for each of them is, which names are
unknown -- independently of the calls the client makes and of the Lean model:
  * one result line per targeted process / group, worded as a success or as an error according to the server's
    result; an unknown name gets an error line that names it;
  * exit status 0 iff everything succeeded or was one of the tolerated answers; non-zero when a name is unknown
    or a request failed; `status` exits 3 when a shown process is stopped;
  * never a traceback / an exception out of onecmd;
  * the requests made leave the server in the state the namespec rules define (exactly the selected processes
    were started / stopped / ..., exactly the selected groups added / removed / updated).
Empty and no-op situations are part of the population: no processes at all, no pending configuration change,
groups whose processes are all already in the requested state, unknown names mixed with known ones.
"""
import copy

SUCCESS = 80


def _B():
    from props import c20
    return c20


def _states():
    from supervisor import states
    return states


class Proc:
    __slots__ = ('group', 'name', 'state', 'pid', 'faults', 'logs')

    def __init__(self, group, name, state, pid=0, faults=None, logs=None):
        self.group, self.name, self.state, self.pid = group, name, state, pid
        self.faults = dict(faults or {})        # op ('start'|'stop'|'signal'|'clear') -> fault code the op fails with
        self.logs = dict(logs) if logs is not None else {'stdout': 'out of %s\n' % name, 'stderr': None}

    def ns(self):
        return self.name if self.group == self.name else '%s:%s' % (self.group, self.name)

    def to_json(self):
        return [self.group, self.name, self.state, self.pid, self.faults, self.logs]


class World:
    """the server: active groups (procs, in priority order), the configuration file (config: group -> process
    names), active groups whose configuration differs (changed), mood"""

    def __init__(self, procs=(), config=None, changed=(), shutting=False, mainlog='supervisord started\n', uncreatable=(), api=None):
        self.uncreatable = list(uncreatable)    # configured groups that cannot be created (addProcessGroup -> FAILED)
        self.api = api                          # the API version the daemon reports (None: the client's own)
        self.procs = list(procs)
        self.config = {g: list(v) for g, v in (config or {}).items()}
        self.changed = list(changed)
        self.shutting = shutting
        self.mainlog = mainlog
        self.nextpid = 5000

    # ---- (de)serialisation for replay files
    def to_json(self):
        return {'procs': [p.to_json() for p in self.procs], 'config': self.config, 'changed': list(self.changed),
                'shutting': self.shutting, 'mainlog': self.mainlog, 'uncreatable': list(self.uncreatable), 'api': self.api}

    @classmethod
    def from_json(cls, d):
        return cls([Proc(*p) for p in d['procs']], d['config'], d['changed'], d['shutting'], d['mainlog'],
                   d.get('uncreatable', ()), d.get('api'))

    def copy(self):
        return copy.deepcopy(self)

    def snapshot(self):
        """what later requests could observe (pids only as zero / non-zero)"""
        return (sorted((p.group, p.name, p.state, p.pid != 0) for p in self.procs),
                sorted((g, tuple(v)) for g, v in self.config.items()), sorted(self.changed), sorted(self.uncreatable))

    # ---- state
    def groups(self):
        res = []
        for p in self.procs:
            if p.group not in res:
                res.append(p.group)
        return res

    def group_procs(self, g):
        return [p for p in self.procs if p.group == g]

    def lexical(self):
        return sorted(self.procs, key=lambda p: (p.group, p.name))

    def lookup(self, name):
        """rpcinterface._getGroupAndProcess: ('proc', p) | ('group', g) | None (BAD_NAME)"""
        g, pn = _B().spec_split_namespec(name)
        if g not in self.groups():
            return None
        if pn is None:
            return ('group', g)
        for p in self.procs:
            if p.group == g and p.name == pn:
                return ('proc', p)
        return None

    def diff(self):
        """supervisord.diff_to_active as reloadConfig reports it"""
        act = self.groups()
        added = [g for g in self.config if g not in act]
        changed = [g for g in act if g in self.config and g in self.changed]
        removed = [g for g in act if g not in self.config]
        return added, changed, removed

    # ---- what the server does to one process; returns (code, fault text)
    def apply(self, op, p, sig=None):
        st = _states()
        PS = st.ProcessStates
        F = _B().faults()
        ns = p.ns()
        def fail(code, extra=ns):
            return code, '%s: %s' % (_B().fname(code), extra)
        if op == 'start':
            if p.state in st.RUNNING_STATES:
                return fail(F['ALREADY_STARTED'])
            if p.state == PS.UNKNOWN:
                return fail(F['FAILED'], '%s is in an unknown process state' % ns)
            if p.state == PS.STOPPING:
                return fail(F['ABNORMAL_TERMINATION'])
            if p.faults.get('start'):
                return fail(p.faults['start'])
            p.state = PS.RUNNING
            p.pid = self.nextpid; self.nextpid += 1
            return SUCCESS, 'OK'
        if op == 'stop':
            if p.state not in st.RUNNING_STATES:
                return fail(F['NOT_RUNNING'])
            if p.faults.get('stop'):
                return fail(p.faults['stop'], 'attempted to kill %s with sig SIGTERM but it wasn\'t running' % ns)
            p.state = PS.STOPPED
            p.pid = 0
            return SUCCESS, 'OK'
        if op == 'signal':
            from supervisor.datatypes import signal_number
            try:
                signal_number(sig)
            except ValueError:
                return fail(F['BAD_SIGNAL'], sig)
            if p.state not in st.SIGNALLABLE_STATES:
                return fail(F['NOT_RUNNING'])
            if p.faults.get('signal'):
                return fail(p.faults['signal'], 'attempted to send %s sig %s but it wasn\'t running' % (ns, sig))
            return SUCCESS, 'OK'
        if op == 'clear':
            if p.faults.get('clear'):
                return fail(p.faults['clear'])
            return SUCCESS, 'OK'
        raise ValueError(op)

    def selected_by_server(self, op, procs):
        """the predicate of make_allfunc in the *ProcessGroup / *AllProcesses methods"""
        st = _states()
        if op == 'start':
            return [p for p in procs if p.state not in st.RUNNING_STATES]
        if op == 'stop':
            return [p for p in procs if p.state in st.RUNNING_STATES]
        if op == 'signal':
            return [p for p in procs if p.state in st.SIGNALLABLE_STATES]
        return list(procs)

    def add_group(self, g):
        """-> fault code or SUCCESS"""
        F = _B().faults()
        if g not in self.config:
            return F['BAD_NAME']
        if g in self.groups():
            return F['ALREADY_ADDED']
        if g in self.uncreatable:
            return F['FAILED']      # add_process_group raised ValueError / OSError (fcgi socket, childlogdir)
        PS = _states().ProcessStates
        for n in self.config[g]:
            self.procs.append(Proc(g, n, PS.STOPPED, 0))
        if g in self.changed:
            self.changed.remove(g)
        return SUCCESS

    def remove_group(self, g):
        F = _B().faults()
        if g not in self.groups():
            return F['BAD_NAME']
        if any(p.state not in _states().STOPPED_STATES for p in self.group_procs(g)):
            return F['STILL_RUNNING']
        self.procs = [p for p in self.procs if p.group != g]
        return SUCCESS

    # ---- the RPC interface: answers in the script language of c20.py
    def info(self, p):
        st = _states()
        PS = st.ProcessStates
        if p.state == PS.RUNNING:
            d = 'pid %d, uptime 0:01:40' % p.pid
        elif p.state in (PS.FATAL, PS.BACKOFF):
            d = 'Exited too quickly (process log may have details)'
        elif p.state in (PS.STOPPED, PS.EXITED):
            d = 'Not started'
        else:
            d = ''
        return (p.group, p.name, p.state, st.getProcessStateDescription(p.state), d, p.pid)

    def serve(self, meth, args):
        B = _B()
        F = B.faults()
        def fault(code, extra=None):
            return ('F', code, B.fname(code) + ((': %s' % extra) if extra is not None else ''))
        if meth == 'GET':
            path = args[0]
            if path == '/mainlogtail':
                return ('S', self.mainlog) if self.mainlog is not None else ('I', 410)
            parts = path.split('/')
            if len(parts) == 4 and parts[1] == 'logtail':
                hit = self.lookup(parts[2])
                if hit and hit[0] == 'proc' and hit[1].logs.get(parts[3]) is not None:
                    return ('S', hit[1].logs[parts[3]])
            return ('I', 404)
        if self.shutting:
            return fault(F['SHUTDOWN_STATE'])
        if meth == 'getVersion':
            return ('S', B.API if self.api is None else self.api)
        if meth == 'getSupervisorVersion':
            return ('S', '4.3.0')
        if meth == 'getPID':
            return ('I', 4242)
        if meth == 'getAllProcessInfo':
            return ('P', [self.info(p) for p in self.lexical()])
        if meth == 'getProcessInfo':
            hit = self.lookup(args[0])
            if not hit or hit[0] != 'proc':
                return fault(F['BAD_NAME'], args[0])
            return ('Q', self.info(hit[1]))
        for op, single, group, allm in (('start', 'startProcess', 'startProcessGroup', 'startAllProcesses'),
                                        ('stop', 'stopProcess', 'stopProcessGroup', 'stopAllProcesses'),
                                        ('signal', 'signalProcess', 'signalProcessGroup', 'signalAllProcesses'),
                                        ('clear', 'clearProcessLogs', None, 'clearAllProcessLogs')):
            if meth not in (single, group, allm):
                continue
            sig = None
            if op == 'signal':
                sig = args[-1] if args else ''
            def results(procs):
                res = []
                for p in self.selected_by_server(op, procs):
                    code, text = self.apply(op, p, sig)
                    res.append((p.group, p.name, code, text))
                return ('R', res)
            if meth == allm:
                return results(list(self.procs))
            if meth == group:
                if args[0] not in self.groups():
                    return fault(F['BAD_NAME'], args[0])
                return results(self.group_procs(args[0]))
            hit = self.lookup(args[0])
            if hit is None or (hit[0] == 'group' and op == 'clear'):
                return fault(F['BAD_NAME'], args[0])
            if hit[0] == 'group':
                return results(self.group_procs(hit[1]))
            code, text = self.apply(op, hit[1], sig)
            return ('V',) if code == SUCCESS else ('F', code, text)
        if meth == 'reloadConfig':
            a, c, r = self.diff()
            return ('L', a, c, r)
        if meth == 'addProcessGroup':
            code = self.add_group(args[0])
            return ('V',) if code == SUCCESS else fault(code, args[0])
        if meth == 'removeProcessGroup':
            code = self.remove_group(args[0])
            return ('V',) if code == SUCCESS else fault(code, args[0])
        if meth in ('readProcessStdoutLog', 'readProcessStderrLog'):
            hit = self.lookup(args[0])
            if not hit or hit[0] != 'proc':
                return fault(F['BAD_NAME'], args[0])
            text = hit[1].logs.get('stdout' if 'Stdout' in meth else 'stderr')
            if text is None:
                return fault(F['NO_FILE'], '/tmp/%s.log' % args[0])
            return ('S', text)
        if meth == 'readLog':
            return ('S', self.mainlog) if self.mainlog is not None else fault(F['NO_FILE'], '/tmp/supervisord.log')
        if meth == 'getAllConfigInfo':
            act = self.groups()
            return ('C', [(g, n, int(g in act), 1, 999, 999) for g in sorted(self.config) for n in self.config[g]])
        if meth in ('shutdown', 'restart'):
            return ('V',)
        return fault(F['UNKNOWN_METHOD'])

    def source(self):
        def src(meth, args, k):
            return self.serve(meth, [str(a) for a in args])
        return src


# ---------------------------------------------------------------------------------------------------
# the statement, evaluated on (command line, world)
class Item:
    """one expected result line.  kind: 'ok' (a success line for `prefix`), 'tol' (the action's tolerated answer:
    worded as an error, does not count for the exit status), 'err' (an error line), 'row' (a status row),
    'line' (exactly `text`)"""
    def __init__(self, kind, prefix=None, contains=(), text=None, unknown=False, what=''):
        self.kind, self.prefix, self.contains, self.text, self.unknown, self.what = kind, prefix, list(contains), text, unknown, what
        self.after_fault = False     # a target that comes after one whose request the server refused with a fault

    def matches(self, line):
        fw = any(w in line for w in _B().FAILWORDS)
        if self.kind == 'line':
            return line == self.text
        if self.kind == 'row':
            return line.startswith(self.prefix) and all(c in line for c in self.contains)
        if self.text is not None and line == self.text:
            return True         # the server's own fault text, printed as it is
        if self.kind == 'ok':
            return line.startswith(self.prefix) and not fw
        return fw and (self.prefix is None or line.startswith(self.prefix)) and all(c in line for c in self.contains)

    def __repr__(self):
        return '%s(%s)' % (self.kind, self.what or self.prefix or self.text)


class Expect:
    def __init__(self):
        self.items = []
        self.exit_zero = True        # True / False / None (the statement does not say)
        self.exit_exact = None
        self.unknown = []            # names that are unknown
        self.check_extra = True      # every printed line must be one of the items
        self.check_state = True
        self.need_error = False      # some error-ish line or a message on stderr
        self.whole_output = None     # tail: the text the server returned
        self.lost_kind = None

    def fail(self):
        if self.exit_zero is not None:
            self.exit_zero = False


def make_ns(g, p):
    return p if g == p else '%s:%s' % (g, p)


NAME_ACTIONS = ('start', 'stop', 'restart', 'signal', 'status', 'pid', 'clear', 'add', 'remove', 'update', 'tail', 'fg')
UPCHECKED = ('start', 'stop', 'restart', 'signal', 'status', 'pid', 'clear', 'tail', 'fg')


def spec(action, arg, w):
    """Expect for a well-formed invocation of a name-taking action against world w (mutated: the requests the
    names select are carried out on it), or None when the statement is covered by the scripted monitors only"""
    B = _B()
    F = B.faults()
    names = arg.split()
    e = Expect()
    if action not in NAME_ACTIONS:
        return None
    if action == 'fg':
        if len(names) != 1:
            e.fail(); e.need_error = True; e.check_extra = False
            return e
    elif not B.args_ok(action, arg):
        return None
    if w.shutting:
        # every request is refused with SHUTDOWN_STATE
        e.fail()
        e.need_error = True
        e.check_extra = False
        if action in ('add', 'remove'):
            e.items = [Item('err', what='%s %s refused: SHUTDOWN_STATE' % (action, n)) for n in names]
            for it in e.items[1:]:
                it.after_fault = True
            e.check_extra = True
            e.lost_kind = 'world-names-lost-after-fault:' + ('add:SHUTDOWN_STATE' if action == 'add' else action)
        return e
    if w.api is not None and w.api != B.API and action in UPCHECKED:
        # the daemon speaks another API version (older OR newer): the mismatch line naming the remote version, a non-zero
        # exit status, and the action is not carried out (the world stays as it is)
        if action == 'fg':
            return None     # (a client that accepts the daemon goes interactive: not run; the other eight actions cover upcheck)
        e.fail()
        e.need_error = True
        e.items = [Item('err', 'Sorry', contains=['API version', w.api], what='API version mismatch: the daemon reports %r' % w.api)]
        return e
    if action in ('start', 'stop', 'restart', 'signal', 'clear'):
        sig = None
        if action == 'signal':
            sig, names = names[0], names[1:]
        for op in (('stop', 'start') if action == 'restart' else (action,)):
            tol = {'start': F['ALREADY_STARTED'], 'stop': F['NOT_RUNNING']}.get(op)
            def one(p):
                code, text = w.apply(op, p, sig)
                if code == SUCCESS:
                    e.items.append(Item('ok', p.ns() + ': ', what='%s %s' % (op, p.ns())))
                elif code == tol:
                    e.items.append(Item('tol', p.ns() + ': ', text=text, what='%s %s' % (op, p.ns())))
                else:
                    e.items.append(Item('err', p.ns() + ': ', text=text, what='%s %s: %s' % (op, p.ns(), B.fname(code))))
                    e.fail()
            if 'all' in names:
                for p in w.selected_by_server(op, list(w.procs)):
                    one(p)
                continue
            for n in names:
                g, pn = B.spec_split_namespec(n)
                hit = w.lookup(n)
                if hit is None or (hit[0] == 'group' and op == 'clear'):
                    if pn is None:
                        e.items.append(Item('err', None if op == 'clear' else g + ': ', contains=[g], unknown=True, what='unknown ' + n))
                    else:
                        e.items.append(Item('err', make_ns(g, pn) + ': ', unknown=True, what='unknown ' + n))
                    e.unknown.append(n)
                    e.fail()
                elif hit[0] == 'group':
                    for p in w.selected_by_server(op, w.group_procs(g)):
                        one(p)
                else:
                    one(hit[1])
        return e
    if action == 'status':
        st = _states()
        if not names or 'all' in names:
            shown = w.lexical()
        else:
            shown = []
            for n in names:
                g, pn = B.spec_split_namespec(n)
                hit = [p for p in w.lexical() if p.group == g and (pn is None or p.name == pn)]
                if not hit:
                    e.items.append(Item('err', (g if pn is None else n) + ': ', unknown=True, what='unknown ' + n))
                    e.unknown.append(n)
                    e.fail()
                shown.extend(hit)
        for p in shown:
            e.items.append(Item('row', p.ns() + ' ', contains=[st.getProcessStateDescription(p.state)], what='row ' + p.ns()))
        if any(p.state in st.STOPPED_STATES for p in shown):
            e.exit_exact = 3
            e.exit_zero = False
        e.check_state = False
        return e
    if action == 'pid':
        if not names:
            e.items.append(Item('line', text='4242', what='pid of supervisord'))
        elif 'all' in names:
            e.items = [Item('line', text=str(p.pid), what='pid of ' + p.ns()) for p in w.lexical()]
        else:
            for n in names:
                hit = w.lookup(n)
                if not hit or hit[0] != 'proc':
                    e.items.append(Item('err', contains=[n], unknown=True, what='unknown ' + n))
                    e.unknown.append(n)
                    e.fail()
                else:
                    e.items.append(Item('line', text=str(hit[1].pid), what='pid of ' + n))
                    if hit[1].pid == 0 and e.exit_zero:
                        e.exit_zero = None     # a process that is not running has no pid: status left as the code has it
        e.check_state = False
        return e
    if action == 'add':
        refused_before = False
        for n in names:
            code = w.add_group(n)
            if code == SUCCESS:
                e.items.append(Item('ok', n + ': ', what='add ' + n))
            elif code == F['ALREADY_ADDED']:
                e.items.append(Item('tol', what='add %s: already active' % n))
            elif code == F['FAILED']:
                # F50 (open): do_add has no branch for FAILED and re-raises it: the names after this one are never
                # asked about.  The server state then differs as a consequence: not reported twice.
                it = Item('err', what='add %s refused: FAILED' % n)
                it.after_fault = refused_before
                e.items.append(it)
                refused_before = True
                e.lost_kind = 'names-lost-after-fault:add:FAILED'     # the same kind as the scripted monitor: one defect, one kind
                e.check_state = False
                e.fail()
                continue
            else:
                e.items.append(Item('err', contains=[n], unknown=True, what='unknown ' + n))
                e.unknown.append(n)
                e.fail()
            e.items[-1].after_fault = refused_before
        return e
    if action == 'remove':
        for n in names:
            code = w.remove_group(n)
            if code == SUCCESS:
                e.items.append(Item('ok', n + ': ', what='remove ' + n))
            else:
                unk = code == F['BAD_NAME']
                e.items.append(Item('err', contains=[n], unknown=unk, what='remove %s: %s' % (n, B.fname(code))))
                if unk:
                    e.unknown.append(n)
                e.fail()
        return e
    if action == 'update':
        valid = set(names)
        if 'all' in valid:
            valid = set()
        added, changed, removed = w.diff()
        act = w.groups()
        for n in sorted(valid):
            if n not in act and n not in added:
                e.items.append(Item('err', contains=[n], unknown=True, what='unknown ' + n))
                e.unknown.append(n)
                e.fail()
        e.check_extra = False       # "<g>: stopped" precedes the result line of a removed / changed group
        def stop_group(g):
            codes = [w.apply('stop', p)[0] for p in w.selected_by_server('stop', w.group_procs(g))]
            return all(c in (SUCCESS, F['NOT_RUNNING']) for c in codes)
        def refused(g, what):
            # a fault ends the action (the remaining groups are not asked about: outside the statement)
            # F47 (open): do_update re-raises the fault and never handles the groups after this one; the statement
            # wants a line for each of them.  The server state then differs as a consequence: not reported twice.
            e.items.append(Item('err', what='%s %s refused' % (what, g)))
            e.fail()
            e.lost_kind = 'world-names-lost-after-fault:update'
            e.check_state = False
        for kind, gs in (('removed', removed), ('changed', changed), ('added', added)):
            for g in gs:
                if valid and g not in valid:
                    continue
                if kind in ('removed', 'changed'):
                    if not stop_group(g):
                        e.items.append(Item('err', g + ': ', what='stop of %s failed' % g))
                        e.fail()
                        continue
                    if w.remove_group(g) != SUCCESS:
                        refused(g, 'remove')
                        continue
                if kind in ('changed', 'added'):
                    if w.add_group(g) != SUCCESS:
                        refused(g, 'add')
                        continue
                e.items.append(Item('ok', g + ': ', what='%s %s' % (kind, g)))
        seen = False
        for it in e.items:
            it.after_fault = seen
            seen = seen or it.what.endswith(' refused')
        return e
    if action == 'tail':
        a = list(names)
        mod = a.pop(0) if a[0].startswith('-') else None
        name = a[0]
        channel = a[1].lower() if len(a) > 1 else 'stdout'
        hit = w.lookup(name)
        text = hit[1].logs.get(channel) if hit and hit[0] == 'proc' else None
        e.check_state = False
        e.check_extra = False
        if text is None:
            unk = not (hit and hit[0] == 'proc')
            if unk:
                e.unknown.append(name)
            e.fail()
            if mod == '-f':
                e.need_error = True
            else:
                e.items.append(Item('err', contains=[name], unknown=unk, what='tail %s: %s' % (name, 'unknown' if unk else 'no log file')))
        else:
            e.whole_output = text
        return e
    if action == 'fg':
        hit = w.lookup(names[0])
        e.check_state = False
        if not hit or hit[0] != 'proc':
            e.items.append(Item('err', unknown=True, what='unknown ' + names[0]))
            e.unknown.append(names[0])
            e.fail()
        elif hit[1].state != _states().ProcessStates.RUNNING:
            e.items.append(Item('err', what='fg %s: not running' % names[0]))
            e.fail()
        else:
            return None         # the interactive part of fg is outside the check
        return e
    return None


def assign(items, lines):
    """maximum matching of expected items to printed lines (Kuhn); returns (item index -> line index, unmatched
    item indexes, unmatched line indexes)"""
    adj = [[j for j, l in enumerate(lines) if it.matches(l)] for it in items]
    owner = {}
    def try_(i, seen):
        for j in adj[i]:
            if j in seen:
                continue
            seen.add(j)
            if j not in owner or try_(owner[j], seen):
                owner[j] = i
                return True
        return False
    for i in range(len(items)):
        try_(i, set())
    got = {i: j for j, i in owner.items()}
    return got, [i for i in range(len(items)) if i not in got], [j for j in range(len(lines)) if j not in owner]


def monitor_world(ctx, r, line, wjson, wafter, level=None):
    """r: the executed case (c20.execute), wjson: the world before, wafter: the World the client talked to;
    level: None | {'e2e': plan} -- the case was run through the real XML-RPC layer (c20_e2e.py)"""
    B = _B()
    action, arg = B.parse_cmd(line)
    inp = dict({'line': line, 'world': wjson}, **(level or {}))
    via = '' if not level else ' (through the real XML-RPC layer, answers at once - / deferred at poll d: %s)' % ' '.join(
        '-' if d is None else str(d) for d in level['e2e'][:len(r.log)])
    def bad(kind, what):
        ctx.violation(kind, what + via + ' [line %r, exit %d, output %r]' % (line, r.exit, r.raw[:300]), inp)
    if r.escaped:
        bad('exception-escaped-onecmd:' + r.escaped, 'an exception left Controller.onecmd instead of an error line')
        return
    if 'Traceback (most recent call last)' in r.raw or 'Traceback (most recent call last)' in r.proc_err:
        bad('traceback-printed', 'a traceback was printed')
    wspec = World.from_json(wjson)
    e = spec(action, arg, wspec)
    if e is None:
        return
    ctx.count('world-spec:%s:%s' % (action, 'unknown-name' if e.unknown else ('fail' if e.exit_zero is False else 'ok')))
    lines = r.raw.split('\n')[:-1]
    if e.whole_output is not None:
        if r.raw != e.whole_output + '\n' and not (len(arg.split()) and arg.split()[0] == '-f'):
            bad('world-output-differs:' + action, 'the server returned %r, the client printed something else' % e.whole_output)
        elif arg.split()[0] == '-f' and e.whole_output not in r.raw + r.proc_out:
            bad('world-output-differs:' + action, 'the server sent %r, the client printed something else' % e.whole_output)
    got, miss_items, extra_lines = assign(e.items, lines)
    lost = False
    for i in miss_items:
        it = e.items[i]
        if e.lost_kind and it.after_fault:
            if not lost:
                bad(e.lost_kind, 'a fault for one target ended the whole action: no result line for (%s); expected lines for %r' % (it.what, e.items))
            lost = True
            continue
        if it.unknown:
            bad('world-unknown-name-no-error-line:' + action, 'no error line for the unknown name (%s); expected lines for %r' % (it.what, e.items))
        else:
            bad('world-missing-result-line:' + action, 'no result line for %s; expected lines for %r' % (it.what, e.items))
    if e.check_extra and extra_lines and not miss_items:
        bad('world-extra-line:' + action, 'line %r corresponds to no targeted process or group; expected lines for %r'
            % (lines[extra_lines[0]], e.items))
    if e.need_error and not (any(w in r.raw for w in B.FAILWORDS) or r.proc_err):
        bad('world-failure-silent:' + action, 'a refused request left no error line')
    if e.exit_exact is not None and r.exit != e.exit_exact:
        bad('world-status-exit-not-%d' % e.exit_exact, 'a shown process is in a stopped state but the exit status is %d' % r.exit)
    elif e.exit_zero is False and r.exit == 0:
        if e.unknown:
            bad('world-unknown-name-exit-zero:' + action, 'the name(s) %r are unknown to the server but the exit status is 0' % e.unknown)
        else:
            bad('world-failure-exit-zero:' + action, 'a request failed (%r) but the exit status is 0' % [it for it in e.items if it.kind == 'err'])
    elif e.exit_zero is True and r.exit != 0:
        bad('world-success-exit-nonzero:' + action, 'every targeted name is known and every request succeeded but the exit status is %d' % r.exit)
    if e.check_state and not miss_items and wafter.snapshot() != wspec.snapshot():
        bad('world-server-state-differs:' + action,
            'the requests made leave the server in another state than the names select: %r instead of %r'
            % (wafter.snapshot()[0], wspec.snapshot()[0]))


# ---------------------------------------------------------------------------------------------------
# generators
def fixed_worlds():
    PS = _states().ProcessStates
    F = _B().faults()
    def mix():
        return [Proc('foo', 'foo', PS.RUNNING, 101), Proc('bar', 'bar', PS.STOPPED, 0),
                Proc('g', 'a', PS.RUNNING, 102, logs={'stdout': 'a out\n', 'stderr': 'a err\n'}), Proc('g', 'b', PS.STOPPED, 0)]
    cfg = {'foo': ['foo'], 'bar': ['bar'], 'g': ['a', 'b']}
    res = [
        ('empty', World([], {})),
        ('empty-avail', World([], {'new': ['new']})),
        ('one', World([Proc('foo', 'foo', PS.RUNNING, 101)], {'foo': ['foo']})),
        ('mix', World(mix(), cfg)),
        ('pending', World(mix(), {'foo': ['foo'], 'g': ['a', 'b', 'c'], 'new': ['x', 'y']}, changed=['g'])),
        ('pending-other', World(mix(), dict(cfg, new=['new']))),
        ('all-stopped', World([Proc('foo', 'foo', PS.STOPPED), Proc('g', 'a', PS.EXITED), Proc('g', 'b', PS.FATAL)],
                              {'foo': ['foo'], 'g': ['a', 'b']})),
        ('all-running', World([Proc('foo', 'foo', PS.RUNNING, 7), Proc('g', 'a', PS.RUNNING, 8), Proc('g', 'b', PS.STARTING, 9)],
                              {'foo': ['foo'], 'g': ['a', 'b']})),
        ('failing', World([Proc('foo', 'foo', PS.STOPPED, 0, {'start': F['SPAWN_ERROR']}),
                           Proc('bar', 'bar', PS.RUNNING, 11, {'stop': F['FAILED'], 'signal': F['FAILED'], 'clear': F['FAILED']}),
                           Proc('g', 'a', PS.STOPPED, 0, {'start': F['NO_FILE']}), Proc('g', 'b', PS.RUNNING, 12),
                           Proc('h', 'h', PS.STOPPING, 13), Proc('u', 'u', PS.UNKNOWN, 0), Proc('k', 'k', PS.BACKOFF, 0)],
                          {'foo': ['foo'], 'g': ['a', 'b'], 'u': ['u'], 'k': ['k'], 'new': ['new']}, changed=['g', 'k'])),
        ('same-names', World([Proc('web', 'worker_0', PS.RUNNING, 21), Proc('web', 'worker_1', PS.STOPPED),
                              Proc('api', 'worker_0', PS.STOPPED), Proc('api', 'worker_1', PS.RUNNING, 22),
                              Proc('worker_0', 'x', PS.RUNNING, 23)],
                             {'web': ['worker_0', 'worker_1'], 'api': ['worker_0', 'worker_1'], 'worker_0': ['x']})),
        ('uncreatable', World(mix(), dict(cfg, sock=['sock'], new=['new'], zed=['zed']), uncreatable=['sock', 'zed'])),
        ('shutting', World(mix(), cfg, shutting=True)),
        # the "wrong API version" server state, on both sides of the client's version (compared as strings '10.0' < '3.0')
        ('api-older', World(mix(), cfg, api='2.0')),
        ('api-newer', World(mix(), cfg, api='3.1')),
        ('api-newer-string-lower', World(mix(), cfg, api='10.0')),
    ]
    return res


def pools(w, groups_only):
    """(known names, unknown names) for a world"""
    gs = w.groups()
    avail = [g for g in w.config if g not in gs]
    if groups_only:
        known = gs + avail
        unknown = ['nosuch', 'typo'] + [p.ns() for p in w.procs if p.ns() not in gs and p.ns() not in avail][:1] + \
                  [g + ':*' for g in gs[:1]]
        return known, unknown
    known = [p.ns() for p in w.procs] + [g + ':*' for g in gs] + [g + ':' for g in gs[:1]]
    unknown = ['nosuch', 'nosuch:*', 'typo:x'] + [g + ':nosuch' for g in gs[:1]]
    # a bare process name of a grouped process, a bare group name without a process of that name, an available group
    unknown += [p.name for p in w.procs if p.name != p.group and not w.lookup(p.name)][:1]
    unknown += [g for g in gs if not w.lookup(g)][:1]
    unknown += [g for g in avail][:1]
    return known, unknown


def name_lists(known, unknown):
    K, U = known[:3], unknown[:3]
    out = [[]] + [[k] for k in known] + [[u] for u in unknown]
    for k in K:
        for u in U:
            out += [[k, u], [u, k]]
    if len(U) > 1: out.append([U[0], U[1]])
    if len(K) > 1: out += [[K[0], K[1]], [K[1], K[0]]]
    if len(K) > 1 and U: out.append([K[0], U[0], K[1]])
    if K: out.append([K[0], K[0]])
    out.append(['all'])
    if U: out += [[U[0], 'all'], ['all', U[0]]]
    return out


def lines_for(action, names):
    if action == 'signal':
        return ['signal HUP ' + ' '.join(names)] if names else []
    if action == 'tail':
        if len(names) != 1:
            return []
        return ['tail ' + names[0], 'tail -f ' + names[0], 'tail -20 %s stderr' % names[0]]
    if action == 'fg':
        return ['fg ' + ' '.join(names)]
    return [(action + ' ' + ' '.join(names)).strip()]


GROUP_ACTIONS = ('add', 'remove', 'update')


def systematic(full):
    """(tag, world, line) for every fixed world x name-taking action x name list"""
    for wname, w in fixed_worlds():
        for action in NAME_ACTIONS:
            known, unknown = pools(w, action in GROUP_ACTIONS)
            lists = name_lists(known, unknown)
            if not full:
                lists = lists[:1] + lists[1::2] if len(lists) > 24 else lists
            for names in lists:
                for line in lines_for(action, names):
                    yield 'world:' + wname, w, line


def random_world(rng):
    PS = _states().ProcessStates
    F = _B().faults()
    sts = [PS.STOPPED, PS.STARTING, PS.RUNNING, PS.RUNNING, PS.BACKOFF, PS.STOPPING, PS.EXITED, PS.FATAL, PS.UNKNOWN,
           PS.RUNNING, PS.STOPPED]
    gpool = ['foo', 'bar', 'g', 'h', 'web', 'a', 'café']
    ppool = ['a', 'b', 'w_0', 'foo']
    mode = rng.choice(['none', 'uniform', 'mixed', 'mixed', 'mixed'])
    procs, config = [], {}
    if mode != 'none':
        uni = rng.choice([PS.STOPPED, PS.RUNNING])
        for g in rng.sample(gpool, rng.randrange(1, 5)):
            pn = [g] if rng.random() < 0.4 else rng.sample(ppool, rng.randrange(1, 4))
            config[g] = list(pn)
            for n in pn:
                st = uni if mode == 'uniform' else rng.choice(sts)
                fl = {}
                if rng.random() < 0.15:
                    op = rng.choice(['start', 'stop', 'signal', 'clear'])
                    fl[op] = rng.choice({'start': [F['SPAWN_ERROR'], F['NO_FILE'], F['NOT_EXECUTABLE'], F['ABNORMAL_TERMINATION']],
                                         'stop': [F['FAILED']], 'signal': [F['FAILED']], 'clear': [F['FAILED']]}[op])
                logs = {'stdout': rng.choice(['', 'line one\nline two\n', None, 'no newline']), 'stderr': rng.choice([None, 'err\n'])}
                procs.append(Proc(g, n, st, rng.randrange(1, 30000) if st in (PS.RUNNING, PS.STARTING, PS.STOPPING) else 0, fl, logs))
    changed = []
    # pending configuration change: mostly none (the no-op situation), sometimes some
    if rng.random() < 0.45:
        for g in list(config):
            x = rng.random()
            if x < 0.2: del config[g]
            elif x < 0.4: changed.append(g)
        for g in rng.sample(['new', 'zeta', 'foo2'], rng.randrange(0, 3)):
            config[g] = [g]
    unc = [g for g in config if rng.random() < 0.12]
    return World(procs, config, changed, shutting=rng.random() < 0.04,
                 mainlog=rng.choice(['main\n', 'main\n', None]), uncreatable=unc,
                 api=rng.choice(_B().WRONG_API) if rng.random() < 0.05 else None)


def random_line(rng, w):
    action = rng.choice(NAME_ACTIONS + ('update', 'status', 'start', 'stop'))
    known, unknown = pools(w, action in GROUP_ACTIONS)
    n = rng.choice([0, 1, 1, 2, 2, 3, 4])
    names = []
    for _ in range(n):
        x = rng.random()
        if x < 0.45 and known: names.append(rng.choice(known))
        elif x < 0.93: names.append(rng.choice(unknown))
        else: names.append('all')
    if action == 'signal':
        return 'signal %s %s' % (rng.choice(['HUP', 'TERM', '9', 'BOGUS']), ' '.join(names))
    if action == 'tail':
        return ' '.join(['tail'] + ([rng.choice(['-f', '-10', '-0'])] if rng.random() < 0.5 else []) + names[:1] +
                        ([rng.choice(['stdout', 'stderr', 'STDERR'])] if rng.random() < 0.4 else []))
    if action == 'fg':
        return 'fg ' + ' '.join(names[:rng.choice([1, 1, 1, 2])])
    sep = rng.choice([' ', ' ', '  ', '\t'])
    return action + (' ' + sep.join(names) if names else '')
