"""
C12 -- XML-RPC exposes only the public API; answers are results or documented faults.

Correspondence (real code vs Model/Rpc.lean, same cases):
  rec      xmlrpc.traverse over RootRPCInterface and AttrDict roots holding *recording* namespaces (bound methods of every
           arity shape, class/static methods, plain attributes, None, lambdas, foreign bound methods): every name
           reachable from the objects, dunder names, dotted chains, empty parts, 0..4 arguments; and
           SystemNamespaceRPCInterface.multicall over the same namespaces with immediate, faulting, raising and
           deferred calls, polled to completion
  real     traverse over the real RootRPCInterface([supervisor, system]) built as make_http_servers does, with
           the real SupervisorNamespaceRPCInterface over supervisor.tests.base dummies: every attribute name reachable from
           the root and the interface objects x argument tuples with 32-bit edge values; observable = refused /
           arity fault / body entered (sys.setprofile on the method's code object)
  gate     every public method of the real interface in every mood: SHUTDOWN_STATE or not, and whether anything changed
  addgroup supervisor.addProcessGroup on a REAL daemon (real ServerOptions on a configuration file, real Supervisor and group
           classes) whose groups cannot always be created: what Supervisor.add_process_group does (added / already active /
           exception class raised) -> the answer, vs Model/Rpc.lean addProcessGroup (generated except clause addGroupCatches)
  collect  the real medusa body collector and the real channel's header buffer fed byte strings (the bodies of the
           fragmented end-to-end requests as they were cut, valid and damaged UTF-8) in pieces: the text handed on, or the
           exception raised, vs Model/Rpc.lean requestBody / requestHeader
Monitors: the statement itself (closure, arity, gating, documented fault codes), and the real
supervisor_xmlrpc_handler end-to-end: requests as HTTP bytes into a real deferring_http_channel, judged on the response bytes
(status, Content-Length == body bytes, body parses, value == the direct call's value; immediate and deferred answers, non-ASCII
names / signals / log contents / multicall elements).
Delivery is a standard dimension of every end-to-end request: the same request is also handed to the channel cut into
pieces (headers | body, inside the blank line, inside every multi-byte character, random 2..8 pieces, byte at a time; for the
fragmentation corpus EVERY 2-piece cut of the whole request), as HTTP/1.0 / keep-alive / close / with a UTF-8 header value,
with bodies larger than the channel's 4096-byte reads, and as the 2nd..4th request of one connection; the answer (HTTP
status + XML-RPC value or fault code and text) must be a complete well-formed response and the same as for the request
delivered at once.  Groups that cannot be created (F48, F49): addProcessGroup / removeProcessGroup / reloadConfig(+add) over the
wire against a real daemon with an fcgi-program socket in a missing directory / on a busy TCP port, the child log directory
removed, a ValueError injected into after_setuid()/make_group() of a plain and an event-listener group, in all four moods:
never an HTTP 500 (http-500:<method>), no exception escaping the direct call (rpc-internal-error:<method>), value of the
documented shape, answer consistent with the daemon's group table, SHUTDOWN_STATE below RUNNING.
(Fragmentation kinds: no-answer-to-fragmented-request, answer-depends-on-fragmentation, answer-depends-on-http-variant,
no-answer-on-reused-connection, answer-depends-on-connection-reuse).
Deferred calls complete (run_waits, run_waits2): every method that answers later (startProcess / stopProcess wait=true, the
group:* / ProcessGroup / AllProcesses forms, system.multicall of them) against processes that are put into ANY of the eight states
(with or without a spawn error) at every main-loop tick -- forced schedules on dummy processes, and two-client interleavings on
the real Subprocess state machine (another client stops/starts, the child exits, startsecs elapse, a kill fails).  Once every
process is in a state it need not move on from (start: not STARTING; stop: a stopped state) the HTTP response must complete
(deferred-call-never-completes:<method>), be a documented value/fault, and be what the calls made one after another answer
(reference = Model/Rpc.lean `seq`).  Correspondence 'wait': the real onwait callbacks in every (spawnerr, state), the defers
test, and the callback polled along schedules vs the generated startOnwait/stopOnwait/…Defers and waitPolls.
Log files as a state dimension (run_logstates, run_logs_real): every log-related method x the file of each channel being there /
empty / not there yet or removed / NONE / a directory, over the wire (dummy world), and on a REAL daemon (real ServerOptions,
Subprocess, dispatchers, loggers) never started / running / its files removed / its log directory removed: never a 500,
documented fault codes, the documented shape of the value (value-shape:<method>, from the @return tag), SHUTDOWN_STATE below
RUNNING, and system.multicall == the calls one by one.
"""
import errno, inspect, os, random, re, socket, sys, types
from framework import Infra

ID = 'C12'
LEAN_PROPS = 'SupervisorModel.Props.C12'
DRIVER = 'drv_c12'
GENERATED = ['Rpc']
TRUSTED = [
    "Python's getattr / bound-method creation / argument binding (a call with a wrong number of positional arguments raises TypeError before the body runs): a parameter of the model (Kind, minArgs, maxArgs), exercised not verified",
    "str.split('.') and str.startswith('_') are modelled on character lists (splitDot, head?)",
    "method *bodies* are arbitrary state transformers in the theorems; which faults each real body raises is read off the AST (raisesTable), not proved from the body",
    "xmlrpclib marshalling, the medusa request/producer objects and DeferredXMLRPCResponse are exercised, not modelled: every end-to-end request is sent as HTTP bytes over a socketpair into a real deferring_http_channel (only its server object is a stub) with the real supervisor_xmlrpc_handler installed, and judged on the bytes that come back; modelled and proved are only the Content-Length computation of the two response builders (generated contReq_a9/defResp_a1) and the way in: what the body collector keeps per received piece and hands to continue_request, what the channel's header buffer keeps and decodes (generated collKept/collHanded/chanKept/chanHeader; fragmentation invariance and encode/decode round trip)",
    "addProcessGroup: Supervisor.add_process_group (after_setuid + make_group of the real configuration classes) is the seam of the model: its three outcomes (added / already active / an exception of some class) are parameters; which classes the RPC method catches and the fault it answers are generated (addGroupCatches, from the AST of the try statement) and Python's exception hierarchy is dumped from the interpreter (excMro); removeProcessGroup and reloadConfig bodies are exercised on the real daemon, not modelled",
    "asynchat's terminator scanning (which bytes of a recv() go to collect_incoming_data in which portions) is exercised through the real channel, not modelled; the invariance theorems hold for EVERY portioning, so they do not depend on it",
    "bytes.decode('utf-8') is modelled by a byte-at-a-time automaton (Unicode table 3-7); its accept/reject decisions and results are compared with CPython's on valid and damaged input (correspondence 'collect')",
    "'never 500 / never hangs / daemon survives' is PARTIAL: proved = refused names and arity errors answer a fault without running anything, gated methods answer SHUTDOWN_STATE, log methods never raise (C16 log_rpc_never_raises), every fault name is in Faults, the start/stop callbacks answer in every state the process need not move on from (deferred_wait_completes), no public method returns a tuple to xmlrpc_marshal (answers_never_tuples); exercised = the real handler on every public method with arguments of the documented types",
    "deferred waits: what one poll of the callback of startProcess/stopProcess(wait=True) answers is generated from the AST of the nested callback (whole body: if / raise RPCError(Faults.X) / return True / return NOT_DONE_YET over process.spawnerr and process.get_state(); the report-only call process.stop_report() is skipped); make_allfunc's closure and clearAllProcessLogs' clearall are exercised (C13 models make_allfunc), not modelled here; that a process leaves STARTING / reaches a stopped state is the liveness of the process state machine (C01-C04)",
    "marshalling: xmlrpc_marshal's two tests are generated (marshal_g0/g1); xmlrpclib.dumps' assertion `len(params) == 1` for a methodresponse is modelled by hand and compared with the real function on values of every shape (correspondence 'wait': marshal ops); answerShapes is SYNTACTIC (the AST shape of every return expression reachable from a public method through returned helper calls, returned nested functions and make_allfunc); values computed elsewhere are `opaque`",
]
ASSUMPTIONS = [
    "arguments have the documented XML-RPC types (other types can raise inside int()/split_namespec and are outside the statement)",
    "interface objects are those registered by make_http_servers (RootRPCInterface + SystemNamespaceRPCInterface); the closure theorems hold for any attribute table",
]
RULE = ("rec: attribute tables drawn from the kinds {bound method with (min,max) arity and behaviour value/fault/raise/TypeError/deferred, "
        "classmethod, staticmethod, lambda attribute, int, None}, names = all ns x attr incl. dunder and private, dotted chains, empty parts, "
        "0..4 arguments; multicall = random compositions incl. recursion, missing methodName, deferred calls; real: every name reachable "
        "from the live interface objects x argument tuples of 32-bit edge values / strings; gate: public methods x 4 moods; "
        "e2e: every public method x generated arguments of the documented types x deliveries (at once; cut headers|body, inside the blank "
        "line, inside each multi-byte character, at random into 2..8 pieces, byte at a time; every 2-piece cut for the fragmentation corpus "
        "and a sample of methods with non-ASCII arguments; bodies of 4..16 KB; HTTP/1.0, keep-alive, close, UTF-8 header value; 2..4 requests "
        "on one connection); collect: byte strings (UTF-8 of texts with 1..4-byte characters, damaged by truncation / overlong forms / "
        "surrogates / stray bytes) x every 2-piece cut, byte at a time, random cuts; connection reuse: after every request of every "
        "end-to-end population whose connection stays open (always after an answer given later, a sample after answers given at once) a "
        "second read-only request follows on that connection; sessions of 2..5 requests on one connection x HTTP variant per request "
        "(persistent, keep-alive, closing: the client reconnects) x any call incl. the ones answered later (start/stop with wait, group and "
        "all forms, clearAllProcessLogs, multicalls containing them; against the e2e world and against 1..3 processes following scripts) "
        "followed by any other call; groups: real daemons x {no failure, child log directory "
        "removed, ValueError injected in after_setuid / make_group} x 4 moods x {program, numprocs program, eventlistener, fcgi-program "
        "on a missing directory / busy port / good socket, unknown and non-ASCII names} x add-add-remove-remove and random sequences "
        "with rewritten configuration + reloadConfig; waits: deferred methods (single, group:*, ProcessGroup, AllProcesses, multicall of 2..4 calls) x "
        "1..3 processes x scripts (state on arrival, state after the method's own spawn()/stop(), a state and spawn-error flag for each of 1..4 ticks, "
        "all eight states; for a single start/stop every (after, tick 1[, tick 2]) combination) and two-client interleavings on the real Subprocess "
        "(0..5 events of: stop/start by another client, child exit, timers running out, kill failing; then the world comes to rest); "
        "log states: every log-related method x {present, empty, never/removed, NONE, directory} per channel and for the main log, offsets/lengths from "
        "small windows and 32-bit edges, 4 moods; real daemon x {fresh, running, running-removed, running-dir-removed} x 4 programs (explicit files, NONE, AUTO, "
        "redirect_stderr).  non-trivial = the name resolves or is refused by a "
        "rule other than 'unknown namespace'; distinct = distinct (table-hash, name, argument count/values, mood)")

EDGES = [0, 1, -1, 2**31 - 1, -2**31, 2**31 - 2, 7]


def hx(s):
    b = s.encode('utf-8')
    return b.hex() if b else '-'


# =================================================================================================
# recording namespaces
# =================================================================================================
def make_function(label, mn, mx, beh, log, first='self'):
    """a Python function with exactly mn required and mx-mn optional positional parameters"""
    from supervisor.xmlrpc import RPCError
    from supervisor.http import NOT_DONE_YET
    params = [first] + ['a%d' % i for i in range(mn)] + ['b%d=_missing' % i for i in range(mx - mn)]
    names = ['a%d' % i for i in range(mn)] + ['b%d' % i for i in range(mx - mn)]
    def body(args):
        n = sum(1 for a in args if a is not _missing)
        log.append('%s/%d' % (label, n))
        return finish(beh, True)
    def finish(b, first_call):
        k = b[0]
        if k == 'v': return b[1]
        if k == 'f': raise RPCError(b[1])
        if k == 'x': raise ValueError('boom')
        if k == 't': raise TypeError('inside the body')
        if k == 'd':
            left = [b[1]]
            def cb():
                log.append('poll:' + label)
                if left[0] > 0:
                    left[0] -= 1
                    return NOT_DONE_YET
                return finish(b[2], False)
            cb.delay = 0.05
            return cb
    ns = {'_body': body, '_missing': _missing}
    exec('def f(%s):\n    return _body([%s])' % (', '.join(params), ', '.join(names)), ns)
    return ns['f']


_missing = object()


def beh_text(b):
    if b[0] == 'v': return 'v%d' % b[1]
    if b[0] == 'f': return 'f%d' % b[1]
    if b[0] in ('x', 't'): return b[0]
    return 'd%d,%s' % (b[1], beh_text(b[2]))


def gen_beh(rng, allow_deferred=True):
    r = rng.random()
    if r < 0.45: return ('v', rng.randrange(100))
    if r < 0.65: return ('f', rng.choice([1, 2, 3, 6, 10, 20, 30, 70]))
    if r < 0.75: return ('x',)
    if r < 0.82 or not allow_deferred: return ('t',)
    fin = rng.choice([('v', rng.randrange(100)), ('f', rng.choice([10, 30, 40, 50])), ('x',)])
    return ('d', rng.randrange(0, 4), fin)


ATTR_POOL = ['getPID', 'startProcess', 'listMethods', 'multicall', 'a', 'b1', 'supervisord', 'namespaces', 'x_y',
             '_update', '_private', '__init__', '__class__', '__dunder__', '_', '__call__']
NS_POOL = ['supervisor', 'system', 'ns', 'laforge', 'x']


def gen_world(rng, log):
    """returns (namespaces: [(name, instance)], entries: model table entries as text, spec: {ns: {attr: kind}})"""
    nss, entries, spec = [], [], {}
    for ns in rng.sample(NS_POOL, rng.randrange(1, 4)):
        cls_dict, inst_attrs, spec[ns] = {}, {}, {}
        for attr in rng.sample(ATTR_POOL, rng.randrange(2, 9)):
            label = '%s.%s' % (ns, attr)
            r = rng.random()
            if r < 0.55:
                mn = rng.randrange(0, 3); mx = mn + rng.randrange(0, 3)
                b = gen_beh(rng)
                cls_dict[attr] = make_function(label, mn, mx, b, log)
                spec[ns][attr] = ('m', mn, mx, b)
            elif r < 0.62:      # classmethod: a bound method (of the class)
                mn = rng.randrange(0, 2); mx = mn + rng.randrange(0, 2)
                b = gen_beh(rng, allow_deferred=False)
                cls_dict[attr] = classmethod(make_function(label, mn, mx, b, log, first='cls'))
                spec[ns][attr] = ('m', mn, mx, b)
            elif r < 0.69:      # staticmethod: a plain function, not a bound method
                cls_dict[attr] = staticmethod(make_function(label, 0, 1, ('v', 1), log, first='x=None'))
                spec[ns][attr] = ('o',)
            elif r < 0.76:      # function stored on the instance: not bound
                inst_attrs[attr] = make_function(label, 0, 0, ('v', 2), log, first='x=None')
                spec[ns][attr] = ('o',)
            elif r < 0.83:      # a bound method of a *different* object stored on the instance
                other = type('Other', (object,), {'m': make_function(label, 0, 1, ('v', 3), log)})()
                inst_attrs[attr] = other.m
                spec[ns][attr] = ('m', 0, 1, ('v', 3))
            elif r < 0.93:
                inst_attrs[attr] = rng.choice([5, 'text', [1, 2], {'k': 1}])
                spec[ns][attr] = ('o',)
            else:
                inst_attrs[attr] = None       # getattr(..., None) is None
                spec[ns][attr] = None
        if '__init__' in cls_dict or '__class__' in cls_dict or '__call__' in cls_dict:
            # keep instantiation and attribute machinery intact: move such names to plain data entries
            for k in ('__init__', '__class__', '__call__'):
                if k in cls_dict:
                    del cls_dict[k]; spec[ns].pop(k, None)
        for k in ('__class__', '__init__', '__call__'):
            if k in inst_attrs:
                del inst_attrs[k]; spec[ns].pop(k, None)
        inst = type('Rec_' + ns, (object,), cls_dict)()
        for k, v in inst_attrs.items():
            setattr(inst, k, v)
        if 'inner' not in spec[ns]:
            inner = type('Inner', (object,), {'go': make_function('%s.inner.go' % ns, 0, 1, ('v', 9), log)})()
            inst.inner = inner
            spec[ns]['inner'] = ('o',)
        nss.append((ns, inst))
    for ns, attrs in spec.items():
        entries.append(hx(ns))
        for attr, k in attrs.items():
            if k is None:
                continue
            if k[0] == 'o':
                entries.append('%s:%s:o' % (hx(ns), hx(attr)))
            else:
                entries.append('%s:%s:m%d,%d,%s' % (hx(ns), hx(attr), k[1], k[2], beh_text(k[3])))
    return nss, entries, spec


def names_for(rng, spec, n_random):
    nss = list(spec) + ['nosuch', '', '__class__', '__dict__']
    names = set()
    for ns in nss:
        attrs = list(spec.get(ns, {})) + ['nosuch', '', '_x', '__class__', '__init__']
        for a in attrs:
            names.add('%s.%s' % (ns, a))
            if rng.random() < 0.15:
                names.add('%s.%s.%s' % (ns, a, rng.choice(['x', '__call__', 'supervisord', ''])))
    for ns in spec:
        names.add('%s.inner.go' % ns); names.add('x.%s.inner.go' % ns)
    names.update(['', '.', '..', 'supervisor', 'supervisor.', '.getPID', 'system.multicall', 'supervisor..getPID',
                  'supervisor.supervisord.options.mood', 'a.b.c.d'])
    names = sorted(names)
    rng.shuffle(names)
    return names[:n_random] + ['%s.inner.go' % ns for ns in spec]


def outcome_line(fn, log):
    """run fn(), canonical outcome + what ran"""
    from supervisor.xmlrpc import RPCError
    before = len(log)
    try:
        v = fn()
        if isinstance(v, types.FunctionType):
            line = 'deferred'
        else:
            line = 'value %s' % (v,)
    except RPCError as e:
        line = 'fault %d' % e.code
    except Exception as e:
        line = 'raised ' + type(e).__name__
    ran = log[before:]
    return '%s ran=%s' % (line, ','.join(ran) if ran else '-')


def drive_multicall(system, calls, log, max_ticks=10000):
    from supervisor.http import NOT_DONE_YET
    from supervisor.xmlrpc import RPCError
    before = len(log)
    ticks = 1
    v = system.multicall(calls)
    while isinstance(v, types.FunctionType):
        r = v()
        ticks += 1
        if r is not NOT_DONE_YET:
            v = r
            break
        if ticks > max_ticks:
            return 'never-completes'
    def el(x):
        if isinstance(x, dict) and 'faultCode' in x:
            return 'f%d' % x['faultCode']
        return 'v%s' % (x,)
    ran = log[before:]
    return 'results=%s ticks=%d ran=%s' % (';'.join(el(x) for x in v) if v else '-', ticks, ','.join(ran) if ran else '-')


def rec_call(ctx, root, spec, entries, name, nargs, use_attrdict, log):
    """one traverse() on a recording world: canonical line + the closure/arity monitors of the statement"""
    from supervisor import xmlrpc
    line = outcome_line(lambda: xmlrpc.traverse(root, name, tuple(range(nargs))), log)
    ctx.count('rec:' + line.split(' ran=')[0].split()[0] + (line.split()[1] if line.startswith('fault') else ''))
    parts = name.split('.')
    k = spec.get(parts[0], {}).get(parts[1]) if len(parts) == 2 else None
    public = len(parts) == 2 and not parts[1].startswith('_') and k is not None and k[0] == 'm'
    ran = line.split(' ran=')[1]
    inp = {'part': 'rec', 'entries': entries, 'name': name, 'nargs': nargs, 'attrdict': use_attrdict}
    if not public and (ran != '-' or not line.startswith('fault 1 ')):
        ctx.violation('non-public-name-executed' if ran != '-' else 'refused-name-wrong-answer',
                      'name %r is not a public method of a namespace but traverse answered %r' % (name, line), inp)
    if public and not (k[1] <= nargs <= k[2]) and (ran != '-' or not line.startswith('fault 2 ')):
        ctx.violation('arity-not-incorrect-parameters', '%r takes %d..%d arguments, %d given: %r' % (name, k[1], k[2], nargs, line), inp)
    if public and k[1] <= nargs <= k[2] and ran == '-':
        ctx.violation('public-method-not-called', '%r with %d arguments: %r' % (name, nargs, line), inp)
    ctx.case_done(('rec', tuple(entries), name, nargs, use_attrdict), nontrivial=parts[0] in spec)
    return line


def multi_case(ctx, system, spec, entries, calls, log, shadowed):
    """one system.multicall polled to completion + the 'element for element what sequential calls return' monitors"""
    from supervisor import xmlrpc
    line = drive_multicall(system, calls, log)
    ctx.count('multi:calls', len(calls)); ctx.count('multi:ticks', int(line.split('ticks=')[1].split()[0]) if 'ticks=' in line else 0)
    if shadowed:
        return line        # a recording namespace called 'system' is shadowed by the real one in multicall's root
    log2 = []
    nss2, _, _ = rebuild(None, spec, log2)
    root2 = xmlrpc.AttrDict(dict(nss2)); root2['system'] = xmlrpc.SystemNamespaceRPCInterface(nss2)
    want = []
    for c in calls:
        nm = c.get('methodName')
        if nm is None or nm == 'system.multicall':
            want.append('f2'); continue
        want.append(single_result(root2, nm, tuple(c['params'])))
    got = line.split('results=')[1].split()[0] if 'results=' in line else line
    inp = {'part': 'multi', 'entries': entries, 'calls': calls}
    if got != (';'.join(want) if want else '-'):
        ctx.violation('multicall-differs-from-sequential', 'multicall answered %s, the calls one after another answer %s' % (got, ';'.join(want)), inp)
    ran_str = line.split('ran=')[1] if 'ran=' in line else line
    if ran_str != (','.join(log2) or '-'):
        ctx.violation('multicall-execution-order', 'multicall ran %s, sequential calls run %s' % (ran_str, ','.join(log2) or '-'), inp)
    ctx.case_done(('multi', tuple(entries), repr(calls)), nontrivial=len(calls) > 0)
    return line


def parse_beh(ts):
    def fin(t):
        return ('x',) if t == 'x' else (t[0], int(t[1:]))
    if ts[0] == 't':
        return ('t',)
    if ts[0].startswith('d'):
        return ('d', int(ts[0][1:]), fin(ts[1]))
    return fin(ts[0])


def spec_from_entries(entries):
    """the attribute table of a replay file back as a spec (plain data stands for every non-method attribute)"""
    unhx = lambda h: '' if h == '-' else bytes.fromhex(h).decode('utf-8')
    spec = {}
    for e in entries:
        f = e.split(':')
        ns = unhx(f[0]); spec.setdefault(ns, {})
        if len(f) == 3:
            if f[2] == 'o':
                spec[ns][unhx(f[1])] = ('o',)
            else:
                g = f[2][1:].split(',')
                spec[ns][unhx(f[1])] = ('m', int(g[0]), int(g[1]), parse_beh(g[2:]))
    return spec


def run_rec(ctx):
    from supervisor import xmlrpc
    rng = ctx.rng
    cases, impls = [], []
    for ci in range(ctx.n(60, 900)):
        log = []
        nss, entries, spec = gen_world(rng, log)
        use_attrdict = ci % 2 == 1
        root = xmlrpc.AttrDict(dict(nss)) if use_attrdict else xmlrpc.RootRPCInterface(nss)
        system = xmlrpc.SystemNamespaceRPCInterface([(n, o) for n, o in nss if n != 'system'])
        ops, il = [], []
        plan = []
        for ns_, attrs_ in spec.items():
            for a_, k_ in attrs_.items():
                if k_ is not None and k_[0] == 'm':
                    for n_ in sorted(set([k_[1], k_[2], max(0, k_[1] - 1), k_[2] + 1])):
                        plan.append(('%s.%s' % (ns_, a_), n_))
        for name in names_for(rng, spec, 30):
            for nargs in rng.sample(range(5), 2):
                plan.append((name, nargs))
        rng.shuffle(plan)
        for name, nargs in plan:
            ops.append('call %s %d' % (hx(name), nargs))
            il.append(rec_call(ctx, root, spec, entries, name, nargs, use_attrdict, log))
        # multicall over the system namespace's own root (AttrDict(namespaces) incl. 'system')
        callable_names = ['%s.%s' % (ns, a) for ns, at in spec.items() if ns != 'system' for a, k in at.items()]
        for _ in range(3):
            calls, items = [], []
            for _ in range(rng.randrange(0, 7)):
                r = rng.random()
                nargs = rng.randrange(0, 4)
                if r < 0.08:
                    calls.append({'params': list(range(nargs))}); items.append('*:%d' % nargs)
                    continue
                if r < 0.18: nm = 'system.multicall'
                elif r < 0.3 or not callable_names: nm = rng.choice(['nosuch.m', 'a.b.c', '', 'supervisor._update'])
                else: nm = rng.choice(callable_names)
                calls.append({'methodName': nm, 'params': list(range(nargs))}); items.append('%s:%d' % (hx(nm), nargs))
            ops.append('multi ' + (','.join(items) if items else '-'))
            il.append(multi_case(ctx, system, spec, entries, calls, log, any(n == 'system' for n, _ in nss)))
        cases.append(('case rpc ' + ' '.join(sys_entries(entries, nss)), ops)); impls.append(il)
    ctx.sample({'case': cases[0][0][:200], 'ops': cases[0][1][:4] + cases[0][1][-1:], 'impl': impls[0][:4] + impls[0][-1:]})
    ctx.correspond('rec', cases, impls)


def sys_entries(entries, nss):
    """the model table for a case: the recording namespaces, plus the entry that makes 'system.multicall' etc. resolvable
    only where the implementation's root has it (RootRPCInterface roots of this harness have no system namespace)"""
    return entries


def rebuild(rng, spec, log):
    """fresh instances of the same recording namespaces (same behaviours), for the sequential reference run"""
    nss = []
    for ns, attrs in spec.items():
        cls_dict, inst_attrs = {}, {}
        for attr, k in attrs.items():
            if k is not None and k[0] == 'm':
                cls_dict[attr] = make_function('%s.%s' % (ns, attr), k[1], k[2], k[3], log)
            elif k is not None:
                inst_attrs[attr] = 5
        inst = type('Rec2_' + ns, (object,), cls_dict)()
        for a, v in inst_attrs.items():
            setattr(inst, a, v)
        nss.append((ns, inst))
    return nss, None, None


def single_result(root, name, params):
    """what one call made on its own answers (deferred answers polled to completion)"""
    from supervisor import xmlrpc
    from supervisor.http import NOT_DONE_YET
    try:
        v = xmlrpc.traverse(root, name, params)
        while isinstance(v, types.FunctionType):
            r = v()
            if r is not NOT_DONE_YET:
                v = r
    except xmlrpc.RPCError as e:
        return 'f%d' % e.code
    except Exception:
        return 'f%d' % xmlrpc.Faults.FAILED
    return 'v%s' % (v,)


# =================================================================================================
# the real interface objects
# =================================================================================================
def make_real(mood=1, with_logs=None, pname='proc'):
    from supervisor.tests.base import DummyOptions, DummyPConfig, PopulatedDummySupervisor, DummyPGroupConfig
    from supervisor.rpcinterface import SupervisorNamespaceRPCInterface
    from supervisor import xmlrpc
    opts = DummyOptions()
    kw = {}
    if with_logs:
        kw = {'stdout_logfile': with_logs, 'stderr_logfile': with_logs}
    pconfig = DummyPConfig(opts, pname, '/bin/true', **kw)
    sup = PopulatedDummySupervisor(opts, 'grp', pconfig)
    opts.process_group_configs = [DummyPGroupConfig(opts, 'grp', pconfigs=[pconfig])]
    opts.logfile = with_logs
    opts.mood = mood
    sup.add_process_group = lambda config: False
    sup.remove_process_group = lambda name: False
    sup.diff_to_active = lambda: ([], [], [])
    iface = SupervisorNamespaceRPCInterface(sup)
    subs = [('supervisor', iface)]
    subs.append(('system', xmlrpc.SystemNamespaceRPCInterface(subs)))      # as make_http_servers does
    return sup, iface, subs


def snapshot(sup):
    s = {'mood': sup.options.mood, 'groups': sorted(sup.process_groups)}
    for g, grp in sup.process_groups.items():
        for n, p in grp.processes.items():
            s['%s:%s' % (g, n)] = sorted((k, repr(v)) for k, v in vars(p).items() if k not in ('config', 'group'))
    s['removed'] = repr(getattr(sup.options, 'removed', None))
    return s


def real_table(root):
    """attribute table of a live root object by introspection: (entries for the model, {ns: {attr: (kind, min, max, code)}})"""
    entries, tab = [], {}
    for ns in sorted(set(dir(root)) | set(getattr(root, 'keys', lambda: [])())):
        obj = getattr(root, ns, None)
        if obj is None:
            continue
        tab[ns] = {}
        entries.append(hx(ns))
        for attr in dir(obj):
            try:
                v = getattr(obj, attr, None)
            except Exception:
                continue
            if v is None:
                continue
            if inspect.ismethod(v):
                try:
                    sig = inspect.signature(v)
                    ps = list(sig.parameters.values())
                    mn = sum(1 for p in ps if p.kind in (p.POSITIONAL_ONLY, p.POSITIONAL_OR_KEYWORD) and p.default is p.empty)
                    mx = 10**6 if any(p.kind == p.VAR_POSITIONAL for p in ps) else sum(1 for p in ps if p.kind in (p.POSITIONAL_ONLY, p.POSITIONAL_OR_KEYWORD))
                    if any(p.kind == p.KEYWORD_ONLY and p.default is p.empty for p in ps):
                        mn, mx = 1, 0
                except (TypeError, ValueError):
                    mn, mx = 0, 10**6
                tab[ns][attr] = ('m', mn, mx, getattr(v.__func__, '__code__', None))
                entries.append('%s:%s:m%d,%d,v0' % (hx(ns), hx(attr), mn, mx))
            else:
                tab[ns][attr] = ('o',)
                entries.append('%s:%s:o' % (hx(ns), hx(attr)))
    return entries, tab


def deep_names(root, depth=4, limit=400):
    """dotted chains of three or more parts that lead, attribute by attribute, from the root to a bound method
    (what an object-traversing dispatcher would reach: CVE-2017-11610)"""
    out, seen = [], set()
    def walk(obj, path):
        if len(out) >= limit or len(path) >= depth or id(obj) in seen:
            return
        seen.add(id(obj))
        for a in dir(obj):
            if a.startswith('__'):
                continue
            try:
                v = getattr(obj, a)
            except Exception:
                continue
            if inspect.ismethod(v):
                if len(path) >= 2:
                    out.append('.'.join(path + [a]))
            elif hasattr(v, '__dict__') and not inspect.isclass(v) and not inspect.ismodule(v) and not inspect.isfunction(v):
                walk(v, path + [a])
    for ns in dir(root):
        if not ns.startswith('__'):
            walk(getattr(root, ns), [ns])
    return out


class Entered:
    """did a frame of this code object start?  (sys.setprofile; nothing in /repo is touched)"""
    def __init__(self, code):
        self.code, self.n = code, 0
    def __enter__(self):
        def prof(frame, event, arg):
            if event == 'call' and frame.f_code is self.code:
                self.n += 1
        self.old = sys.getprofile()
        sys.setprofile(prof)
        return self
    def __exit__(self, *a):
        sys.setprofile(self.old)


def gen_arg(rng):
    r = rng.random()
    if r < 0.5: return rng.choice(EDGES)
    if r < 0.8: return rng.choice(['grp:proc', 'proc', 'grp:*', 'nosuch', '', 'HUP', 'a:b:c', 'é'])
    return rng.choice([True, False])


def real_call(ctx, tab, name, args, mood):
    """one traverse() on the real interface objects (fresh world): refused / arity fault / body entered + monitors"""
    from supervisor import xmlrpc
    parts = name.split('.')
    nargs = len(args)
    k = tab.get(parts[0], {}).get(parts[1]) if len(parts) == 2 else None
    public = len(parts) == 2 and not parts[1].startswith('_') and k is not None and k[0] == 'm'
    sup, iface, subs = make_real(mood=mood)
    root = xmlrpc.RootRPCInterface(subs)
    target = None
    if public:       # the fresh objects' code objects are the same functions
        target = getattr(getattr(root, parts[0]), parts[1]).__func__.__code__
    before = snapshot(sup)
    with Entered(target) as ent:
        try:
            xmlrpc.traverse(root, name, tuple(args))
            res = 'ok'
        except xmlrpc.RPCError as e:
            res = 'fault %d' % e.code
        except BaseException as e:
            res = 'raised ' + type(e).__name__
    line = 'value 0 ran=%s/%d' % (name, nargs) if ent.n else '%s ran=-' % res
    inp = {'part': 'real', 'name': name, 'args': list(args), 'mood': mood}
    ctx.count('real:' + ('entered' if ent.n else res))
    if not public:
        if res != 'fault 1' or snapshot(sup) != before:
            ctx.violation('non-public-name-executed' if snapshot(sup) != before else 'refused-name-wrong-answer',
                          'traverse(%r, %r) answered %s' % (name, args, res), inp)
    elif not (k[1] <= nargs <= k[2]):
        if res != 'fault 2' or ent.n or snapshot(sup) != before:
            ctx.violation('arity-not-incorrect-parameters', '%r takes %d..%d arguments, %d given: %s (entered=%d)' % (name, k[1], k[2], nargs, res, ent.n), inp)
    elif not ent.n:
        ctx.violation('public-method-not-called', '%r with %d arguments: %s' % (name, nargs, res), inp)
    ctx.case_done(('real', name, tuple(args)), nontrivial=parts[0] in tab)
    return line


def run_real(ctx):
    from supervisor import xmlrpc
    rng = ctx.rng
    sup, iface, subs = make_real()
    root = xmlrpc.RootRPCInterface(subs)
    entries, tab = real_table(root)
    # every reachable name: ns x attr for every attribute of the root and of each object hanging off it
    names = set()
    for ns, attrs in tab.items():
        for a in attrs:
            names.add('%s.%s' % (ns, a))
        names.add(ns); names.add(ns + '.'); names.add(ns + '.nosuch')
    for a in tab.get('supervisor', {}):
        names.add('supervisor.supervisord.' + a); names.add('system.namespaces.supervisor.' + a)
    names.update(['supervisor.supervisord.options.mood', 'supervisor.supervisord.options.logger.handlers', 'system.namespaces.clear',
                  '__class__.__init__', '__dict__.clear', '__init__.__func__', '.', '', 'supervisor..getPID', '__class__.mro'])
    names.update(deep_names(root))
    names = sorted(names)
    ctx.count('real:names', len(names)); ctx.count('real:table-entries', len(entries))
    ops, il = [], []
    per = 2 if ctx.tier == 'quick' else 4
    for name in names:
        parts = name.split('.')
        k = tab.get(parts[0], {}).get(parts[1]) if len(parts) == 2 else None
        public = len(parts) == 2 and not parts[1].startswith('_') and k is not None and k[0] == 'm'
        argcounts = sorted(set([0, 1] + ([k[1], min(k[2], 4), min(k[2] + 1, 5)] if public else []) + [rng.randrange(0, 5) for _ in range(per)]))
        for nargs in argcounts:
            args = tuple(gen_arg(rng) for _ in range(nargs))
            ops.append('call %s %d' % (hx(name), nargs))
            il.append(real_call(ctx, tab, name, args, rng.choice([1, 1, 1, 2])))
    cases = [('case rpc ' + ' '.join(entries), ops)]
    ctx.sample({'case': 'rpc (live table, %d entries)' % len(entries), 'ops': ops[:3], 'impl': il[:3]})
    ctx.correspond('real', cases, [il])


# =================================================================================================
# gating in every mood
# =================================================================================================
def doc_sections():
    from framework import REPO
    doc = open(os.path.join(REPO, 'docs', 'api.rst')).read().split('\n')
    sections, cur = {}, None
    for i, line in enumerate(doc):
        if i + 1 < len(doc) and re.match(r'^-{3,}\s*$', doc[i + 1]) and line.strip():
            cur = line.strip(); sections[cur] = []
        m = re.match(r'\s*\.\. automethod:: (\w+)', line)
        if m and cur:
            sections[cur].append(m.group(1))
    return sections


def typed_args(rng, func, valid=True):
    """arguments of the documented types (@param tags of the docstring)"""
    from supervisor.xmlrpc import gettags
    args = []
    for t in gettags(func.__doc__ or ''):
        if t[1] != 'param':
            continue
        ty, nm = t[2], t[3]
        if ty == 'string':
            if nm == 'signal': args.append(rng.choice(['HUP', '1', 'TERM', 'BOGUS', '', '15', '99999', 'SIGN\u00c9', '\u20ac']))
            elif nm in ('chars', 'data', 'type'): args.append(rng.choice(['hello\n', '', 'é€', 'x' * 300]))
            else: args.append('grp:proc' if valid and rng.random() < 0.6 else rng.choice(['grp:proc', 'proc', 'grp:*', 'grp', 'nosuch', 'grp:nosuch', '', 'a:b:c', 'é', '*', 'grp:pr\u00f6c', 'n\u00e9ant:\u20ac', '\U0001f600']))
        elif ty == 'int':
            args.append(rng.choice(EDGES) if rng.random() < 0.7 else rng.randrange(-2**31, 2**31))
        elif ty == 'boolean':
            args.append(rng.random() < 0.5)
        elif ty == 'array':
            args.append([{'methodName': 'supervisor.getPID', 'params': []}, {'methodName': 'supervisor.nosuch'}, {'methodName': 'system.multicall', 'params': [[]]}])
        else:
            args.append({})
    return args


def gate_case(ctx, name, mood, args, control):
    """one public method of the real interface in one mood: SHUTDOWN_STATE or not, and whether anything changed"""
    from supervisor import xmlrpc, events
    sup, iface, subs = make_real(mood=mood)
    root = xmlrpc.RootRPCInterface(subs)
    seen = []
    events.clear(); events.subscribe(events.Event, seen.append)
    before = snapshot(sup)
    try:
        xmlrpc.traverse(root, 'supervisor.' + name, tuple(args))
        res = 'passes'
    except xmlrpc.RPCError as e:
        res = 'fault %d' % e.code if e.code == xmlrpc.Faults.SHUTDOWN_STATE else 'passes'
    except Exception:
        res = 'passes'
    events.clear()
    changed = 1 if (snapshot(sup) != before or seen) else 0
    ctx.count('gate:' + res.split()[0] + ('' if mood >= 1 else '-below-running'))
    ctx.case_done(('gate', name, mood), nontrivial=True)
    if mood < 1 and name in control and (res != 'fault %d' % xmlrpc.Faults.SHUTDOWN_STATE or changed):
        ctx.violation('ungated-while-shutting-down:' + name,
                      'supervisor.%s%r in mood %d answered %s, changed=%d (events %d)' % (name, tuple(args), mood, res, changed, len(seen)),
                      {'part': 'gate', 'name': name, 'mood': mood, 'args': list(args)})
    return '%s changed=%d' % (res, changed) if res.startswith('fault') else 'passes'


def run_gate(ctx):
    rng = ctx.rng
    control = set(doc_sections().get('Process Control', []))
    sup, iface, subs = make_real()
    publics = sorted(a for a in dir(iface) if not a.startswith('_') and inspect.ismethod(getattr(iface, a)))
    ops, il = [], []
    # regression corpus: F39 (fixed in e65d15a) -- sendRemoteCommEvent used to answer True and emit an event while shutting down
    for mood in (-1, 0):
        ops.append('gate sendRemoteCommEvent %d 1' % mood)
        il.append(gate_case(ctx, 'sendRemoteCommEvent', mood, ['t', 'd'], control))
    for name in publics:
        for mood in (-1, 0, 1, 2):
            args = typed_args(rng, getattr(iface, name))
            ops.append('gate %s %d 1' % (name, mood))
            il.append(gate_case(ctx, name, mood, args, control))
    ctx.sample({'case': 'rpc gate', 'ops': ops[:4], 'impl': il[:4]})
    ctx.correspond('gate', [('case rpc', ops)], [il])


# =================================================================================================
# end to end: the real supervisor_xmlrpc_handler on marshalled requests
# =================================================================================================
_CTX = [None]          # the running ctx (framing monitor is applied to every end-to-end request)
_FRAMES = []           # (kind 'i'|'d', response text, Content-Length header, body bytes) for the framing correspondence


class _FakeServer:
    """what deferring_http_channel needs of its server; everything else (channel, request, producers, handler) is real"""
    SERVER_IDENT = 'verif'
    def __init__(self, handlers):
        from supervisor.medusa.counter import counter
        self.handlers = handlers
        self.total_requests, self.bytes_out, self.bytes_in, self.exceptions = counter(), counter(), counter(), counter()
        self.logger = type('L', (), {'log': staticmethod(lambda *a: None)})()
    def log_info(self, *a, **k):
        pass


HTTP_VARIANTS = {      # request line version + extra header lines (the answer must not depend on them)
    '1.1': ('HTTP/1.1', ['Host: x']),
    '1.0': ('HTTP/1.0', []),
    '1.0-keepalive': ('HTTP/1.0', ['Connection: keep-alive']),
    '1.1-close': ('HTTP/1.1', ['Host: x', 'Connection: close']),
    '1.1-utf8-header': ('HTTP/1.1', ['Host: x', 'X-Note: caf\u00e9 \u20ac \U0001f600', 'content-TYPE: text/xml']),
}


def build_raw(method, params, http='1.1'):
    """the bytes of one XML-RPC POST as xmlrpclib + an HTTP client put them on the wire -> (raw, header length)"""
    from supervisor.compat import xmlrpclib
    version, extra = HTTP_VARIANTS[http]
    body = xmlrpclib.dumps(tuple(params), method).encode('utf-8')
    lines = ['POST /RPC2 %s' % version] + extra + ['Content-Type: text/xml', 'Content-Length: %d' % len(body)]
    head = ('\r\n'.join(lines) + '\r\n\r\n').encode('utf-8')
    return head + body, len(head)


def pieces_of(raw, cuts):
    """raw cut at the byte offsets `cuts` (strictly inside, ascending): what each recv() of the server returns"""
    if not cuts:
        return [raw]
    pos = [0] + list(cuts) + [len(raw)]
    return [raw[pos[i]:pos[i + 1]] for i in range(len(pos) - 1)]


class Wire:
    """One client connection: a socketpair into a REAL deferring_http_channel whose server has the real
    supervisor_xmlrpc_handler installed.  A request reaches the channel as the network would deliver it: in the pieces
    given by `cuts` (byte offsets into the whole request, header included; None = written at once, which the channel
    reads in recv(4096) portions); every piece is handed to the channel by asyncore.read(), i.e. with asyncore's own
    error handling (an exception escaping handle_read closes the channel, as in the daemon).  The channel's own output
    machinery (push_with_producer, refill_buffer, initiate_send) puts the response on the socket and we read the bytes
    a client would receive.  Several requests can be exchanged one after another on the same connection."""
    def __init__(self, handler):
        from supervisor.http import deferring_http_channel
        self.a, self.b = socket.socketpair()
        ch = self.ch = deferring_http_channel(_FakeServer([handler]), self.a, ('127.0.0.1', 0))
        self.pushed, self.closed, self.said = [], [], []
        orig_push, orig_close = ch.push_with_producer, ch.close
        ch.push_with_producer = lambda p: (self.pushed.append(p), orig_push(p))[1]
        ch.close = lambda: (self.closed.append(1), orig_close())[1]
        ch.log_info = lambda msg, level='info': self.said.append(msg)          # asyncore's default prints
        self.b_blocking = True

    def exchange(self, raw, cuts=None, between_polls=None, max_polls=80, ticks=None):
        """-> (bytes received, polls, deferred?, 'never-completes' | None)
        ticks: the main loop's iterations as the daemon has them: the request is dispatched and, when its answer is deferred,
        the producer is polled once at once (push_with_producer -> initiate_send -> refill_buffer -> more()); from then on it
        is polled once per loop iteration, and ticks(i) is everything else that happens before the poll of iteration i."""
        import select
        from supervisor.medusa import asyncore_25 as asyncore
        from supervisor import xmlrpc
        ch, a, b, closed = self.ch, self.a, self.b, self.closed
        del self.pushed[:]
        out, polls = b'', 0
        b.setblocking(True)
        for piece in pieces_of(raw, cuts):
            if closed:
                break                   # the server hung up: a client's further writes go nowhere
            try:
                b.sendall(piece)
            except OSError:
                break
            while not closed and select.select([a], [], [], 0)[0]:
                asyncore.read(ch)
        deferred = any(isinstance(p, xmlrpc.DeferredXMLRPCResponse) for p in self.pushed)
        b.setblocking(False)
        tickno = 0
        for _ in range(max_polls + 20):
            if ticks and any(isinstance(p, xmlrpc.DeferredXMLRPCResponse) and not p.finished for p in self.pushed):
                ticks(tickno); tickno += 1
            ch.delay = None          # refill_buffer sets it to the producer's delay (possibly 0.0) on NOT_DONE_YET, to False on data
            if not closed:
                ch.initiate_send()
            try:
                while True:
                    d = b.recv(1 << 16)
                    if not d:
                        break
                    out += d
            except BlockingIOError:
                pass
            except OSError:             # the server hung up with part of the request unread: the client sees a reset
                closed.append(1)
            if ch.delay is not None and ch.delay is not False:
                polls += 1
                if between_polls:
                    between_polls(polls)
                if polls > max_polls:
                    return out, polls, deferred, 'never-completes'
                continue
            if closed or (not len(ch.producer_fifo) and not ch.ac_out_buffer):
                break
        return out, polls, deferred, None

    def close(self):
        try:
            self.ch.close()
        except Exception:
            pass
        self.b.close()


def server_said(w):
    """what the channel logged when it hung up (object addresses and the traceback removed)"""
    if not (w.closed and w.said):
        return None
    t = re.sub(r'<supervisor\.http\.deferring_http_channel[^>]*>', '<channel>', w.said[-1])
    return re.sub(r'\s*\[/.*$', '', t, flags=re.S)[:240]


def short(x, n=160):
    r = repr(x)
    return r if len(r) <= n else r[:n] + '...(%d characters)' % len(r)


def judge_response(ctx, method, out, deferred, inp, cuts=None, noresp_kind=None, server_said=None):
    """the bytes a client received for one request -> dict(status, headers, body, cl, answer, fault_string); the framing
    monitors (a complete, well-formed HTTP response whose Content-Length is the number of body bytes) are applied here"""
    from supervisor.compat import xmlrpclib
    res = {}
    head, sep, wire_body = out.partition(b'\r\n\r\n')
    lines = head.split(b'\r\n')
    try:
        res['status'] = int(lines[0].split()[1])
    except Exception:
        res['status'] = 'no-response'
        ctx.violation(noresp_kind or ('no-http-response:' + method), 'nothing parseable came back on the wire: %r%s%s' % (
            out[:80], ' (request delivered in %d pieces, cuts %r)' % (len(cuts) + 1, list(cuts)[:12]) if cuts else '',
            '; the channel was closed after: ' + server_said if server_said else ''), inp)
        return res
    res['headers'] = dict((k.strip().lower(), v.strip()) for k, v in (l.decode('latin-1').split(':', 1) for l in lines[1:] if b':' in l))
    res['body'] = wire_body
    if res['status'] != 200:
        return res
    kind = 'deferred' if deferred else 'immediate'
    ctx.count('wire:' + kind)
    if any(ord(c) > 127 for c in wire_body.decode('utf-8', 'replace')):
        ctx.count('wire:non-ascii-body')
    # ---- framing, judged independently of the objects the handler handled
    cl = res['headers'].get('content-length')
    client_body = wire_body
    if cl is None or not cl.isdigit():
        ctx.violation('content-length-missing:' + kind, '%s: header %r' % (method, cl), inp)
    else:
        res['cl'] = int(cl)
        if int(cl) != len(wire_body):
            ctx.violation('content-length-mismatch:' + kind,
                          '%s: Content-Length %s but %d body bytes were sent (a client reads a %s methodResponse)'
                          % (method, cl, len(wire_body), 'truncated' if int(cl) < len(wire_body) else 'short'), inp)
            # the root cause is reported; judge the rest on the full body so that other differences still show
        else:
            client_body = wire_body[:int(cl)]
        try:
            text = wire_body.decode('utf-8')
            if len(text) <= 1500:
                _FRAMES.append(('d' if deferred else 'i', text, int(cl), wire_body))
        except UnicodeDecodeError:
            ctx.violation('response-not-utf8:' + method, 'body %r' % wire_body[:60], inp)
    if res['headers'].get('content-type') != 'text/xml':
        ctx.violation('content-type-wrong:' + method, 'Content-Type %r' % res['headers'].get('content-type'), inp)
    try:
        res['answer'] = ('value', xmlrpclib.loads(client_body)[0][0])
    except xmlrpclib.Fault as f:
        res['answer'] = ('fault', f.faultCode); res['fault_string'] = f.faultString
    except Exception as e:
        res['answer'] = ('unparseable', type(e).__name__)
    return res


FOLLOWUPS = [('supervisor.getAPIVersion', []), ('system.listMethods', []), ('supervisor.getState', []), ('supervisor.nosuch', []),
             ('system.methodHelp', ['supervisor.getPID']), ('supervisor.getIdentification', []), ('supervisor.getProcessInfo', ['n\u00e9ant'])]
FOLLOWUP_SHARE = {True: 1.0, False: 0.12}       # after an answer given later (deferred): always; after one given at once: a sample
_FORCE_FOLLOWUP = [None]                         # replay: the follow-up request of the replayed input [method, params, cuts]


def follow_up(ctx, w, handler, method, params, deferred, inp):
    """the connection has stayed open after the answer to `method` (HTTP/1.1 persistent, HTTP/1.0 keep-alive): the NEXT request
    on it -- a read-only call whose answer is known from the interface objects themselves -- must be answered like any other:
    never an HTTP error, and what the direct call gives"""
    rng = ctx.rng
    if _FORCE_FOLLOWUP[0] is not None:
        m2, p2, cuts2 = _FORCE_FOLLOWUP[0]
    else:
        m2, p2 = rng.choice(FOLLOWUPS)
        cuts2 = auto_cuts(rng, m2, p2) if rng.random() < 0.3 else None
    raw2, _ = build_raw(m2, p2, '1.1')
    out2, polls2, deferred2, never2 = w.exchange(raw2, cuts2 or None)
    inp2 = dict(inp, followup=[m2, p2, cuts2])
    after = 'after-deferred-answer' if deferred else 'after-immediate-answer'
    ctx.count('followup:' + after)
    ctx.case_done(('followup', method, repr(params), m2, repr(p2), repr(cuts2), deferred), nontrivial=True)
    what = 'the request following %s%s (%s) on the same kept-alive connection, %s%s%s' % (
        method, short(tuple(params)), 'answered later: deferred' if deferred else 'answered at once', m2, short(tuple(p2)),
        ' in pieces cut at %r' % cuts2 if cuts2 else '')
    res2 = judge_response(ctx, m2, out2, deferred2, inp2, cuts2, 'no-answer-on-kept-alive-connection:' + after, server_said(w))
    if res2.get('status') == 'no-response':
        return
    if res2.get('status') != 200:
        ctx.violation('http-error-on-kept-alive-connection:' + after, '%s produced HTTP %s' % (what, res2.get('status')), inp2)
        return
    direct = direct_call(handler.rpcinterface, m2, p2)
    if not same_as_direct(res2, direct):
        ctx.violation('answer-depends-on-connection-reuse', '%s answered %r %r; the direct call gives %r'
                      % (what, res2.get('answer'), res2.get('fault_string'), direct), inp2)


def wire_request(handler, method, params, between_polls=None, max_polls=80, replay_input=None, cuts=None, http='1.1',
                 noresp_kind=None, ticks=None):
    """One XML-RPC request on a fresh connection (see Wire), delivered in the pieces given by `cuts`; when the connection stays
    open after the answer, a second request follows on it (follow_up).
    -> dict(status, headers, body, cl, polls, deferred, answer, fault_string)"""
    ctx = _CTX[0]
    w = Wire(handler)
    try:
        raw, hlen = build_raw(method, params, http)
        out, polls, deferred, never = w.exchange(raw, cuts, between_polls, max_polls, ticks)
        said = server_said(w)
        inp = replay_input or {'part': 'e2e-wire', 'method': method, 'params': params}
        if never:
            return {'polls': polls, 'deferred': deferred, 'status': never}
        res = judge_response(ctx, method, out, deferred, inp, cuts, noresp_kind, said)
        res['polls'], res['deferred'] = polls, deferred
        if isinstance(res.get('status'), int) and not w.closed and hasattr(handler, 'rpcinterface') and ctx.prop == ID \
                and (_FORCE_FOLLOWUP[0] is not None or ctx.rng.random() < FOLLOWUP_SHARE[bool(deferred)]):
            follow_up(ctx, w, handler, method, params, deferred, inp)
    finally:
        w.close()
    return res


def e2e_request(handler, method, params):
    """-> ('value', v) | ('fault', code) | ('http', status) | ('unparseable', what)   (details in e2e_request.last)"""
    res = wire_request(handler, method, params)
    e2e_request.last = res
    if res.get('status') != 200:
        return ('http', res.get('status'))
    return res['answer']


def norm_value(v):
    """a value as it looks after XML-RPC marshalling, without the wall-clock dependent fields"""
    from supervisor.compat import xmlrpclib
    try:
        v = xmlrpclib.loads(xmlrpclib.dumps((v,), methodresponse=True))[0][0]
    except Exception:
        return ('unmarshallable', repr(v)[:60])
    def strip(x):
        if isinstance(x, dict):
            return dict((k, strip(y)) for k, y in x.items() if k not in ('now', 'description'))
        if isinstance(x, list):
            return [strip(y) for y in x]
        return x
    return strip(v)


def direct_call(root, method, params, between_polls=None):
    """the same call made directly: traverse on the interface objects, a deferred answer polled by hand.
    -> ('value', normalised) | ('fault', code, text)"""
    from supervisor import xmlrpc
    from supervisor.http import NOT_DONE_YET
    polls = 0
    try:
        v = xmlrpc.traverse(root, method, tuple(params))
        while isinstance(v, types.FunctionType):
            r = v()
            if r is NOT_DONE_YET:
                polls += 1
                if between_polls:
                    between_polls(polls)
                if polls > 80:
                    return ('never-completes',)
                continue
            v = r
    except xmlrpc.RPCError as e:
        return ('fault', e.code, e.text)
    return ('value', norm_value(v))


def same_as_direct(res, direct):
    if res.get('status') != 200 or 'answer' not in res:
        return False
    if res['answer'][0] == 'fault':
        return direct[0] == 'fault' and res['answer'][1] == direct[1] and res.get('fault_string') == direct[2]
    if res['answer'][0] == 'value':
        return direct[0] == 'value' and norm_value(res['answer'][1]) == direct[1]
    return False


def make_stdin_full_process(sup):
    """F21: a real Subprocess whose stdin pipe is full (os.write -> EAGAIN)"""
    from supervisor.process import Subprocess
    from supervisor.dispatchers import PInputDispatcher
    from supervisor.tests.base import DummyPConfig
    opts = sup.options
    cfg = DummyPConfig(opts, 'full', '/bin/cat')
    p = Subprocess(cfg)
    p.pid = 4242
    p.pipes = {'stdin': 5}
    p.dispatchers = {5: PInputDispatcher(p, 'stdin', 5)}
    opts.write_exception = OSError(errno.EAGAIN, 'Resource temporarily unavailable')
    sup.process_groups['grp'].processes['full'] = p


def e2e_world(ctx, mood=1):
    """fresh dummies + real interface + real handler, with a UTF-8 / invalid-byte log behind every log method"""
    from supervisor import xmlrpc
    logpath = os.path.join(ctx.scratch, 'e2e.log')
    if not os.path.exists(logpath):
        open(logpath, 'wb').write(b'a\xc3\xa9\xe2\x82\xac\xff tail\n')
    sup, iface, subs = make_real(mood=mood, with_logs=logpath)
    return sup, iface, xmlrpc.supervisor_xmlrpc_handler(sup, subs)


def e2e_case(ctx, method, params, mood=1, extra=None, prepare=None):
    """one request over the wire + the monitors: no 5xx/4xx, documented fault code, parseable, value == the direct call's"""
    from supervisor import xmlrpc
    codes = set(v for k, v in vars(xmlrpc.Faults).items() if not k.startswith('_'))
    if prepare is None and (extra or {}).get('logstate'):
        prepare = log_prepare(ctx, extra['logstate'])
    sup, iface, h = e2e_world(ctx, mood)
    if prepare:
        prepare(sup)
    out = e2e_request(h, method, params)
    last = e2e_request.last
    inp = dict({'part': 'e2e', 'method': method, 'params': params, 'mood': mood}, **(extra or {}))
    ctx.count('e2e:' + out[0] + (':%s' % out[1] if out[0] in ('fault', 'http') else ''))
    ctx.case_done(('e2e', method, repr(params), mood), nontrivial=True)
    if out[0] == 'http' and out[1] == 500:
        ctx.violation('http-500:' + method, '%s%r produced an HTTP 500' % (method, tuple(params)), inp)
    elif out[0] == 'http':
        ctx.violation('http-error:' + method, '%s%r produced HTTP %s' % (method, tuple(params), out[1]), inp)
    elif out[0] == 'fault' and out[1] not in codes:
        ctx.violation('undocumented-fault-code', '%s%r answered fault %r' % (method, tuple(params), out[1]), inp)
    elif out[0] == 'unparseable':
        ctx.violation('response-unparseable:' + method, '%s%r: the response body cannot be parsed (%s)' % (method, tuple(params), out[1]), inp)
    elif not (extra or {}).get('no_direct'):
        # the value on the wire is the value the direct call gives (same world rebuilt)
        sup2, iface2, h2 = e2e_world(ctx, mood)
        if prepare:
            prepare(sup2)
        direct = direct_call(h2.rpcinterface, method, params)
        ctx.count('e2e:compared-with-direct')
        if not same_as_direct(last, direct):
            ctx.violation('wire-answer-differs-from-direct:' + method, '%s%r: on the wire %r %r, the direct call gives %r'
                          % (method, tuple(params), last.get('answer'), last.get('fault_string'), direct), inp)
    if out[0] == 'value' and not doc_shape_ok(method, params, out[1]):
        ctx.violation('value-shape:' + method, '%s%r answered %s, which is not the documented shape' % (method, tuple(params), short(out[1])), inp)
    if (extra or {}).get('expect') is not None and out != tuple(extra['expect']):
        ctx.violation(extra['expect_kind'], '%s%r over the wire answered %r, required %r' % (method, tuple(params), out, tuple(extra['expect'])), inp)
    if (extra or {}).get('frag', True):
        # the delivery dimension: the same request cut into pieces / as another HTTP variant answers the same
        frag_variants(ctx, method, params, mood, last, prepare, (extra or {}).get('regression'))
        e2e_request.last = last
    return out


def e2e_multi_case(ctx, picks, logstate=None):
    """system.multicall over the wire: element for element what single requests return"""
    from supervisor import xmlrpc
    prepare = log_prepare(ctx, logstate) if logstate else None
    sup, iface, h = e2e_world(ctx)
    if prepare:
        prepare(sup)
    mparams = [[{'methodName': m, 'params': p} for m, p in picks]]
    out = e2e_request(h, 'system.multicall', mparams)
    mlast = e2e_request.last
    want = []
    for m, p in picks:
        sup2, iface2, h2 = e2e_world(ctx)
        if prepare:
            prepare(sup2)
        want.append(('fault', xmlrpc.Faults.INCORRECT_PARAMETERS) if m == 'system.multicall' else e2e_request(h2, m, p))
    got = [('fault', x['faultCode']) if isinstance(x, dict) and 'faultCode' in x else ('value', x) for x in out[1]] if out[0] == 'value' else out
    ctx.count('e2e:multicall'); ctx.case_done(('e2e-multi', repr(picks)), nontrivial=True)
    # (a pid is the pid of whoever answers; `now` / `description` of the info structs are wall-clock readings)
    norm = lambda o: ('value', 'pid') if o[0] == 'value' and isinstance(o[1], int) and not isinstance(o[1], bool) else ('value', norm_value(o[1])) if o[0] == 'value' else o
    if [norm(g) for g in got] != [norm(w) for w in want]:
        ctx.violation('multicall-differs-from-sequential', 'multicall over the wire answered %r, single requests answer %r%s' % (
                          got, want, ' (log files: %s)' % logstate if logstate else ''),
                      {'part': 'e2e-multi', 'calls': [[m, p] for m, p in picks], 'logstate': logstate})
    frag_variants(ctx, 'system.multicall', mparams, 1, mlast, prepare)        # the same multicall cut into pieces answers the same


# =================================================================================================
# how the request reaches the server: fragmentation, HTTP variants, connection reuse
#   The statement quantifies over calls, not over TCP segmentations: the answer to a call (HTTP status + XML-RPC value or
#   fault) must be a complete well-formed response and the same however the bytes of the request are cut into recv()s.
# =================================================================================================
NOFRAG = 'no-answer-to-fragmented-request'
_BODIES = []           # (body bytes, cut offsets inside the body) of fragmented requests, for the collector correspondence


def inside_char_cuts(raw):
    """offsets at which a cut separates the bytes of one UTF-8 encoded character"""
    return [i for i in range(1, len(raw)) if raw[i] & 0xC0 == 0x80]


def random_cuts(rng, n, k, lo=1):
    lo = min(max(lo, 1), n - 1)
    return sorted(rng.sample(range(lo, n), min(k, n - lo)))


def frag_plans(rng, raw, hlen, exhaustive, k_random=2):
    """delivery plans (ascending cut offsets into the whole request) for one request"""
    n = len(raw)
    mb = inside_char_cuts(raw)
    plans = []
    if exhaustive:
        plans += [[c] for c in range(1, n)]                         # every delivery in two pieces
        plans.append(list(range(1, n)))                             # one byte per recv()
        plans += [sorted(set([hlen, c])) for c in mb]               # headers first, then the body cut inside a character
        plans += [[c - 1, c] for c in mb if c >= 2]                 # a lead/continuation byte on its own
    else:
        plans += [[hlen], [hlen - 2], [min(hlen + 1, n - 1)]]       # headers | body, inside the blank line, one body byte late
        plans += [[c] for c in (mb if len(mb) <= 3 else rng.sample(mb, 3))]
        plans += [[rng.randrange(1, n)] for _ in range(k_random)]
    if mb:
        plans.append(mb)                                            # every multi-byte character cut, all at once
    for _ in range(k_random):
        plans.append(random_cuts(rng, n, rng.randrange(2, 8)))
        plans.append(random_cuts(rng, n, rng.randrange(1, 5), lo=hlen))       # the body only
    seen, res = set(), []
    for pl in plans:
        if pl and tuple(pl) not in seen:
            seen.add(tuple(pl)); res.append(pl)
    return res


def answer_key(res):
    """what a client learns from a response: HTTP status, and the XML-RPC value or fault (code and text)"""
    if res.get('status') != 200 or 'answer' not in res:
        return ('http', res.get('status'))
    a = res['answer']
    if a[0] == 'fault':
        return ('fault', a[1], res.get('fault_string'))
    if a[0] == 'value':
        return ('value', repr(norm_value(a[1])))
    return tuple(a)


def frag_deliver(ctx, method, params, mood, cuts, http, base_key, prepare=None, regression=None):
    """the same request to a fresh world, delivered in the pieces `cuts` / as HTTP variant `http`; its answer must be
    complete and well formed (judge_response) and the one-piece answer `base_key`"""
    sup, iface, h = e2e_world(ctx, mood)
    if prepare:
        prepare(sup)
    inp = {'part': 'e2e-frag', 'method': method, 'params': params, 'mood': mood, 'cuts': list(cuts or []), 'http': http}
    if regression:
        inp['regression'] = regression
    if getattr(prepare, 'logstate', None):
        inp['logstate'] = prepare.logstate
    res = wire_request(h, method, params, replay_input=inp, cuts=cuts or None, http=http, noresp_kind=NOFRAG if cuts else None)
    npieces = len(cuts or []) + 1
    ctx.count('frag:deliveries'); ctx.count('frag:pieces=%s' % (npieces if npieces < 4 else '4..9' if npieces < 10 else '10+'))
    ctx.count('frag:http=' + http)
    raw, hlen = build_raw(method, params, http)
    incut = set(inside_char_cuts(raw)) & set(cuts or [])
    if incut:
        ctx.count('frag:cut-inside-character')
    if cuts and len(raw) - hlen <= 600 and len(_BODIES) < 4000:
        _BODIES.append((raw[hlen:], [c - hlen for c in cuts if c > hlen]))
    ctx.case_done(('e2e-frag', method, repr(params), mood, tuple(cuts or ()), http), nontrivial=bool(cuts))
    key = answer_key(res)
    if key != base_key and res.get('status') != 'no-response':          # (no response at all: reported by wire_request)
        ctx.violation('answer-depends-on-fragmentation' if cuts else 'answer-depends-on-http-variant',
                      '%s%s delivered %s answers %s; delivered at once as HTTP/1.1 it answers %s' % (
                          method, short(tuple(params)), ('in %d pieces (cuts %r%s)' % (npieces, list(cuts)[:12], ', inside a character' if incut else ''))
                          if cuts else 'as ' + http, short(key), short(base_key)), inp)
    return res


def frag_variants(ctx, method, params, mood, base, prepare=None, regression=None, exhaustive=False, http_variants=False):
    """the fragmentation dimension of one end-to-end case"""
    rng = ctx.rng
    base_key = answer_key(base)
    raw, hlen = build_raw(method, params, '1.1')
    plans = frag_plans(rng, raw, hlen, exhaustive, k_random=(2 if ctx.tier == 'quick' else 4) if not exhaustive else 6)
    for cuts in plans:
        frag_deliver(ctx, method, params, mood, cuts, '1.1', base_key, prepare, regression)
    variants = [v for v in HTTP_VARIANTS if v != '1.1']
    for http in (variants if http_variants else [rng.choice(variants)]):
        raw2, hlen2 = build_raw(method, params, http)
        frag_deliver(ctx, method, params, mood, None, http, base_key, prepare, regression)
        for cuts in frag_plans(rng, raw2, hlen2, False, k_random=1)[:(12 if http_variants else 3)]:
            frag_deliver(ctx, method, params, mood, cuts, http, base_key, prepare, regression)


NONASCII = ['caf\u00e9-\u20ac-worker', 'grp:pr\u00f6c', 'n\u00e9ant:\u20ac', '\U0001f600', '\u00e9', 'a\u00e9', '\u4e2d\u6587:\u0440\u0443', 'x\u07ff\u0800\ufffd',
            'grp:\U00010000\U0010ffff', 'SIGN\u00c9', '\u00e9\u20ac\U0001f600\n', 'd\u00e4t\u00e4 \u4e2d']

FRAG_CORPUS = [      # (method, params): the first is the input of seeded change C12-4 (demo.py); the rest: one per string-argument role
    ('supervisor.getProcessInfo', ['caf\u00e9-\u20ac-worker']),
    ('supervisor.sendProcessStdin', ['grp:proc', '\u00e9\u20ac\U0001f600\n']),
    ('supervisor.sendRemoteCommEvent', ['t\u00ffpe', 'd\u00e4t\u00e4 \u4e2d\u6587']),
    ('supervisor.signalProcess', ['grp:pr\u00f6c', 'SIGN\u00c9']),
    ('supervisor.startProcess', ['n\u00e9ant:\u20ac', False]),
    ('system.multicall', [[{'methodName': 'supervisor.getProcessInfo', 'params': ['n\u00e9ant']}, {'methodName': 'supervisor.getPID', 'params': []},
                           {'methodName': 'supervisor.stopProcess', 'params': ['\U0001f600']}]]),
    ('system.methodHelp', ['supervisor.getP\u00cdD']),
    ('supervisor.nosuch\u00e9', []),
    ('supervisor.getPID', []),
    ('supervisor.readProcessStdoutLog', ['grp:proc', 0, 0]),
    ('supervisor.addProcessGroup', ['gr\u00fcp']),
    ('supervisor.stopProcessGroup', ['\U0001f600', False]),
]


def takes_text(func):
    from supervisor.xmlrpc import gettags
    return any(t[1] == 'param' and t[2] in ('string', 'array') for t in gettags(func.__doc__ or ''))


def nonascii_args(rng, func):
    """arguments of the documented types, every string one that is not ASCII"""
    from supervisor.xmlrpc import gettags
    args = []
    for t in gettags(func.__doc__ or ''):
        if t[1] != 'param':
            continue
        ty = t[2]
        if ty == 'string': args.append(rng.choice(NONASCII))
        elif ty == 'int': args.append(rng.choice(EDGES))
        elif ty == 'boolean': args.append(rng.random() < 0.5)
        elif ty == 'array': args.append([{'methodName': 'supervisor.getProcessInfo', 'params': [rng.choice(NONASCII)]} for _ in range(rng.randrange(1, 4))])
        else: args.append({})
    return args


def frag_case(ctx, method, params, mood=1, exhaustive=True, http_variants=True):
    """one request of the fragmentation population: delivered at once (all monitors of e2e_case, fragmentation sample
    included), then in every plan of frag_plans"""
    e2e_case(ctx, method, params, mood, {'frag': False})
    frag_variants(ctx, method, params, mood, e2e_request.last, exhaustive=exhaustive, http_variants=http_variants)


def big_text(rng, nbytes, pad):
    """text of about nbytes UTF-8 bytes, characters of 1..4 bytes, preceded by `pad` ASCII characters (shifts where the
    channel's 4096-byte reads fall)"""
    out, n = ['p' * pad], pad
    while n < nbytes:
        c = rng.choice(['\u00e9', '\u20ac', '\U0001f600', '\u00e9', 'a', '\u4e2d'])
        out.append(c); n += len(c.encode('utf-8'))
    return ''.join(out)


_CONNS = []            # (requests of one connection as 'd0,i0,...', how each was served 'a,a,...') for the connection correspondence
SESSION_HTTP = ['1.1', '1.1', '1.1', '1.1', '1.0-keepalive', '1.0-keepalive', '1.1-utf8-header', '1.0', '1.1-close']


def session_case(ctx, reqs, mood=1, plans=None, scripts=None, https=None, regression=None):
    """several requests one after another on ONE connection (what xmlrpclib's keep-alive transport, supervisorctl within one
    action and most XML-RPC client libraries do), each cut at random, each as some HTTP variant (persistent, keep-alive, or
    closing -- then the client connects anew); the calls are answered at once or LATER (start/stop with wait, the group and
    all forms, clearAllProcessLogs, multicalls containing them).  Every answer is the answer the same sequence gets on
    separate connections, and none of these valid calls produces an HTTP error.
    scripts: None -- the world of e2e_world;  process scripts -- WaitWorld, one tick per main-loop iteration while an answer is pending"""
    rng = ctx.rng
    https = list(https or ['1.1'] * len(reqs))
    bound = (max(len(sc['traj']) for sc in scripts) + 8) if scripts else 80
    def play(one_connection, plans):
        if scripts:
            world = WaitWorld(scripts)
            h, n = world.handler, [0]
            def tick(_k):
                world.tick(n[0]); n[0] += 1
        else:
            sup, iface, h = e2e_world(ctx, mood)
            tick = None
        keys, recs, w = [], [], None
        try:
            for i, (m, p) in enumerate(reqs):
                if w is None or not one_connection or w.closed:
                    if w: w.close()
                    w = Wire(h)
                raw, hlen = build_raw(m, p, https[i])
                out, polls, deferred, never = w.exchange(raw, plans[i], None, bound, tick)
                if never:
                    keys.append(('http', never)); break
                said = server_said(w)
                res = judge_response(ctx, m, out, deferred, inp, plans[i], 'no-answer-on-reused-connection' if one_connection else None, said)
                keys.append(answer_key(res))
                recs.append((deferred, bool(w.closed), res.get('status')))      # (closed: the server hung up after the answer)
        finally:
            if w: w.close()
        return keys, recs
    plans_used = list(plans or [])
    for (m, p), http in (zip(reqs, https) if plans is None else []):
        raw, hlen = build_raw(m, p, http)
        mb = inside_char_cuts(raw)
        r = rng.random()
        plans_used.append(None if r < 0.3 else [rng.choice(mb)] if (mb and r < 0.6) else random_cuts(rng, len(raw), rng.randrange(1, 5)))
    inp = {'part': 'e2e-session', 'reqs': [[m_, p_] for m_, p_ in reqs], 'plans': plans_used, 'mood': mood, 'scripts': scripts, 'https': https}
    if regression:
        inp['regression'] = regression
    want, _ = play(False, [None] * len(reqs))
    got, recs = play(True, plans_used)
    ctx.count('frag:sessions'); ctx.count('frag:session-requests', len(reqs))
    for k, (d, c, st) in enumerate(recs):
        ctx.count('session:answer-%s-%s' % ('deferred' if d else 'at-once', 'then-closed' if c else 'kept-alive'))
        if k and not recs[k - 1][1]:
            ctx.count('session:request-after-%s-answer-on-the-same-connection' % ('deferred' if recs[k - 1][0] else 'immediate'))
    if recs and len(recs) <= 12 and len(_CONNS) < 6000:
        _CONNS.append((','.join(('d' if d else 'i') + ('1' if c else '0') for d, c, st in recs),
                       ','.join('a' if st == 200 else 's' if st == 400 else 'x' for d, c, st in recs)))
    ctx.case_done(('e2e-session', repr(reqs), repr(plans_used), repr(scripts), repr(https)), nontrivial=True)
    for k, key in enumerate(got):
        if key[0] == 'http' and key[1] not in ('no-response', 'never-completes'):
            prev = recs[k - 1] if 0 < k <= len(recs) else None
            ctx.violation('http-error-on-kept-alive-connection:after-%s-answer' % ('deferred' if prev[0] else 'immediate') if prev and not prev[1]
                          else 'http-error:' + reqs[k][0],
                          'request %d (%s%s, as %s, cuts %r) of a session on one connection produced HTTP %s%s; on its own connection it answers %s'
                          % (k, reqs[k][0], short(tuple(reqs[k][1])), https[k], plans_used[k], key[1],
                             ' -- it follows %s%s, which was answered %s and left the connection open' % (
                                 reqs[k - 1][0], short(tuple(reqs[k - 1][1])), 'later (deferred)' if prev[0] else 'at once') if prev and not prev[1] else '',
                             short(want[k]) if k < len(want) else '?'), inp)
            return
    if got != want and not any(k == ('http', 'no-response') for k in got):
        k = next((i for i in range(min(len(got), len(want))) if got[i] != want[i]), min(len(got), len(want)))
        ctx.violation('answer-depends-on-connection-reuse', 'request %d (%s%s) on a reused connection, cuts %r, answers %s; on its own connection %s'
                      % (k, reqs[k][0], short(tuple(reqs[k][1])), plans_used[k], short(got[k]) if k < len(got) else 'nothing', short(want[k]) if k < len(want) else 'nothing'),
                      inp)


def run_conn(ctx):
    """how the requests of every session were served vs Model/Rpc.lean serveAll; an RPCError raised at once / later vs raisedBecomesFault"""
    from supervisor import xmlrpc
    seen, ops, il = set(), [], []
    for op, line in _CONNS:
        if op not in seen:
            seen.add(op); ops.append('conn ' + op); il.append(line)
            ctx.case_done(('conn', op), nontrivial=',' in op)
    for d in (0, 1):
        sup, iface, subs2 = deferred_world()
        res = wire_request(xmlrpc.supervisor_xmlrpc_handler(sup, subs2), 'slow.slow', [d, 'fault'] if d else [0, 'raise-now'])
        ops.append('raised %d' % d)
        il.append('fault' if res.get('answer', ('', ''))[0] == 'fault' else 'value' if res.get('answer', ('', ''))[0] == 'value' else 'other')
        ctx.case_done(('raised', d), nontrivial=True)
    ctx.count('conn:distinct-sessions', len(ops) - 2)
    ctx.sample({'case': 'rpc conn', 'ops': ops[:2] + ops[-2:], 'impl': il[:2] + il[-2:]})
    ctx.correspond('conn', [('case rpc', ops)], [il])


def settle(rng, sc, kind):
    """the process comes to rest in a state a call of this kind does not wait in"""
    from supervisor.states import ProcessStates as P
    sc['traj'] = sc['traj'] + [[0, rng.choice([P.RUNNING, P.BACKOFF, P.FATAL, P.EXITED, P.STOPPED] if kind == 'start' else [P.STOPPED, P.EXITED, P.FATAL])]]
    return sc


SESSION_IMMEDIATE = [('supervisor.getAPIVersion', []), ('supervisor.getState', []), ('supervisor.getAllProcessInfo', []), ('supervisor.nosuch', []),
                     ('supervisor.getIdentification', []), ('system.listMethods', []), ('supervisor.getProcessInfo', ['n\u00e9ant']),
                     ('supervisor.getPID', [1]), ('system.multicall', [[{'methodName': 'supervisor.getPID', 'params': []}]])]
# the input of seeded change C12-7 (demo.py): five calls on one keep-alive connection, the second and the fourth answered later
SESSION_CORPUS = [
    [('supervisor.getAPIVersion', []), ('supervisor.stopAllProcesses', []), ('supervisor.getAPIVersion', []),
     ('system.multicall', [[{'methodName': 'supervisor.stopAllProcesses', 'params': []}, {'methodName': 'supervisor.getAPIVersion', 'params': []}]]),
     ('supervisor.getIdentification', [])],
    [('supervisor.clearAllProcessLogs', []), ('supervisor.getState', [])],
    [('supervisor.startAllProcesses', [True]), ('supervisor.getState', []), ('supervisor.stopProcessGroup', ['grp', True]), ('supervisor.nosuch', [])],
]


def gen_session_wait(rng):
    """a session whose calls are answered later, against processes that follow scripts"""
    n = rng.randrange(1, 4)
    kind = rng.choice(['start', 'stop'])
    scripts = [settle(rng, gen_script(rng, 'p%d' % i, kind), kind) for i in range(n)]
    if rng.random() < 0.6:
        for sc in scripts:
            sc['on_spawn'], sc['on_stop'] = 10, 40
    def deferred_call():
        r = rng.random()
        if r < 0.4:
            return ('supervisor.%sProcess' % kind, ['grp:p%d' % rng.randrange(n), True])
        if r < 0.7:
            return rng.choice([f for f in WAIT_GROUP_FORMS if wait_kind(f[0]) == kind])
        if r < 0.8:
            return ('supervisor.clearAllProcessLogs', [])
        calls = [rng.choice([('supervisor.%sProcess' % kind, ['grp:p%d' % rng.randrange(n), True]), rng.choice(SESSION_IMMEDIATE[:5]),
                             rng.choice([f for f in WAIT_GROUP_FORMS if wait_kind(f[0]) == kind])]) for _ in range(rng.randrange(2, 4))]
        return ('system.multicall', [[{'methodName': m, 'params': p} for m, p in calls]])
    reqs = []
    for _ in range(rng.randrange(2, 6)):
        reqs.append(deferred_call() if rng.random() < 0.55 else rng.choice(SESSION_IMMEDIATE))
    return reqs, scripts


def run_frag(ctx):
    rng = ctx.rng
    sup, iface, h = e2e_world(ctx)
    publics = [('supervisor.' + a, getattr(iface, a)) for a in dir(iface) if not a.startswith('_') and inspect.ismethod(getattr(iface, a))]
    sysi = dict(make_real()[2])['system']
    publics += [('system.' + a, getattr(sysi, a)) for a in dir(sysi) if not a.startswith('_') and inspect.ismethod(getattr(sysi, a))]
    stringy = [(m, f) for m, f in publics if takes_text(f)]
    # ---- corpus: every 2-piece delivery, byte at a time, every cut inside a character, every HTTP variant
    for m, p in FRAG_CORPUS:
        frag_case(ctx, m, p, 1, exhaustive=True)
    # ---- every public method taking text, non-ASCII arguments: exhaustive for a sample, the standard plans for the rest
    for r in range(ctx.n(1, 10)):
        picks = set(rng.sample(range(len(stringy)), min(len(stringy), 2 if ctx.tier == 'quick' else 8)))
        for i, (m, f) in enumerate(stringy):
            frag_case(ctx, m, nonascii_args(rng, f), rng.choice([1, 1, 1, -1, 0]), exhaustive=i in picks, http_variants=i in picks)
    # ---- bodies larger than the channel's read size: delivered at once they arrive in recv(4096) portions
    for r in range(ctx.n(1, 4)):
        for size in (4096, 8192, 12288 + rng.randrange(0, 4096)):
            for pad in range(4):
                text = big_text(rng, size, pad)
                m, p = rng.choice([('supervisor.sendProcessStdin', ['grp:proc', text]), ('supervisor.sendRemoteCommEvent', ['t', text]),
                                   ('supervisor.getProcessInfo', [text]), ('supervisor.signalProcess', ['grp:proc', text]),
                                   ('system.multicall', [[{'methodName': 'supervisor.getProcessInfo', 'params': [text[:len(text) // 2]]},
                                                          {'methodName': 'supervisor.stopProcess', 'params': [text[len(text) // 2:]]}]])])
                frag_case(ctx, m, p, 1, exhaustive=False, http_variants=False)
                ctx.count('frag:big-bodies')
    # ---- connection reuse
    pool = list(FRAG_CORPUS) + [('supervisor.getState', []), ('supervisor.getAllProcessInfo', []), ('supervisor.nosuch', []), ('supervisor.getPID', [1])]
    later = [('supervisor.stopAllProcesses', []), ('supervisor.clearAllProcessLogs', []), ('supervisor.startAllProcesses', [True]),
             ('supervisor.stopProcessGroup', ['grp', True]), ('supervisor.startProcessGroup', ['grp']), ('supervisor.stopProcess', ['grp:*']),
             ('system.multicall', [[{'methodName': 'supervisor.getPID', 'params': []}, {'methodName': 'supervisor.clearAllProcessLogs', 'params': []}]]),
             ('system.multicall', [[{'methodName': 'supervisor.stopAllProcesses', 'params': [True]}, {'methodName': 'supervisor.getProcessInfo', 'params': ['n\u00e9ant']}]])]
    for reqs in SESSION_CORPUS:
        for http in ('1.1', '1.0-keepalive'):
            session_case(ctx, reqs, https=[http] * len(reqs), regression='C12-7')
            session_case(ctx, reqs, https=[http] * len(reqs), plans=[None] * len(reqs), regression='C12-7')
    for _ in range(ctx.n(40, 400)):
        session_case(ctx, [rng.choice(pool) for _ in range(rng.randrange(2, 5))])
    for _ in range(ctx.n(60, 600)):         # any call, the ones answered later included, followed by any other call
        reqs = [rng.choice(later) if rng.random() < 0.5 else rng.choice(pool) for _ in range(rng.randrange(2, 6))]
        session_case(ctx, reqs, mood=rng.choice([1, 1, 1, 1, 0, -1]), https=[rng.choice(SESSION_HTTP) for _ in reqs])
    for _ in range(ctx.n(80, 900)):         # ... against processes that take their time (start/stop with wait, group and all forms)
        reqs, scripts = gen_session_wait(rng)
        session_case(ctx, reqs, scripts=scripts, https=[rng.choice(SESSION_HTTP) for _ in reqs])


def run_e2e(ctx):
    from supervisor import xmlrpc
    rng = ctx.rng
    # ---- regression corpus: F7 (log window cutting a multi-byte character) and F21 (full stdin pipe)
    for m, p in [('supervisor.readProcessStdoutLog', ['grp:proc', 0, 2]), ('supervisor.tailProcessStdoutLog', ['grp:proc', 0, 3]),
                 ('supervisor.readLog', [1, 1]), ('supervisor.readProcessStderrLog', ['grp:proc', -3, 0]), ('supervisor.readMainLog', [5, 2])]:
        e2e_case(ctx, m, p, 1, {'regression': 'F7'})
    e2e_case(ctx, 'supervisor.sendProcessStdin', ['grp:full', 'hello'], 1,
             {'regression': 'F21', 'no_direct': True, 'expect': ['value', True], 'expect_kind': 'stdin-full-not-accepted'},
             prepare=make_stdin_full_process)
    # ---- every public method, documented argument types
    sup, iface, h = e2e_world(ctx)
    publics = [('supervisor.' + a, getattr(iface, a)) for a in dir(iface) if not a.startswith('_') and inspect.ismethod(getattr(iface, a))]
    sysi = dict(make_real()[2])['system']
    publics += [('system.' + a, getattr(sysi, a)) for a in dir(sysi) if not a.startswith('_') and inspect.ismethod(getattr(sysi, a))]
    for _ in range(ctx.n(6, 60)):
        for method, func in publics:
            mood = rng.choice([1, 1, 1, -1, 0, 2])
            params = typed_args(rng, func, valid=rng.random() < 0.7)
            if method in ('system.methodHelp', 'system.methodSignature'):
                params = [rng.choice([m for m, _ in publics] + ['nosuch', ''])]
            e2e_case(ctx, method, params, mood)
    # ---- names that are not public, wrong arity: faults 1 / 2 over the wire
    for name in ['supervisor._update', 'supervisor.supervisord', 'supervisor.supervisord.options', 'system._listMethods', 'nosuch.x',
                 'supervisor', 'system.namespaces', 'supervisor.__init__', 'a.b.c']:
        e2e_case(ctx, name, [], 1, {'expect': ['fault', xmlrpc.Faults.UNKNOWN_METHOD], 'expect_kind': 'refused-name-wrong-answer'})
    for method, func in publics:
        n = len(typed_args(rng, func)) + 1 + (2 if 'wait' in inspect.signature(func).parameters else 0)
        e2e_case(ctx, method, [1] * n, 1, {'expect': ['fault', xmlrpc.Faults.INCORRECT_PARAMETERS], 'expect_kind': 'arity-not-incorrect-parameters'})
    # ---- multicall over the wire: element for element what single requests return
    singles = [('supervisor.getPID', []), ('supervisor.getState', []), ('supervisor.nosuch', []), ('supervisor.getProcessInfo', ['nosuch']),
               ('supervisor.readLog', [0, 3]), ('supervisor.readLog', [-1, 1]), ('system.multicall', [[]]), ('supervisor.getAPIVersion', [1]),
               ('supervisor.getIdentification', []), ('supervisor.signalProcess', ['grp:proc', 'BOGUS']),
               ('supervisor.getProcessInfo', ['n\u00e9ant']), ('supervisor.signalProcess', ['grp:proc', 'SIGN\u00c9']),
               ('supervisor.readLog', [0, 0]), ('supervisor.tailProcessStdoutLog', ['grp:proc', 0, 6]), ('supervisor.stopProcess', ['\u20ac'])]
    for _ in range(ctx.n(10, 100)):
        e2e_multi_case(ctx, [rng.choice(singles) for _ in range(rng.randrange(1, 6))])


# =================================================================================================
# additional registered namespaces (`[rpcinterface:x]` plugins): introspection of EVERY listed method, name resolution,
# calls and multicall/sequential equivalence over the wire.  The built-in namespaces document every method (a project test
# enforces it), so everything that depends on what a namespace's attributes look like -- no docstring, a docstring without
# tags, malformed tags, a docstring that is not a string, callables that are not methods, underscore names, answers given
# later -- only shows with a namespace that somebody else wrote.
# =================================================================================================
PLUGIN_NS = ['plugin', 'x', 'laforge', 'ns2', 'Supervisor']
PLUGIN_ATTRS = ['ping', 'getPID', 'startProcess', 'listMethods', 'a', 'b1', 'x_y', 'doIt', 'status', '_private', '_update', '__dunder__', '_', 'z9']
PLUGIN_DOCS = [None, None, '', 'Just prose, no tags.', ' Ping the plugin\n\n        @return string result  The answer\n        ',
               ' Do it\n\n        @param string name  A name\n        @param int n\n        @return boolean result Always true\n        ',
               '@return', '@', '@param', '@return\n@return array x', '@param string\n@return', '   @return   struct   result   several   words  here ',
               'café €\n@return string résultat', '@@return int x', 'text @return int not-at-line-start', 7, 0, '\n\n', '@return\tint\tx\ty z']
PLUGIN_BEHS = [['v', 1], ['v', 'pong'], ['v', {'k': [1, 'café', True]}], ['v', True], ['f', 10], ['f', 70], ['f', 2], ['d', 0, ['v', 5]], ['d', 2, ['v', 'late']],
               ['d', 1, ['f', 30]], ['none'], ['raise']]
PLUGIN_CORPUS = [    # the input of seeded change C12-9 (demo.py): namespace `plugin`, one public method nobody documented
    {'ns': 'plugin', 'mood': 1, 'attrs': [['ping', 'm', None, 0, 0, ['v', 'pong']]]},
    {'ns': 'x', 'mood': 0, 'attrs': [['a', 'm', None, 1, 2, ['d', 1, ['v', 3]]], ['b1', 'm', '@return', 0, 0, ['f', 10]], ['_private', 'm', None, 0, 0, ['v', 1]],
                                      ['status', 'static', None, 0, 0, ['v', 1]], ['z9', 'data', None, 0, 0, ['v', 1]], ['doIt', 'class', 7, 0, 1, ['none']]]},
]


def gen_plugin(rng):
    attrs = []
    for name in rng.sample(PLUGIN_ATTRS, rng.randrange(1, 8)):
        kind = rng.choice(['m', 'm', 'm', 'm', 'm', 'class', 'static', 'callable-object', 'data', 'property'])
        mn = rng.randrange(0, 3)
        attrs.append([name, kind, rng.choice(PLUGIN_DOCS), mn, mn + rng.randrange(0, 2), rng.choice(PLUGIN_BEHS)])
    return {'ns': rng.choice(PLUGIN_NS), 'mood': rng.choice([1, 1, 1, 0, -1, 2]), 'attrs': attrs}


def plugin_namespace(desc, log):
    """the namespace object an rpcinterface factory would return, built from its description"""
    from supervisor.xmlrpc import RPCError
    from supervisor.http import NOT_DONE_YET
    def function(label, mn, mx, beh, first):
        def finish(b):
            if b[0] == 'v': return b[1]
            if b[0] == 'f': raise RPCError(b[1])
            if b[0] == 'none': return None
            if b[0] == 'raise': raise ValueError('boom')
            left = [b[1]]
            def cb():
                if left[0] > 0:
                    left[0] -= 1
                    return NOT_DONE_YET
                return finish(b[2])
            cb.delay = 0.05
            return cb
        def body():
            log.append(label)
            return finish(beh)
        params = first + ['a%d' % i for i in range(mn)] + ['b%d=None' % i for i in range(mx - mn)]
        g = {'_body': body}
        exec('def %s(%s):\n    return _body()' % (label if label.isidentifier() else 'f', ', '.join(params)), g)
        return g[label if label.isidentifier() else 'f']
    cls = {}
    for name, kind, doc, mn, mx, beh in desc['attrs']:
        if kind == 'data':
            cls[name] = 5
            continue
        if kind == 'property':
            cls[name] = property(lambda self: 'value of a property')
            continue
        f = function(name, mn, mx, beh, {'m': ['self'], 'class': ['cls'], 'static': [], 'callable-object': ['self']}[kind])
        f.__doc__ = doc
        if kind == 'class':
            f = classmethod(f)
        elif kind == 'static':
            f = staticmethod(f)
        elif kind == 'callable-object':
            f = type('Callable', (object,), {'__call__': f, '__doc__': doc})()
        cls[name] = f
    return type('PluginNamespace', (object,), cls)()


def plugin_world(ctx, desc, log):
    from supervisor import xmlrpc
    sup, iface, subs = make_real(mood=desc['mood'])
    subs2 = [('supervisor', iface), (desc['ns'], plugin_namespace(desc, log))]
    subs2.append(('system', xmlrpc.SystemNamespaceRPCInterface(subs2)))        # as make_http_servers does
    return sup, xmlrpc.supervisor_xmlrpc_handler(sup, subs2)


def ref_signature(doc_text):
    """what the documentation tags of a docstring say: [return type, parameter types...]; None when there is no @return tag
    (written from the description of the tag format in docs: a line `@<tag> <type> <name> <text>`, not by calling gettags)"""
    rtype, ptypes = None, []
    for line in doc_text.split('\n'):
        words = line.split()
        if not words or not words[0].startswith('@'):
            continue
        ty = words[1] if len(words) > 1 else ''
        if words[0] == '@return':
            rtype = ty
        elif words[0] == '@param':
            ptypes.append(ty)
    return None if rtype is None else [rtype] + ptypes


def plugin_case(ctx, desc, cuts_seed=None, regression=None):
    from supervisor import xmlrpc
    F = xmlrpc.Faults
    codes = set(v for k, v in vars(F).items() if not k.startswith('_'))
    ns = desc['ns']
    inp = {'part': 'plugin', 'desc': desc, 'cuts_seed': cuts_seed, 'regression': regression}
    crng = random.Random(cuts_seed) if cuts_seed is not None else None
    prng = random.Random(repr(desc))               # choices inside the case depend on the input only (replay)
    log = []
    sup, h = plugin_world(ctx, desc, log)
    ctx.count('plugin:worlds'); ctx.case_done(('plugin', repr(desc), cuts_seed), nontrivial=True)
    attrs = dict((a[0], a) for a in desc['attrs'])

    def ask(method, params):
        """-> ('value', v) | ('fault', code) | ('http', status) | ('unparseable', what); the 'never 500 / documented code' monitors"""
        cuts = auto_cuts(crng, method, params) if crng is not None and crng.random() < 0.5 else None
        res = wire_request(h, method, params, cuts=cuts, replay_input=inp, noresp_kind=NOFRAG if cuts else None)
        what = '%s%r with the registered namespace %r = {%s}' % (method, tuple(params), ns, ', '.join(
            '%s: %s, doc %r, answers %r' % (a[0], a[1], a[2], a[5]) for a in desc['attrs']))
        label = method if method.startswith('system.') else 'plugin-method'
        if res.get('status') != 200:
            out = ('http', res.get('status'))
            ctx.violation(('http-500:' if res.get('status') == 500 else 'http-error:') + label, '%s produced HTTP %r' % (what, res.get('status')), inp)
        else:
            out = res['answer']
            if out[0] == 'fault' and out[1] not in codes:
                ctx.violation('undocumented-fault-code', '%s answered fault %r' % (what, out[1]), inp)
            elif out[0] == 'unparseable':
                ctx.violation('response-unparseable:' + label, '%s: the response body cannot be parsed (%s)' % (what, out[1]), inp)
        ctx.count('plugin:' + label + ':' + out[0])
        return out, what

    # ---- what is published: the public callables the namespace's class defines, nothing underscore, and the built-in API
    pub = sorted('%s.%s' % (ns, a[0]) for a in desc['attrs'] if a[1] not in ('data', 'property') and not a[0].startswith('_'))
    listed, what = ask('system.listMethods', [])
    if listed[0] != 'value' or not isinstance(listed[1], list):
        if listed[0] not in ('http', 'unparseable'):
            ctx.violation('value-shape:system.listMethods', '%s answered %r' % (what, listed), inp)
        return
    mine = sorted(n for n in listed[1] if isinstance(n, str) and n.split('.')[0] == ns)
    if mine != pub or listed[1] != sorted(listed[1]) or any(n.split('.')[-1].startswith('_') for n in listed[1]):
        ctx.violation('listMethods-wrong', '%s lists %r of the namespace; its public callables are %r' % (what, mine, pub), inp)
    # ---- introspection of EVERY listed method of the namespace (and a sample of the built-in ones)
    singles = []
    builtin = [n for n in listed[1] if n not in mine]
    for name in mine + prng.sample(builtin, min(2, len(builtin))) + [ns + '.nosuch', ns + '._private', ns]:
        a = attrs.get(name.split('.', 1)[1]) if name in mine else None
        out, what = ask('system.methodHelp', [name])
        singles.append((('system.methodHelp', [name]), out))
        if name in listed[1]:
            if out[0] == 'value' and not isinstance(out[1], str):
                ctx.violation('value-shape:system.methodHelp', '%s answered %s, not a string' % (what, short(out[1])), inp)
            elif out[0] == 'fault':
                ctx.violation('listed-method-without-help', '%s answered fault %r although system.listMethods lists the name' % (what, out[1]), inp)
            elif a is not None and out[0] == 'value' and out[1] != str(a[2]):
                ctx.violation('methodHelp-wrong-text', '%s answered %r; the docstring is %r' % (what, out[1], a[2]), inp)
        elif out[0] not in ('http', 'unparseable') and out != ('fault', F.SIGNATURE_UNSUPPORTED):
            ctx.violation('help-for-unlisted-name', '%s answered %r for a name system.listMethods does not list' % (what, out), inp)
        out, what = ask('system.methodSignature', [name])
        singles.append((('system.methodSignature', [name]), out))
        if out[0] == 'value' and not (isinstance(out[1], list) and out[1] and all(isinstance(t, str) for t in out[1])):
            ctx.violation('value-shape:system.methodSignature', '%s answered %s, not an array of type names' % (what, short(out[1])), inp)
        elif out[0] == 'fault' and out[1] != F.SIGNATURE_UNSUPPORTED:
            ctx.violation('signature-fault-not-SIGNATURE_UNSUPPORTED', '%s answered fault %r' % (what, out[1]), inp)
        elif a is not None and out[0] in ('value', 'fault'):
            ref = ref_signature(str(a[2]))
            want = ('fault', F.SIGNATURE_UNSUPPORTED) if ref is None else ('value', ref)
            if out != want:
                ctx.violation('methodSignature-wrong', '%s answered %r; the tags of the docstring %r say %r' % (what, out, a[2], want), inp)
        elif name not in listed[1] and out[0] == 'value':
            ctx.violation('help-for-unlisted-name', '%s answered %r for a name system.listMethods does not list' % (what, out), inp)
    # ---- name resolution and calls: bound methods answer what they answer, everything else is refused and runs nothing
    for name, kind, doc, mn, mx, beh in desc['attrs']:
        full = '%s.%s' % (ns, name)
        callable_rpc = kind in ('m', 'class') and not name.startswith('_')
        if callable_rpc and beh[0] in ('none', 'raise'):
            continue               # the plugin itself breaks the contract (None is not an XML-RPC value; a foreign exception): not judged
        for nargs in sorted(set([mn, mx, mx + 1])):
            del log[:]
            params = [1] * nargs
            out, what = ask(full, params)
            if out[0] in ('http', 'unparseable'):
                continue
            if not callable_rpc:
                want = ('fault', F.UNKNOWN_METHOD)
            elif nargs > mx:
                want = ('fault', F.INCORRECT_PARAMETERS)
            else:
                fin = beh[2] if beh[0] == 'd' else beh
                want = ('fault', fin[1]) if fin[0] == 'f' else ('value', fin[1])
                singles.append(((full, params), out))
            if out != want:
                ctx.violation('plugin-call-wrong-answer', '%s answered %r, required %r' % (what, out, want), inp)
            ran = [l for l in log if l == name]
            if (not callable_rpc or nargs > mx) and ran:
                ctx.violation('refused-call-executed', '%s was refused but the body of %s ran' % (what, name), inp)
    # ---- system.multicall: element for element what the single requests answered
    if singles:
        picks = singles if len(singles) <= 12 else [singles[i] for i in sorted(prng.sample(range(len(singles)), 12))]
        calls = [{'methodName': m, 'params': p} for (m, p), _ in picks]
        out, what = ask('system.multicall', [calls])
        if out[0] == 'value':
            got = [('fault', x['faultCode']) if isinstance(x, dict) and 'faultCode' in x else ('value', x) for x in out[1]] if isinstance(out[1], list) else out[1]
            want = [o for _, o in picks]
            if got != want:
                ctx.violation('multicall-differs-from-sequential', 'system.multicall(%r) with the registered namespace %r answered %r, single requests answer %r'
                              % ([(m, p) for (m, p), _ in picks], ns, got, want), inp)
        elif out[0] == 'fault':
            ctx.violation('multicall-differs-from-sequential', '%s answered fault %r as a whole; single requests answer %r' % (what, out[1], [o for _, o in picks]), inp)


def run_plugins(ctx):
    for desc in PLUGIN_CORPUS:
        plugin_case(ctx, desc, None, 'C12-9')
        plugin_case(ctx, desc, 1, 'C12-9')
    for i in range(ctx.n(40, 400)):
        plugin_case(ctx, gen_plugin(ctx.rng), ctx.rng.randrange(1 << 30) if i % 2 else None)


# =================================================================================================
# end to end, deferred answers: the real DeferredXMLRPCResponse polled until the HTTP response completes
# =================================================================================================
class SlowNs(object):
    """a registered namespace (as an rpcinterface plugin would be) whose methods answer later"""
    def __init__(self, log):
        self.log = log
    def slow(self, k, kind):
        from supervisor.http import NOT_DONE_YET
        from supervisor.xmlrpc import RPCError
        if kind == 'raise-now':
            raise RPCError(70, 'sl\u00f6w')
        left = [int(k)]
        def cb():
            self.log.append('poll')
            if left[0] > 0:
                left[0] -= 1
                return NOT_DONE_YET
            if kind == 'fault':
                raise RPCError(70, 'sl\u00f6w')
            if kind == '\u00e9':
                return '\u00e9'
            if kind == 'text-\u00e9':
                return '\u00e9\u20ac done after %d' % int(k)
            if kind == 'struct':
                return {'name': 'x', 'n': int(k), 'l': [1, 'é', True]}
            return 'done after %d' % int(k)
        cb.delay = 0.05
        return cb


def deferred_request(handler, method, params, between_polls=None, max_polls=60, cuts=None, replay_input=None):
    """the request on the wire (wire_request); the deferred producer is polled by the real channel's refill_buffer"""
    return wire_request(handler, method, params, between_polls, max_polls, cuts=cuts or None, replay_input=replay_input,
                        noresp_kind=NOFRAG if cuts else None)


def auto_cuts(rng, method, params):
    """one delivery plan for a request: inside a multi-byte character where there is one, and a few random cuts"""
    raw, hlen = build_raw(method, params, '1.1')
    mb = inside_char_cuts(raw)
    cuts = set(random_cuts(rng, len(raw), rng.randrange(0, 4)))
    if mb:
        cuts.update(rng.sample(mb, min(len(mb), rng.randrange(1, 3))))
    else:
        cuts.add(rng.randrange(hlen, len(raw)))
    return sorted(cuts)


def direct_answer(fn, between_polls=None, max_polls=60):
    """the same call made directly on the interface object, its callback polled by hand"""
    from supervisor.http import NOT_DONE_YET
    from supervisor.xmlrpc import RPCError
    polls = 0
    try:
        v = fn()
        while isinstance(v, types.FunctionType):
            r = v()
            if r is NOT_DONE_YET:
                polls += 1
                if between_polls:
                    between_polls(polls)
                if polls > max_polls:
                    return ('never-completes',), polls
                continue
            v = r
    except RPCError as e:
        return ('fault', e.code), polls
    return ('value', v), polls


def deferred_check(ctx, label, res, direct, inp):
    ctx.count('deferred:' + label); ctx.count('deferred:polls', res['polls'])
    ctx.case_done(('e2e-deferred', label, repr(inp)), nontrivial=res['polls'] > 0)
    if res.get('status') == 500:
        ctx.violation('http-500:' + label, 'deferred %s produced an HTTP 500' % label, inp)
    elif res.get('status') != 200:
        ctx.violation('deferred-response-never-completes', 'deferred %s: status %r after %d polls' % (label, res.get('status'), res['polls']), inp)
    elif not same_as_direct(res, direct):
        ctx.violation('deferred-response-differs', 'deferred %s completed on the wire with %r %r; the direct call gives %r'
                      % (label, res.get('answer'), res.get('fault_string'), direct), inp)


def deferred_world(pname='proc', slow=True):
    from supervisor import xmlrpc
    sup, iface, subs = make_real(pname=pname)
    subs2 = [('supervisor', iface)] + ([('slow', SlowNs([]))] if slow else [])
    subs2.append(('system', xmlrpc.SystemNamespaceRPCInterface(subs2)))
    return sup, iface, subs2


def deferred_slow_case(ctx, k, kind, in_multicall, cuts=None):
    """a plugin namespace answering after k polls (alone, or inside system.multicall between immediate calls)"""
    from supervisor import xmlrpc
    if in_multicall:
        method = 'system.multicall'
        calls = [{'methodName': 'supervisor.getAPIVersion', 'params': []}, {'methodName': 'slow.slow', 'params': [k, kind]},
                 {'methodName': 'supervisor.getProcessInfo', 'params': ['n\u00e9ant']}, {'methodName': 'supervisor.getIdentification', 'params': []}]
        if k % 2:
            calls = calls[:2] + calls[3:]
        params = [calls]
    else:
        method, params = 'slow.slow', [k, kind]
    if cuts == 'auto':
        cuts = auto_cuts(ctx.rng, method, params)
    inp = {'part': 'e2e-deferred', 'case': 'slow', 'k': k, 'kind': kind, 'in_multicall': in_multicall, 'cuts': cuts}
    sup, iface, subs2 = deferred_world()
    res = deferred_request(xmlrpc.supervisor_xmlrpc_handler(sup, subs2), method, params, cuts=cuts, replay_input=inp)
    sup, iface, subs3 = deferred_world()
    deferred_check(ctx, 'multicall[slow.slow]' if in_multicall else 'slow.slow', res, direct_call(xmlrpc.RootRPCInterface(subs3), method, params), inp)


DEFERRED_REAL = {   # method -> (state before, state while waiting, parameters)
    'stopProcess': ('RUNNING', 'STOPPING', lambda pn: ['grp:' + pn, True]),
    'startProcess': ('STOPPED', 'STARTING', lambda pn: ['grp:' + pn, True]),
    'stopAllProcesses': ('RUNNING', 'STOPPING', lambda pn: [True]),
    'startProcessGroup': ('STOPPED', 'STARTING', lambda pn: ['grp', True]),
}


def deferred_real_case(ctx, method, j, pname, end_state, cuts=None):
    """stop / start with wait on the real interface, the process reaching `end_state` after j polls"""
    from supervisor import xmlrpc
    from supervisor.states import ProcessStates
    start_state, mid_state, mk = DEFERRED_REAL[method]
    start_state, mid_state, end = getattr(ProcessStates, start_state), getattr(ProcessStates, mid_state), getattr(ProcessStates, end_state)
    def scenario():
        sup, iface, subs = deferred_world(pname, slow=False)
        p = sup.process_groups['grp'].processes[pname]
        p.state = start_state
        first = end if j == 0 else mid_state
        p.stop = lambda: setattr(p, 'state', first)
        p.spawn = lambda: setattr(p, 'state', first)
        def between(n):
            if n >= j:
                p.state = end
        return sup, iface, subs, between
    params = mk(pname)
    if cuts == 'auto':
        cuts = auto_cuts(ctx.rng, 'supervisor.' + method, params)
    inp = {'part': 'e2e-deferred', 'case': 'real', 'method': method, 'j': j, 'end_state': end_state, 'pname': pname, 'cuts': cuts}
    sup, iface, subs, between = scenario()
    res = deferred_request(xmlrpc.supervisor_xmlrpc_handler(sup, subs), 'supervisor.' + method, params, between, cuts=cuts, replay_input=inp)
    sup2, iface2, subs2, between2 = scenario()
    direct = direct_call(xmlrpc.RootRPCInterface(subs2), 'supervisor.' + method, params, between2)
    deferred_check(ctx, 'supervisor.' + method, res, direct, inp)


def run_e2e_deferred(ctx):
    # regression F42 (fixed): a deferred answer whose text is not ASCII -- Content-Length used to count characters
    deferred_slow_case(ctx, 0, '\u00e9', False)
    deferred_slow_case(ctx, 2, '\u00e9', True)
    for k in range(0, 6):
        for kind in ('value', 'fault', 'struct', 'text-\u00e9'):
            for cuts in (None, 'auto'):         # delivered at once / cut into pieces (inside a character where there is one)
                deferred_slow_case(ctx, k, kind, False, cuts)
                deferred_slow_case(ctx, k, kind, True, cuts)
    for j in range(0, 5):
        for pname in ('proc', 'pr\u00f6c'):
            for method, end_state in (('stopProcess', 'STOPPED'), ('startProcess', 'RUNNING'), ('startProcess', 'BACKOFF'),
                                      ('stopAllProcesses', 'STOPPED'), ('startProcessGroup', 'RUNNING')):
                for cuts in (None, 'auto'):
                    deferred_real_case(ctx, method, j, pname, end_state, cuts)


# =================================================================================================
# groups whose construction fails: addProcessGroup / removeProcessGroup / reloadConfig on a REAL daemon
#   real ServerOptions reading a real configuration file, real Supervisor.add_process_group / remove_process_group, real
#   ProcessGroupConfig / EventListenerPoolConfig / FastCGIGroupConfig and the groups they make; no child is ever started.
#   Failures come from the environment, not from fakes: the socket of an fcgi-program in a missing directory (F48) or on a
#   TCP port that is in use, the child log directory gone when the AUTO log files are created; plus a configuration object
#   whose after_setuid()/make_group() raises ValueError for the plain and the event-listener kinds.
# =================================================================================================
GROUP_SCENARIOS = ['plain', 'childlogdir-removed', 'inject-after-setuid', 'inject-make-group']
GROUP_NAMES = ['plain', 'multi', 'pool', 'fcmissing', 'fcbusy', 'fcok', 'nosuch', 'caf\u00e9']


class GroupsWorld:
    def __init__(self, ctx, scenario, mood, started=('multi',), tag='g'):
        import io, tempfile
        from supervisor.options import ServerOptions
        from supervisor.supervisord import Supervisor
        from supervisor.rpcinterface import SupervisorNamespaceRPCInterface
        from supervisor.tests.base import DummyLogger
        from supervisor import xmlrpc, events
        events.clear()
        self.seen = []
        events.subscribe(events.Event, self.seen.append)
        self.dir = d = tempfile.mkdtemp(prefix=tag, dir=ctx.scratch)
        os.mkdir(os.path.join(d, 'logs'))
        self.busy = socket.socket(socket.AF_INET, socket.SOCK_STREAM)
        self.busy.bind(('127.0.0.1', 0)); self.busy.listen(1)
        self.conf = os.path.join(d, 's.conf')
        self.text = ('[supervisord]\nchildlogdir=%(d)s/logs\nlogfile=%(d)s/sd.log\npidfile=%(d)s/sd.pid\n'
                     '[program:plain]\ncommand=/bin/cat\n'
                     '[program:multi]\ncommand=/bin/cat\nnumprocs=2\nprocess_name=%%(program_name)s_%%(process_num)d\n'
                     '[eventlistener:pool]\ncommand=/bin/cat\nevents=TICK_5\n'
                     '[fcgi-program:fcmissing]\ncommand=/bin/cat\nsocket=unix://%(d)s/missing-dir/f.sock\n'
                     '[fcgi-program:fcbusy]\ncommand=/bin/cat\nsocket=tcp://127.0.0.1:%(port)d\n'
                     '[fcgi-program:fcok]\ncommand=/bin/cat\nsocket=unix://%(d)s/ok.sock\n') % {'d': d, 'port': self.busy.getsockname()[1]}
        open(self.conf, 'w').write(self.text)
        o = self.options = ServerOptions()
        o.configfile = self.conf
        o.logger = DummyLogger(); o.stderr = io.StringIO(); o.stdout = io.StringIO()
        o.process_config(do_usage=False)
        self.sup = Supervisor(o)
        for c in o.process_group_configs:
            if c.name in started:
                self.sup.add_process_group(c)
        self.scenario = scenario
        self.apply_scenario()
        o.mood = mood
        self.iface = SupervisorNamespaceRPCInterface(self.sup)
        self.subs = [('supervisor', self.iface)]
        self.subs.append(('system', xmlrpc.SystemNamespaceRPCInterface(self.subs)))
        self.handler = xmlrpc.supervisor_xmlrpc_handler(self.sup, self.subs)
        del self.seen[:]

    def apply_scenario(self):
        import shutil
        if self.scenario == 'childlogdir-removed':
            shutil.rmtree(os.path.join(self.dir, 'logs'))       # (what a /tmp cleaner does to a running daemon)
        elif self.scenario.startswith('inject-'):
            def boom(*a, **k):
                raise ValueError('injected: the group cannot be created')
            for c in self.options.process_group_configs:
                if c.name in ('plain', 'pool'):
                    setattr(c, 'after_setuid' if self.scenario == 'inject-after-setuid' else 'make_group', boom)

    def reread_applied(self):
        """process_config() builds new configuration objects: the injected failure belongs to the objects"""
        if self.scenario.startswith('inject-'):
            self.apply_scenario()

    def state(self):
        return sorted(self.sup.process_groups)

    def close(self):
        from supervisor import events
        events.clear()
        for g in self.sup.process_groups.values():
            sm = getattr(g, 'socket_manager', None)
            try:
                if sm is not None and getattr(sm, 'socket', None) is not None:
                    sm.socket.close()
            except Exception:
                pass
        self.busy.close()


def shape_ok(method, v):
    if method in ('supervisor.addProcessGroup', 'supervisor.removeProcessGroup'):
        return v is True
    if method == 'supervisor.reloadConfig':
        return (isinstance(v, list) and len(v) == 1 and isinstance(v[0], list) and len(v[0]) == 3
                and all(isinstance(x, list) and all(isinstance(n, str) for n in x) for x in v[0]))
    return True


def groups_case(ctx, scenario, mood, ops, started=('multi',)):
    """a sequence of addProcessGroup / removeProcessGroup / reloadConfig requests to one real daemon over the real XML-RPC
    path; every answer is a value of the documented shape or a documented fault, agrees with what happened to the
    daemon's groups, and is what the same call made directly on the interface answers (a twin daemon taken through the same
    sequence afterwards: supervisor.events is one registry per interpreter, so the two never live at the same time)"""
    from supervisor import xmlrpc
    codes = set(v for k, v in vars(xmlrpc.Faults).items() if not k.startswith('_'))
    inp = {'part': 'groups', 'scenario': scenario, 'mood': mood, 'ops': [list(o) for o in ops], 'started': list(started)}
    # ---- over the wire
    w = GroupsWorld(ctx, scenario, mood, started)
    wire = []
    try:
        for k, (method, params) in enumerate(ops):
            short_m = method.split('.')[-1]
            if method == 'rewrite':                   # the configuration file changes
                open(w.conf, 'w').write(w.text + params[0] % {'d': w.dir})
                wire.append(None); continue
            before = w.state()
            del w.seen[:]
            res = wire_request(w.handler, method, params, replay_input=dict(inp, failing_op=k))
            out = ('http', res.get('status')) if res.get('status') != 200 else res['answer']
            after, events_seen = w.state(), len(w.seen)
            if short_m == 'reloadConfig':
                w.reread_applied()
            found = any(c.name == params[0] for c in w.options.process_group_configs) if params else False
            wire.append((out, found))
            ctx.count('groups:%s:%s' % (short_m, out[0] + (':%s' % out[1] if out[0] in ('fault', 'http') else '')))
            ctx.count('groups:scenario=' + scenario)
            ctx.case_done(('groups', scenario, mood, repr(ops[:k + 1]), tuple(started)), nontrivial=True)
            what = '%s%s on a daemon in scenario %r, mood %d, groups %r' % (method, short(tuple(params)), scenario, mood, before)
            vinp = dict(inp, failing_op=k)
            if out[0] == 'http' and out[1] == 500:
                ctx.violation('http-500:' + method, '%s produced an HTTP 500' % what, vinp)
            elif out[0] == 'http':
                ctx.violation('http-error:' + method, '%s produced HTTP %s' % (what, out[1]), vinp)
            elif out[0] == 'unparseable':
                ctx.violation('response-unparseable:' + method, '%s: the response body cannot be parsed (%s)' % (what, out[1]), vinp)
            elif out[0] == 'fault' and out[1] not in codes:
                ctx.violation('undocumented-fault-code', '%s answered fault %r' % (what, out[1]), vinp)
            elif out[0] == 'value' and not shape_ok(method, out[1]):
                ctx.violation('value-shape:' + method, '%s answered %s' % (what, short(out[1])), vinp)
            # ---- while shutting down / restarting: SHUTDOWN_STATE and nothing changes
            if mood < 1 and (out != ('fault', xmlrpc.Faults.SHUTDOWN_STATE) or after != before or events_seen):
                ctx.violation('ungated-while-shutting-down:' + short_m, '%s answered %r, groups afterwards %r, events %d' % (what, out, after, events_seen), vinp)
            # ---- the answer agrees with what happened to the daemon's groups
            if short_m in ('addProcessGroup', 'removeProcessGroup') and mood >= 1:
                name = params[0]
                done = (name in after and name not in before) if short_m == 'addProcessGroup' else (name in before and name not in after)
                if (out == ('value', True)) != done or (out[0] == 'fault' and after != before):
                    ctx.violation('group-answer-disagrees-with-state:' + short_m, '%s answered %r, groups afterwards %r' % (what, out, after), vinp)
    finally:
        w.close()
    # ---- the same calls made directly on the interface object of a twin daemon
    t = GroupsWorld(ctx, scenario, mood, started, tag='t')
    lines = []
    try:
        for k, (method, params) in enumerate(ops):
            short_m = method.split('.')[-1]
            if method == 'rewrite':
                open(t.conf, 'w').write(t.text + params[0] % {'d': t.dir})
                continue
            out, found = wire[k]
            what = '%s%s on a daemon in scenario %r, mood %d, groups %r' % (method, short(tuple(params)), scenario, mood, t.state())
            vinp = dict(inp, failing_op=k)
            construct = add_seam(t, params[0]) if short_m == 'addProcessGroup' else None
            try:
                direct = direct_call(xmlrpc.RootRPCInterface(t.subs), method, params)
            except Exception as e:
                direct = ('raised', type(e).__name__)
                ctx.violation('rpc-internal-error:' + short_m, '%s made directly on the interface: %s escaped the method (%s)'
                              % (what, type(e).__name__, short(str(e).replace(t.dir, '<dir>'))), vinp)
            if short_m == 'reloadConfig':
                t.reread_applied()
            if out[0] in ('value', 'fault') and direct[0] in ('value', 'fault') and (out[0], out[1] if out[0] == 'fault' else norm_value(out[1])) != (direct[0], direct[1]):
                ctx.violation('wire-answer-differs-from-direct:' + method, '%s: on the wire %r, the direct call gives %r' % (what, out, direct[:2]), vinp)
            if construct is not None:
                lines.append(('addgroup %d %d %s' % (mood, 1 if found else 0, construct),
                              'value true' if out == ('value', True) else 'fault %s' % out[1] if out[0] == 'fault'
                              else 'raised ' + (direct[1] if direct[0] == 'raised' else '?')))
    finally:
        t.close()
    return lines


def add_seam(t, name):
    """what Supervisor.add_process_group(config) does for the configured group `name` in the twin daemon's present state,
    probed on a throw-away copy of its group table: ok1 (added) | ok0 (already there) | raise:<exception class> | -"""
    cfg = next((c for c in t.options.process_group_configs if c.name == name), None)
    if cfg is None:
        return '-'
    saved = dict(t.sup.process_groups)
    from supervisor import events
    cbs = list(events.callbacks)
    try:
        r = t.sup.add_process_group(cfg)
        res = 'ok1' if r else 'ok0'
    except Exception as e:
        res = 'raise:' + type(e).__name__
    for n, g in list(t.sup.process_groups.items()):
        if n not in saved:
            sm = getattr(g, 'socket_manager', None)
            try:
                g.before_remove()
                if sm is not None and getattr(sm, 'socket', None) is not None:
                    sm.socket.close()
            except Exception:
                pass
    t.sup.process_groups.clear(); t.sup.process_groups.update(saved)
    events.callbacks[:] = cbs
    return res


def gen_group_ops(rng):
    ops = []
    for _ in range(rng.randrange(1, 6)):
        r = rng.random()
        if r < 0.55:
            ops.append(('supervisor.addProcessGroup', [rng.choice(GROUP_NAMES)]))
        elif r < 0.8:
            ops.append(('supervisor.removeProcessGroup', [rng.choice(GROUP_NAMES)]))
        elif r < 0.9:
            ops.append(('supervisor.reloadConfig', []))
        else:
            extra = rng.choice(['[fcgi-program:late]\ncommand=/bin/cat\nsocket=unix://%(d)s/nodir/late.sock\n',
                                '[program:late]\ncommand=/bin/cat\n', '[eventlistener:late]\ncommand=/bin/cat\nevents=TICK_60\n',
                                'garbage\n', '[program:late]\ncommand=/bin/cat\nnumprocs=x\n'])
            ops += [('rewrite', [extra]), ('supervisor.reloadConfig', []), ('supervisor.addProcessGroup', ['late'])]
    return ops


def run_groups(ctx):
    rng = ctx.rng
    cases, lines = [], []
    # ---- regression corpus: F48 (fixed in 076788a) -- addProcessGroup of an fcgi-program whose socket cannot be bound
    from supervisor import xmlrpc
    lines += groups_case(ctx, 'plain', 1, [('supervisor.addProcessGroup', ['fcmissing'])])
    lines += groups_case(ctx, 'plain', 1, [('rewrite', ['[fcgi-program:late]\ncommand=/bin/cat\nsocket=unix://%(d)s/nodir/late.sock\n']),
                                           ('supervisor.reloadConfig', []), ('supervisor.addProcessGroup', ['late'])])
    # ---- regression corpus: F49 (fixed in 4afb3d2) -- the child log directory is gone when the AUTO logs of the group are created
    lines += groups_case(ctx, 'childlogdir-removed', 1, [('supervisor.addProcessGroup', ['plain'])], started=())
    lines += groups_case(ctx, 'childlogdir-removed', 2, [('supervisor.addProcessGroup', ['pool']), ('supervisor.addProcessGroup', ['fcok'])], started=())
    # ---- every scenario x every mood x every group kind: add, add again, remove, remove again
    for scenario in GROUP_SCENARIOS:
        for mood in (1, 2, 0, -1):
            for name in GROUP_NAMES:
                lines += groups_case(ctx, scenario, mood, [('supervisor.addProcessGroup', [name]), ('supervisor.addProcessGroup', [name]),
                                                           ('supervisor.removeProcessGroup', [name]), ('supervisor.removeProcessGroup', [name])],
                                     started=rng.choice([('multi',), (), ('multi', 'pool', 'plain')]))
    # ---- random sequences
    for _ in range(ctx.n(40, 600)):
        lines += groups_case(ctx, rng.choice(GROUP_SCENARIOS), rng.choice([1, 1, 1, 2, 0, -1]), gen_group_ops(rng),
                             started=rng.choice([('multi',), (), ('multi', 'pool'), ('fcok', 'plain')]))
    seen, ops, il = set(), [], []
    for op, line in lines:
        if (op, line) not in seen:
            seen.add((op, line)); ops.append(op); il.append(line)
    ctx.count('groups:model-cases', len(ops))
    if ops:
        ctx.sample({'case': 'rpc addgroup', 'ops': ops[:4], 'impl': il[:4]})
        ctx.correspond('addgroup', [('case rpc', ops)], [il])


# =================================================================================================
# the body collector and the header buffer vs the model (Model/Rpc.lean requestBody / requestHeader)
# =================================================================================================
def py_res_line(fn):
    try:
        v = fn()
    except Exception as e:
        return 'raises ' + type(e).__name__
    if isinstance(v, bytes):
        return 'bytes ' + (v.hex() if v else '-')
    return 'text ' + (','.join(str(ord(c)) for c in v) if v else '-')


def collect_impl(pieces):
    """the real medusa collector fed the pieces of a body: what continue_request is handed"""
    from supervisor.medusa.xmlrpc_handler import collector
    class Chan:
        def set_terminator(self, t): pass
    class Req:
        channel = Chan()
        def get_header(self, name): return str(sum(len(p) for p in pieces))
        def error(self, code): raise AssertionError('error %s' % code)
    class H:
        def continue_request(self, data, request): self.got = data
    def go():
        h = H()
        c = collector(h, Req())
        for p in pieces:
            c.collect_incoming_data(p)
        c.found_terminator()
        return h.got
    return py_res_line(go)


def header_impl(pieces_on_wire):
    """a real deferring_http_channel fed the pieces of a request header (blank line included): the header text it cracks,
    read off the request object it offers to its handlers (request line + header lines)"""
    import select
    from supervisor.medusa import asyncore_25 as asyncore
    class Recorder:
        got = None
        def match(self, request):
            self.got = '\r\n'.join([request.request] + list(request.header))
            return 0
    rec = Recorder()
    w = Wire(rec)
    try:
        for p in pieces_on_wire:
            if w.closed:
                break
            w.b.sendall(p)
            while not w.closed and select.select([w.a], [], [], 0)[0]:
                asyncore.read(w.ch)
        if rec.got is None:
            m = re.search(r"<class '(\w+)'>", w.said[-1]) if w.said else None
            return 'raises ' + (m.group(1) if m else '?')
        return 'text ' + (','.join(str(ord(c)) for c in rec.got) if rec.got else '-')
    finally:
        w.close()


def gen_bytes(rng):
    """UTF-8 of a short text, usually damaged somewhere (truncation, overlong forms, surrogates, > U+10FFFF, stray bytes)"""
    chars = ['a', 'Z', '<', '\u00e9', '\u00ff', '\u07ff', '\u0800', '\u20ac', '\ud7ff', '\ue000', '\ufffd', '\U00010000', '\U0001f600', '\U0010ffff', '\x7f', '\x80']
    b = bytearray(''.join(rng.choice(chars) for _ in range(rng.randrange(0, 8))).encode('utf-8'))
    r = rng.random()
    bad = [b'\xc0\x80', b'\xc1\xbf', b'\xe0\x80\x80', b'\xe0\x9f\xbf', b'\xed\xa0\x80', b'\xed\xbf\xbf', b'\xf0\x80\x80\x80', b'\xf0\x8f\xbf\xbf',
           b'\xf4\x90\x80\x80', b'\xf5\x80\x80\x80', b'\xff', b'\xfe', b'\x80', b'\xbf', b'\xc3', b'\xe2\x82', b'\xf0\x9f\x98', b'\xc3\x28', b'\xe2\x28\xa1',
           b'\xf8\x88\x80\x80\x80', b'\xed\x9f\xbf', b'\xee\x80\x80', b'\xf4\x8f\xbf\xbf', b'\xe1\x80', b'\xf1\x80\x80']
    if r < 0.35:
        pass
    elif r < 0.6:
        k = rng.randrange(0, len(b) + 1); b[k:k] = rng.choice(bad)
    elif r < 0.75 and b:
        del b[rng.randrange(len(b))]
    elif r < 0.9 and b:
        b[rng.randrange(len(b))] = rng.randrange(256)
    else:
        b = bytearray(rng.randrange(256) for _ in range(rng.randrange(1, 6)))
    return bytes(b)


def cut_list(rng, data, exhaustive_two=False):
    """chunkings of data: as lists of pieces"""
    n = len(data)
    res = [[data]]
    if n >= 2:
        res += [[data[:c], data[c:]] for c in (range(1, n) if exhaustive_two else [rng.randrange(1, n)])]
        res.append([data[i:i + 1] for i in range(n)])
        cuts = random_cuts(rng, n, rng.randrange(1, 5))
        res.append(pieces_of(data, cuts))
    return res


def run_collect(ctx):
    rng = ctx.rng
    ops, il = [], []
    def add(op, pieces, line):
        ops.append('%s %s' % (op, ','.join(p.hex() if p else '-' for p in pieces)))
        il.append(line)
        ctx.count('collect:' + op + ':' + line.split()[0] + (':' + line.split()[1] if line.startswith('raises') else ''))
        ctx.case_done((op, tuple(pieces)), nontrivial=len(pieces) > 1)
    # ---- the bodies of the fragmented end-to-end requests, as they were cut
    seen = set()
    bodies = list(_BODIES)
    rng.shuffle(bodies)
    for body, cuts in bodies:
        key = (body, tuple(cuts))
        if key in seen or len(seen) >= ctx.n(600, 3000):
            continue
        seen.add(key)
        pieces = pieces_of(body, [c for c in cuts if 0 < c < len(body)])
        add('collect', pieces, collect_impl(pieces))
    # ---- the demo input of seeded change C12-4: the body of getProcessInfo('café-€-worker') cut between the two bytes of é
    from supervisor.compat import xmlrpclib
    demo = xmlrpclib.dumps(('caf\u00e9-\u20ac-worker',), 'supervisor.getProcessInfo').encode('utf-8')
    k = demo.index('\u00e9'.encode('utf-8')) + 1
    add('collect', [demo[:k], demo[k:]], collect_impl([demo[:k], demo[k:]]))
    # ---- arbitrary bytes (valid and damaged UTF-8), every 2-piece cut, byte at a time, random cuts
    for _ in range(ctx.n(150, 1500)):
        data = gen_bytes(rng)
        for pieces in cut_list(rng, data, exhaustive_two=len(data) <= 12):
            add('collect', pieces, collect_impl(pieces))
    # ---- the header buffer of the real channel
    for _ in range(ctx.n(60, 600)):
        vals = [gen_bytes(rng).replace(b'\r', b'').replace(b'\n', b'') for _ in range(rng.randrange(0, 3))]
        lines = [b'POST /RPC2 HTTP/1.1'] + [b'X-H%d: v' % i + v for i, v in enumerate(vals)]
        head = b'\r\n'.join(lines)
        if b'\r\n\r\n' in head + b'\r':
            continue
        wire = head + b'\r\n\r\n'
        for cuts in [[], [rng.randrange(1, len(wire))], random_cuts(rng, len(wire), rng.randrange(1, 5))] + \
                    [[c] for c in inside_char_cuts(head)[:6]]:
            on_wire = pieces_of(wire, cuts)
            model_pieces = [p for p in pieces_of(head, [c for c in cuts if 0 < c < len(head)]) if p]
            add('header', model_pieces, header_impl(on_wire))
    ctx.sample({'case': 'rpc collect', 'ops': [o[:100] for o in ops[:3]], 'impl': [l[:100] for l in il[:3]]})
    ctx.correspond('collect', [('case rpc', ops)], [il])



# =================================================================================================
# deferred calls complete: every process state at every poll
#   "it never produces ... a response that never completes", over "every daemon mood and process state in which the call
#   arrives" and "calls that answer later (deferred)".  A call that answers later is polled once per main-loop tick; between
#   two polls ANYTHING may happen to the process (another client stops or starts it, the child dies, a kill fails).  So the
#   population is: every deferred method (startProcess / stopProcess wait=true, their group:* forms, start/stopProcessGroup,
#   start/stopAllProcesses, system.multicall of those) x a schedule giving every process a state (any of the eight, with or
#   without a spawn error) at every tick.  The monitor is the property's own reading: once every process is in a state it need
#   not move on from (start: anything but STARTING; stop: a stopped state) and stays there, the HTTP response must complete
#   within a bound; it must be a value of the documented shape or a documented fault, never a 500; and it must be what the same
#   calls made one after another answer (the reference is Model/Rpc.lean `seq`, which multicall_sequential proves equal).
# =================================================================================================
def pstate_codes():
    from supervisor.states import ProcessStates
    return sorted(v for k, v in vars(ProcessStates).items() if not k.startswith('_') and isinstance(v, int))


def must_move_on(kind, se, st):
    """may a call of this kind go on waiting for a process that looks like this?  (the statement's reading, not the code's:
    a start waits only for a STARTING process without a spawn error; a stop only for one that is not yet stopped)"""
    from supervisor.states import ProcessStates as P
    if kind == 'start':
        return (not se) and st == P.STARTING
    return st not in (P.STOPPED, P.EXITED, P.FATAL, P.UNKNOWN)


def wait_kind(method):
    m = method.split('.')[-1]
    return 'start' if m.startswith('start') else 'stop' if m.startswith('stop') else None


class WaitWorld:
    """the real interface objects (handler, root, supervisor + system namespaces) over a group 'grp' of dummy processes
    whose state follows a script: {'name', 'initial', 'on_spawn', 'on_stop', 'traj': [[spawnerr 0|1, state], ...]}:
    spawn()/stop() put the process into on_spawn/on_stop, tick k puts it into traj[min(k, len-1)]"""
    def __init__(self, scripts):
        from supervisor.tests.base import DummyOptions, DummyPConfig, PopulatedDummySupervisor, DummyPGroupConfig
        from supervisor.rpcinterface import SupervisorNamespaceRPCInterface
        from supervisor import xmlrpc
        opts = DummyOptions()
        pconfigs = [DummyPConfig(opts, sc['name'], '/bin/true', priority=10 + i) for i, sc in enumerate(scripts)]
        sup = self.sup = PopulatedDummySupervisor(opts, 'grp', *pconfigs)
        opts.process_group_configs = [DummyPGroupConfig(opts, 'grp', pconfigs=pconfigs)]
        opts.mood = 1
        self.iface = SupervisorNamespaceRPCInterface(sup)
        self.subs = [('supervisor', self.iface)]
        self.subs.append(('system', xmlrpc.SystemNamespaceRPCInterface(self.subs)))
        self.root = xmlrpc.RootRPCInterface(self.subs)
        self.handler = xmlrpc.supervisor_xmlrpc_handler(sup, self.subs)
        self.scripts = scripts
        self.procs = []
        for sc in scripts:
            pr = sup.process_groups['grp'].processes[sc['name']]
            pr.state = sc['initial']
            pr.spawn = (lambda pr=pr, st=sc['on_spawn']: setattr(pr, 'state', st))
            pr.stop = (lambda pr=pr, st=sc['on_stop']: setattr(pr, 'state', st))
            self.procs.append(pr)

    def tick(self, k):
        for sc, pr in zip(self.scripts, self.procs):
            if sc['traj']:
                se, st = sc['traj'][min(k, len(sc['traj']) - 1)]
                pr.state = st
                pr.spawnerr = 'spawn error' if se else None


def seq_reference(root, calls, tick, bound):
    """the calls made one after another, each polled to completion before the next is made -- Model/Rpc.lean `seq`: call i+1
    is made at the invocation at which call i answered; between invocation k and k+1 the environment acts: nothing for k = 0
    (the daemon polls a deferred producer once at once, in the loop iteration that dispatched the request), tick(k-1) after.
    -> ([('value', v) | ('fault', code, text)], [polls of each call]) ; a call still pending after `bound` polls: 'never'"""
    from supervisor import xmlrpc
    from supervisor.http import NOT_DONE_YET
    k, out, polls_of = 0, [], []
    for name, params in calls:
        polls = 0
        try:
            if name == 'system.multicall':
                raise xmlrpc.RPCError(xmlrpc.Faults.INCORRECT_PARAMETERS)
            v = xmlrpc.traverse(root, name, tuple(params))
            while isinstance(v, types.FunctionType):
                if k > 0:
                    tick(k - 1)
                k += 1
                r = v()
                if r is NOT_DONE_YET:
                    polls += 1
                    if polls > bound + 2:
                        return out + ['never'], polls_of + [polls]
                    continue
                v = r
            out.append(('value', norm_value(v)))
        except xmlrpc.RPCError as e:
            out.append(('fault', e.code, e.text))
        except Exception as e:
            out.append(('fault', xmlrpc.Faults.FAILED, type(e).__name__))
        polls_of.append(polls)
    return out, polls_of


INFO_STRUCT_KEYS = {'name', 'group', 'status', 'description'}


def doc_shape_ok(method, params, v):
    """is the value what the docstring of the method promises?  (@return <type>; the process-control methods document
    `group:*` as a name, which answers the array of the group form)"""
    from supervisor.xmlrpc import gettags, Faults
    from supervisor.rpcinterface import SupervisorNamespaceRPCInterface
    from supervisor.xmlrpc import SystemNamespaceRPCInterface
    ns, _, m = method.partition('.')
    func = getattr({'supervisor': SupervisorNamespaceRPCInterface, 'system': SystemNamespaceRPCInterface}.get(ns), m, None)
    ret = next((t for t in gettags(getattr(func, '__doc__', None) or '') if t[1] == 'return'), None)
    if ret is None:
        return True
    ty, text = ret[2], ' '.join(str(x) for x in ret[3:])
    codes = set(c for k, c in vars(Faults).items() if not k.startswith('_'))
    def info_structs(x):
        return isinstance(x, list) and all(isinstance(e, dict) and set(e) >= INFO_STRUCT_KEYS and isinstance(e['status'], int)
                                           and not isinstance(e['status'], bool) and e['status'] in codes
                                           and isinstance(e['name'], str) and isinstance(e['group'], str) and isinstance(e['description'], str) for e in x)
    if m in ('startProcess', 'stopProcess', 'signalProcess') and params and isinstance(params[0], str) and (params[0].endswith(':*') or params[0].endswith(':')):
        return info_structs(v)
    if ty == 'boolean':
        return isinstance(v, bool)
    if ty == 'string':
        return isinstance(v, str)
    if ty == 'int':
        return isinstance(v, int) and not isinstance(v, bool)
    if ty == 'struct':
        return isinstance(v, dict)
    if ty == 'array':
        if not isinstance(v, list):
            return False
        if 'string bytes, int offset, bool overflow' in text:
            return len(v) == 3 and isinstance(v[0], str) and isinstance(v[1], int) and not isinstance(v[1], bool) and isinstance(v[2], bool)
        if 'status info structs' in text or m in ('signalProcessGroup',):
            return info_structs(v)
        return True
    return True


def wait_settled(calls, scripts):
    kinds = set(k for k in (wait_kind(m) for m, _ in calls) if k)
    return all(not must_move_on(k, *sc['traj'][-1]) for sc in scripts for k in kinds) if all(sc['traj'] for sc in scripts) else False


def wait_case(ctx, calls, scripts, cuts=None, regression=None, lines=None):
    """one deferred call (or a system.multicall of several calls) against processes that follow `scripts`, over the wire,
    and the same calls one after another on a twin world"""
    from supervisor import xmlrpc
    codes = set(v for k, v in vars(xmlrpc.Faults).items() if not k.startswith('_'))
    multi = len(calls) != 1
    method, params = ('system.multicall', [[{'methodName': m, 'params': p} for m, p in calls]]) if multi else calls[0]
    if cuts == 'auto':
        cuts = auto_cuts(ctx.rng, method, params)
    inp = {'part': 'wait', 'calls': [[m, p] for m, p in calls], 'scripts': scripts, 'cuts': cuts}
    if regression:
        inp['regression'] = regression
    bound = max(len(sc['traj']) for sc in scripts) + 2 * len(calls) + 3
    settled = wait_settled(calls, scripts)
    w = WaitWorld(scripts)
    res = wire_request(w.handler, method, params, None, max_polls=bound, replay_input=inp, cuts=cuts or None, ticks=w.tick,
                       noresp_kind=NOFRAG if cuts else None)
    t = WaitWorld(scripts)
    ref, ref_polls = seq_reference(t.root, calls, t.tick, bound)
    label = 'system.multicall' if multi else method
    ctx.count('wait:' + ('multicall' if multi else method.split('.')[-1])); ctx.count('wait:deferred' if res.get('deferred') else 'wait:immediate')
    ctx.count('wait:polls', res.get('polls', 0))
    for sc in scripts:
        for se, st in sc['traj']:
            ctx.count('wait:state-at-a-tick=%d%s' % (st, '+spawnerr' if se else ''))
    ctx.case_done(('wait', repr(calls), repr(scripts), repr(cuts)), nontrivial=bool(res.get('deferred')))
    what = '%s%s with the processes following %s' % (method, short(tuple(params)), short([(sc['name'], sc['initial'], sc['on_spawn'], sc['on_stop'], sc['traj']) for sc in scripts], 300))
    if lines is not None and not multi and wait_kind(method) and ref and ref[-1] != 'never' and ref_polls[0] > 0 and len(scripts) == 1 \
            and not (params[0].endswith(':*') or params[0].endswith(':')) and method.split('.')[-1] in ('startProcess', 'stopProcess'):
        # the callback of a single start/stop, polled along the schedule: Model/Rpc.lean waitPolls
        a = ref[0]
        after = scripts[0]['on_spawn' if wait_kind(method) == 'start' else 'on_stop']
        lines.append(('wait %s %d %s' % (wait_kind(method), bound + 4, ','.join('%d:%d' % (se, st) for se, st in [[0, after]] + scripts[0]['traj'])),
                      'answer %s poll=%d' % ('done' if a == ('value', True) else 'fault %d' % a[1] if a[0] == 'fault' else 'other', ref_polls[0])))
    if res.get('status') == 'never-completes':
        if settled:
            ctx.violation('deferred-call-never-completes:' + label,
                          '%s: no response after %d polls although every process has been in a state it need not move on from since tick %d'
                          % (what, res['polls'], max(len(sc['traj']) for sc in scripts) - 1), inp)
        else:
            ctx.count('wait:pending-on-a-process-that-must-move-on')
        if ref and ref[-1] != 'never' and settled:
            pass
        return res
    if res.get('status') == 500:
        ctx.violation('http-500:' + method, '%s produced an HTTP 500' % what, inp)
        return res
    if res.get('status') != 200:
        if res.get('status') != 'no-response':
            ctx.violation('http-error:' + method, '%s produced HTTP %s' % (what, res.get('status')), inp)
        return res
    ans = res.get('answer')
    if ans[0] == 'unparseable':
        ctx.violation('response-unparseable:' + method, '%s: the response body cannot be parsed (%s)' % (what, ans[1]), inp)
        return res
    # ---- documented fault codes, documented shapes
    def el(x):
        return ('fault', x['faultCode']) if isinstance(x, dict) and 'faultCode' in x else ('value', x)
    raw = [el(x) for x in ans[1]] if (multi and ans[0] == 'value' and isinstance(ans[1], list)) else [(ans[0], ans[1])]
    for (m, p), g in zip(calls, raw):
        if g[0] == 'fault' and g[1] not in codes:
            ctx.violation('undocumented-fault-code', '%s: %s answered fault %r' % (what, m, g[1]), inp)
        elif g[0] == 'value' and not doc_shape_ok(m, p, g[1]):
            ctx.violation('value-shape:' + m, '%s: %s answered %s' % (what, m, short(g[1])), inp)
    got = [(k, v if k == 'fault' else norm_value(v)) for k, v in raw]
    # ---- what the same calls made one after another answer
    want = [(r[0], r[1]) if r != 'never' else ('never',) for r in ref]
    if got != want:
        ctx.violation('multicall-differs-from-sequential' if multi else 'wire-answer-differs-from-direct:' + method,
                      '%s answered %s; the calls made one after another (each polled to completion) answer %s' % (what, short(got, 300), short(want, 300)), inp)
    return res


def gen_script(rng, name, kind=None, maxlen=4):
    from supervisor.states import ProcessStates as P
    codes = pstate_codes()
    if kind == 'start':
        initial = rng.choice([P.STOPPED, P.EXITED, P.FATAL] * 3 + codes)
    elif kind == 'stop':
        initial = rng.choice([P.RUNNING, P.STARTING, P.BACKOFF] * 3 + codes)
    else:
        initial = rng.choice(codes)
    on_spawn = rng.choice([P.STARTING] * 4 + codes)
    on_stop = rng.choice([P.STOPPING] * 4 + codes)
    traj = [[1 if rng.random() < 0.08 else 0, rng.choice(codes)] for _ in range(rng.randrange(1, maxlen + 1))]
    return {'name': name, 'initial': initial, 'on_spawn': on_spawn, 'on_stop': on_stop, 'traj': traj}


WAIT_GROUP_FORMS = [('supervisor.startProcess', ['grp:*', True]), ('supervisor.startProcessGroup', ['grp', True]), ('supervisor.startAllProcesses', [True]),
                    ('supervisor.stopProcess', ['grp:*', True]), ('supervisor.stopProcessGroup', ['grp', True]), ('supervisor.stopAllProcesses', [True]),
                    ('supervisor.startProcess', ['grp:', True]), ('supervisor.stopAllProcesses', []), ('supervisor.startProcessGroup', ['grp'])]


def onwait_impl(kind, se, st):
    """one poll of the REAL callback of startProcess/stopProcess(wait=True) with the process forced into (spawnerr, state)"""
    from supervisor import xmlrpc
    from supervisor.http import NOT_DONE_YET
    from supervisor.states import ProcessStates as P
    sc = {'name': 'p0', 'initial': P.STOPPED if kind == 'start' else P.RUNNING, 'on_spawn': P.STARTING, 'on_stop': P.STOPPING, 'traj': []}
    w = WaitWorld([sc])
    cb = xmlrpc.traverse(w.root, 'supervisor.%sProcess' % kind, ('grp:p0', True))
    if not isinstance(cb, types.FunctionType):
        return 'not-deferred'
    w.procs[0].state = st
    w.procs[0].spawnerr = 'spawn error' if se else None
    try:
        r = cb()
    except xmlrpc.RPCError as e:
        return 'fault %d' % e.code
    except Exception:
        return 'other'
    return 'again' if r is NOT_DONE_YET else 'done' if r is True else 'other'


def defers_impl(kind, wait, st):
    """does the REAL method answer later when its own spawn()/stop() leaves the process in state `st`?"""
    from supervisor import xmlrpc
    from supervisor.states import ProcessStates as P
    sc = {'name': 'p0', 'initial': P.STOPPED if kind == 'start' else P.RUNNING, 'on_spawn': st, 'on_stop': st, 'traj': []}
    w = WaitWorld([sc])
    try:
        v = xmlrpc.traverse(w.root, 'supervisor.%sProcess' % kind, ('grp:p0', bool(wait)))
    except xmlrpc.RPCError as e:
        return 'fault %d' % e.code
    return '1' if isinstance(v, types.FunctionType) else '0'


def marshal_impl(v):
    """the REAL xmlrpc_marshal on a value: the response carries the value / its only element / the marshaller's assertion trips"""
    from supervisor.xmlrpc import xmlrpc_marshal
    from supervisor.compat import xmlrpclib
    try:
        body = xmlrpc_marshal(v)
    except AssertionError:
        return 'assert'
    except Exception as e:
        return 'raises ' + type(e).__name__
    got = xmlrpclib.loads(body)[0][0]
    if got == xmlrpclib.loads(xmlrpclib.dumps((v,), methodresponse=True))[0][0]:
        return 'value'
    if isinstance(v, tuple) and len(v) == 1 and got == xmlrpclib.loads(xmlrpclib.dumps((v[0],), methodresponse=True))[0][0]:
        return 'element'
    return 'other'


def run_waits(ctx):
    from supervisor.states import ProcessStates as P
    rng = ctx.rng
    codes = pstate_codes()
    lines = []
    # ---- xmlrpc_marshal on values of every shape: Model/Rpc.lean marshalValue (generated marshal_g0/g1)
    for shape, vals in (('scalar', [True, 'x', 5, '']), ('list', [['', 0, False], []]), ('dict', [{'a': 1}]), ('tuple0', [()]), ('tuple1', [(5,), (['', 0, False],)]),
                        ('tuple2', [(1, 2)]), ('tuple3', [('', 0, False)])):
        for v in vals:
            lines.append(('marshal ' + shape, marshal_impl(v)))
            ctx.case_done(('marshal', shape, repr(v)), nontrivial=True)
    # ---- the callbacks themselves, every (spawn error, state): Model/Rpc.lean onwait / defers (generated startOnwait, stopOnwait ...)
    for kind in ('start', 'stop'):
        for se in (0, 1):
            for st in codes + [5, -1]:
                lines.append(('onwait %s %d %d' % (kind, se, st), onwait_impl(kind, se, st)))
                ctx.case_done(('onwait', kind, se, st), nontrivial=True)
        for wait in (0, 1):
            for st in codes:
                lines.append(('defers %s %d 0 %d' % (kind, wait, st), defers_impl(kind, wait, st)))
                ctx.case_done(('defers', kind, wait, st), nontrivial=True)
    # ---- regression corpus: seeded change C12-5 -- start and wait, stopped by another client while STARTING (STOPPING, then
    #      STOPPED for good); and the same ending UNKNOWN after a failed kill
    for final in (P.STOPPED, P.UNKNOWN, P.STOPPING, P.EXITED, P.FATAL, P.BACKOFF, P.RUNNING):
        for calls in ([('supervisor.startProcess', ['grp:p0', True])], [('supervisor.startProcess', ['grp:p0'])],
                      [('supervisor.getPID', []), ('supervisor.startProcess', ['grp:p0', True]), ('supervisor.getState', [])],
                      [('supervisor.startProcessGroup', ['grp', True])]):
            wait_case(ctx, calls, [{'name': 'p0', 'initial': P.STOPPED, 'on_spawn': P.STARTING, 'on_stop': P.STOPPING,
                                    'traj': [[0, P.STARTING], [0, P.STOPPING], [0, final]]}], regression='C12-5', lines=lines)
    # ---- a single start / stop: every state after the method's own spawn()/stop() x every state at the next ticks
    deep = ctx.tier != 'quick' or ctx.boost > 1
    for kind, initials in (('start', [P.STOPPED, P.EXITED]), ('stop', [P.RUNNING, P.STARTING])):
        m = 'supervisor.%sProcess' % kind
        for initial in (initials if deep else initials[:1]):
            for after in codes:
                for s1 in codes:
                    for s2 in (codes if deep else [rng.choice(codes)]) + [None]:
                        se = 1 if rng.random() < 0.06 else 0
                        traj = [[se, s1]] + ([[0, s2]] if s2 is not None else [])
                        if rng.random() < 0.3:
                            traj = [[0, after]] * rng.randrange(1, 3) + traj
                        wait_case(ctx, [(m, ['grp:p0', True])], [{'name': 'p0', 'initial': initial, 'on_spawn': after, 'on_stop': after, 'traj': traj}],
                                  cuts='auto' if rng.random() < 0.1 else None, lines=lines)
        for initial in codes:         # every state in which the call arrives (most are refused at once)
            wait_case(ctx, [(m, ['grp:p0', True])], [gen_script(rng, 'p0') | {'initial': initial}], lines=lines)
    # ---- the group / all forms over 1..3 processes
    for _ in range(ctx.n(120, 1500)):
        m, p = rng.choice(WAIT_GROUP_FORMS)
        scripts = [gen_script(rng, 'p%d' % i, wait_kind(m)) for i in range(rng.randrange(1, 4))]
        wait_case(ctx, [(m, p)], scripts, cuts='auto' if rng.random() < 0.1 else None)
    # ---- system.multicall of calls that answer later, between calls that answer at once
    for _ in range(ctx.n(120, 1500)):
        n = rng.randrange(1, 4)
        scripts = [gen_script(rng, 'p%d' % i) for i in range(n)]
        calls = []
        for _ in range(rng.randrange(2, 5)):
            r = rng.random()
            if r < 0.55:
                calls.append(('supervisor.%sProcess' % rng.choice(['start', 'stop']), ['grp:p%d' % rng.randrange(n), rng.random() < 0.85]))
            elif r < 0.75:
                calls.append(rng.choice(WAIT_GROUP_FORMS))
            else:
                calls.append(rng.choice([('supervisor.getPID', []), ('supervisor.getState', []), ('supervisor.getProcessInfo', ['grp:p0']),
                                         ('supervisor.nosuch', []), ('system.multicall', [[]]), ('supervisor.signalProcess', ['grp:p0', 'BOGUS'])]))
        wait_case(ctx, calls, scripts, cuts='auto' if rng.random() < 0.1 else None)
    seen, ops, il = set(), [], []
    for op, line in lines:
        if (op, line) not in seen:
            seen.add((op, line)); ops.append(op); il.append(line)
    ctx.count('wait:model-cases', len(ops))
    ctx.sample({'case': 'rpc wait', 'ops': ops[:2] + ops[-2:], 'impl': il[:2] + il[-2:]})
    ctx.correspond('wait', [('case rpc', ops)], [il])



# ---- two clients and the kernel: the REAL Subprocess state machine (fake fork/kill of supervisor.tests.base) -----------------
#   Client A makes a call that answers later; while it waits, other clients make calls (stop / start without waiting), children
#   exit, startsecs elapse, a kill fails -- one event per main-loop iteration -- and finally the world comes to rest (every
#   killed child is reaped, every timer has run out).  From then on nothing can change any more: A's response must complete.
SETTLED_STATES = None


class TwoClientWorld:
    def __init__(self, names, pre):
        from supervisor.tests.base import DummyOptions, DummyPConfig, PopulatedDummySupervisor, DummyPGroupConfig
        from supervisor.rpcinterface import SupervisorNamespaceRPCInterface
        from supervisor.process import Subprocess
        from supervisor import xmlrpc, events
        events.clear()
        opts = self.opts = DummyOptions()
        pids = iter(range(4000, 9000))
        opts.fork = lambda: next(pids)
        pconfigs = [DummyPConfig(opts, n, '/bin/cat', priority=10 + i, startsecs=10, startretries=2) for i, n in enumerate(names)]
        sup = self.sup = PopulatedDummySupervisor(opts, 'grp', *pconfigs)
        grp = sup.process_groups['grp']
        self.procs = {}
        for pc in pconfigs:
            pr = Subprocess(pc)
            pr.group = grp
            grp.processes[pc.name] = pr
            self.procs[pc.name] = pr
        opts.process_group_configs = [DummyPGroupConfig(opts, 'grp', pconfigs=pconfigs)]
        opts.mood = 1
        self.iface = SupervisorNamespaceRPCInterface(sup)
        self.subs = [('supervisor', self.iface)]
        self.subs.append(('system', xmlrpc.SystemNamespaceRPCInterface(self.subs)))
        self.root = xmlrpc.RootRPCInterface(self.subs)
        self.handler = xmlrpc.supervisor_xmlrpc_handler(sup, self.subs)
        for ev in pre:
            self.event(ev)

    def event(self, ev):
        """one thing that happens in one main-loop iteration"""
        from supervisor import xmlrpc
        from supervisor.states import ProcessStates as P
        kind = ev[0]
        if kind == 'rpc':                       # another client's call (it does not wait)
            try:
                xmlrpc.traverse(self.root, ev[1], tuple(ev[2]))
            except xmlrpc.RPCError:
                pass
        elif kind == 'exit':                    # the child is gone and is reaped
            pr = self.procs[ev[1]]
            if pr.pid:
                pr.finish(pr.pid, ev[2])
        elif kind == 'age':                     # startsecs / the backoff delay / stopwaitsecs run out
            pr = self.procs[ev[1]]
            pr.laststart -= 1000
            if pr.delay:
                pr.delay = 1
            pr.transition()
        elif kind == 'killfail':                # os.kill starts / stops failing
            self.opts.kill_exception = OSError(errno.EPERM, 'Operation not permitted') if ev[1] else None

    def rest(self):
        """the world comes to rest: killed children are reaped, timers run out, until nothing changes"""
        from supervisor.states import ProcessStates as P
        self.opts.kill_exception = None
        for _ in range(12):
            for pr in self.procs.values():
                if pr.state == P.STOPPING and pr.pid:
                    pr.finish(pr.pid, 15)
                elif pr.state in (P.STARTING, P.BACKOFF):
                    pr.laststart -= 1000
                    if pr.delay:
                        pr.delay = 1
                    pr.transition()

    def states(self):
        return dict((n, pr.state) for n, pr in self.procs.items())


def two_client_case(ctx, calls, names, pre, events, cuts=None, regression=None):
    """calls (client A; several = one system.multicall) over the wire; events[i] happens in main-loop iteration i while A waits,
    then the world comes to rest"""
    from supervisor import xmlrpc
    from supervisor.states import ProcessStates as P
    codes = set(v for k, v in vars(xmlrpc.Faults).items() if not k.startswith('_'))
    multi = len(calls) != 1
    method, params = ('system.multicall', [[{'methodName': m, 'params': p} for m, p in calls]]) if multi else calls[0]
    inp = {'part': 'wait2', 'calls': [[m, p] for m, p in calls], 'names': names, 'pre': pre, 'events': events, 'cuts': cuts}
    if regression:
        inp['regression'] = regression
    bound = len(events) + 3 * len(calls) * len(names) + 6
    def ticker(w):
        def tick(k):
            if k < len(events):
                w.event(events[k])
            elif k == len(events):
                w.rest()
        return tick
    w = TwoClientWorld(names, pre)
    res = wire_request(w.handler, method, params, None, max_polls=bound, replay_input=inp, cuts=cuts or None, ticks=ticker(w))
    final = w.states()
    t = TwoClientWorld(names, pre)
    ref, _ = seq_reference(t.root, calls, ticker(t), bound)
    from supervisor import events as sevents
    sevents.clear()
    kinds = set(k for k in (wait_kind(m) for m, _ in calls) if k)
    settled = all(not must_move_on(k, False, st) for st in final.values() for k in kinds)
    label = 'system.multicall' if multi else method
    ctx.count('wait2:' + ('multicall' if multi else method.split('.')[-1])); ctx.count('wait2:deferred' if res.get('deferred') else 'wait2:immediate')
    for st in final.values():
        ctx.count('wait2:final-state=%d' % st)
    ctx.case_done(('wait2', repr(calls), repr(names), repr(pre), repr(events)), nontrivial=bool(res.get('deferred')))
    what = '%s%s while %s happens (processes %s, before the call: %s)' % (method, short(tuple(params)), short(events, 300), names, short(pre))
    if res.get('status') == 'never-completes':
        if settled:
            ctx.violation('deferred-call-never-completes:' + label,
                          '%s: no response after %d polls although nothing can change any more (final states %s)' % (what, res['polls'], final), inp)
        else:
            ctx.count('wait2:pending-on-a-process-that-must-move-on')
        return
    if res.get('status') == 500:
        ctx.violation('http-500:' + method, '%s produced an HTTP 500' % what, inp)
        return
    if res.get('status') != 200 or res['answer'][0] == 'unparseable':
        if res.get('status') != 'no-response':
            ctx.violation('http-error:' + method, '%s produced HTTP %s / %s' % (what, res.get('status'), res.get('answer')), inp)
        return
    ans = res['answer']
    def el(x):
        return ('fault', x['faultCode']) if isinstance(x, dict) and 'faultCode' in x else ('value', x)
    raw = [el(x) for x in ans[1]] if (multi and ans[0] == 'value' and isinstance(ans[1], list)) else [(ans[0], ans[1])]
    for (m, p), g in zip(calls, raw):
        if g[0] == 'fault' and g[1] not in codes:
            ctx.violation('undocumented-fault-code', '%s: %s answered fault %r' % (what, m, g[1]), inp)
        elif g[0] == 'value' and not doc_shape_ok(m, p, g[1]):
            ctx.violation('value-shape:' + m, '%s: %s answered %s' % (what, m, short(g[1])), inp)
    def unclock(x):         # the real Subprocess reads the wall clock (laststart / laststop): not part of the comparison
        if isinstance(x, dict):
            return dict((k, unclock(v)) for k, v in x.items() if k not in ('start', 'stop'))
        return [unclock(y) for y in x] if isinstance(x, list) else x
    got = [(k, v if k == 'fault' else unclock(norm_value(v))) for k, v in raw]
    want = [(r[0], r[1] if r[0] == 'fault' else unclock(r[1])) if r != 'never' else ('never',) for r in ref]
    if got != want:
        ctx.violation('multicall-differs-from-sequential' if multi else 'wire-answer-differs-from-direct:' + method,
                      '%s answered %s; the calls made one after another (each polled to completion) answer %s' % (what, short(got, 300), short(want, 300)), inp)


def gen_events(rng, names, n):
    evs = []
    for _ in range(n):
        nm = rng.choice(names)
        r = rng.random()
        if r < 0.3:
            evs.append(['rpc', 'supervisor.stopProcess', ['grp:' + nm, False]])
        elif r < 0.4:
            evs.append(['rpc', 'supervisor.startProcess', ['grp:' + nm, False]])
        elif r < 0.5:
            evs.append(['rpc', rng.choice(['supervisor.stopAllProcesses', 'supervisor.startAllProcesses']), [False]])
        elif r < 0.7:
            evs.append(['exit', nm, rng.choice([0, 1, 15, 9, 256, 512])])
        elif r < 0.9:
            evs.append(['age', nm])
        else:
            evs.append(['killfail', rng.random() < 0.7])
    return evs


def run_waits2(ctx):
    rng = ctx.rng
    running = lambda names: [ev for n in names for ev in (['rpc', 'supervisor.startProcess', ['grp:' + n, False]], ['age', n])]
    # ---- regression corpus: the interleaving of seeded change C12-5 (demo.py): A starts and waits, B stops the process while
    #      it is STARTING, the child is reaped; and its variants (the kill fails: UNKNOWN; the group / all / multicall forms)
    stop_b = ['rpc', 'supervisor.stopProcess', ['grp:p0', False]]
    for calls in ([('supervisor.startProcess', ['grp:p0'])], [('supervisor.startProcess', ['grp:p0', True])], [('supervisor.startProcessGroup', ['grp', True])],
                  [('supervisor.startAllProcesses', [])], [('supervisor.startProcess', ['grp:*', True])],
                  [('supervisor.getPID', []), ('supervisor.startProcess', ['grp:p0', True]), ('supervisor.getState', [])]):
        for events in ([stop_b, ['exit', 'p0', 15]], [stop_b], [['killfail', True], stop_b], [['rpc', 'supervisor.stopAllProcesses', [False]]],
                       [['rpc', 'supervisor.stopProcessGroup', ['grp', False]], ['exit', 'p0', 9]], [['exit', 'p0', 1]], [['age', 'p0']], []):
            two_client_case(ctx, calls, ['p0'], [], events, regression='C12-5')
    # ---- random interleavings
    for _ in range(ctx.n(150, 2000)):
        names = ['p%d' % i for i in range(rng.randrange(1, 4))]
        kind = rng.choice(['start', 'stop'])
        pre = running(rng.sample(names, rng.randrange(0, len(names) + 1))) if kind == 'start' else running(names if rng.random() < 0.7 else rng.sample(names, 1))
        nm = rng.choice(names)
        forms = {'start': [('supervisor.startProcess', ['grp:' + nm, True]), ('supervisor.startProcess', ['grp:' + nm]), ('supervisor.startProcessGroup', ['grp', True]),
                           ('supervisor.startAllProcesses', [True]), ('supervisor.startProcess', ['grp:*', True])],
                 'stop': [('supervisor.stopProcess', ['grp:' + nm, True]), ('supervisor.stopProcess', ['grp:' + nm]), ('supervisor.stopProcessGroup', ['grp', True]),
                          ('supervisor.stopAllProcesses', [True]), ('supervisor.stopProcess', ['grp:*', True])]}[kind]
        calls = [rng.choice(forms)]
        if rng.random() < 0.3:
            calls = [rng.choice(forms + [('supervisor.getPID', []), ('supervisor.getProcessInfo', ['grp:' + nm])]) for _ in range(rng.randrange(2, 4))]
        two_client_case(ctx, calls, names, pre, gen_events(rng, names, rng.randrange(0, 6)), cuts=None)



# =================================================================================================
# the log files behind the log methods: a state dimension
#   Every log-related method is called for a process (and a daemon) whose log file of each channel is: there with contents /
#   there and empty / not there yet (never started, just added) or removed from outside / configured NONE / a directory.
# =================================================================================================
LOG_STATES = ['present', 'empty', 'never', 'none', 'directory']
LOG_METHODS = ['readProcessStdoutLog', 'readProcessStderrLog', 'readProcessLog', 'tailProcessStdoutLog', 'tailProcessStderrLog', 'tailProcessLog',
               'clearProcessLogs', 'clearProcessLog', 'clearAllProcessLogs', 'readLog', 'readMainLog', 'clearLog',
               'getProcessInfo', 'getAllProcessInfo', 'getAllConfigInfo']


def log_path(ctx, state, tag):
    """a path in the scratch directory that is in `state` now"""
    if state == 'none':
        return None
    path = os.path.join(ctx.scratch, 'logstate-%s-%s' % (tag, state))
    if state == 'present' and not os.path.exists(path):
        open(path, 'wb').write(b'line one\nb\xc3\xa9\xe2\x82\xac\xff tail\n')
    elif state == 'empty' and not os.path.exists(path):
        open(path, 'wb').close()
    elif state == 'directory' and not os.path.isdir(path):
        os.mkdir(path)
    elif state == 'never' and os.path.exists(path):
        os.remove(path)
    return path


def log_prepare(ctx, logstate):
    """-> prepare(sup): the process's stdout/stderr log files and the daemon's main log are put into the given states"""
    def prepare(sup):
        for grp in sup.process_groups.values():
            for pr in grp.processes.values():
                for ch in ('stdout', 'stderr'):
                    if ch in logstate:
                        setattr(pr.config, ch + '_logfile', log_path(ctx, logstate[ch], ch))
        if 'main' in logstate:
            sup.options.logfile = log_path(ctx, logstate['main'], 'main')
    prepare.logstate = logstate
    return prepare


def log_args(rng, func):
    """arguments for a log method: the process, and offset/length drawn from the windows that matter for a small file and
    from the 32-bit edges"""
    from supervisor.xmlrpc import gettags
    args = []
    for t in gettags(func.__doc__ or ''):
        if t[1] != 'param':
            continue
        if t[2] == 'string':
            args.append(rng.choice(['grp:proc'] * 6 + ['proc', 'grp:*', 'grp:nosuch', '']))
        elif t[2] == 'int':
            args.append(rng.choice([0, 0, 1, 5, 100, -1, -5, 2**31 - 1, -2**31]))
        elif t[2] == 'boolean':
            args.append(rng.random() < 0.5)
    return args


def run_logstates(ctx):
    from supervisor import xmlrpc
    rng = ctx.rng
    sup, iface, h = e2e_world(ctx)
    # ---- regression corpus: seeded change C12-6 (demo.py) -- tail of a channel that has no log file: not there yet, NONE, and
    #      with 32-bit edge offset/length; alone and as elements of one system.multicall
    demo = [('supervisor.tailProcessStdoutLog', ['grp:proc', 0, 100]), ('supervisor.tailProcessStderrLog', ['grp:proc', 0, 100]),
            ('supervisor.tailProcessLog', ['grp:proc', 2**31 - 1, -2**31])]
    for st in ('never', 'none'):
        for m, p in demo:
            e2e_case(ctx, m, p, 1, {'logstate': {'stdout': st, 'stderr': st}, 'regression': 'C12-6'})
        e2e_multi_case(ctx, demo, {'stdout': st, 'stderr': st})
    # ---- every log method x every state of the file it reads (the other channel and the main log drawn at random)
    for name in LOG_METHODS:
        func = getattr(iface, name)
        for st in LOG_STATES:
            for _ in range(ctx.n(1, 6)):
                ls = {'stdout': rng.choice(LOG_STATES), 'stderr': rng.choice(LOG_STATES), 'main': rng.choice(LOG_STATES)}
                ls['main' if name in ('readLog', 'readMainLog', 'clearLog') else 'stderr' if 'Stderr' in name else 'stdout'] = st
                if name in ('clearProcessLogs', 'clearProcessLog', 'clearAllProcessLogs', 'getProcessInfo', 'getAllProcessInfo', 'getAllConfigInfo'):
                    ls['stderr'] = st if rng.random() < 0.5 else ls['stderr']
                e2e_case(ctx, 'supervisor.' + name, log_args(rng, func), rng.choice([1, 1, 1, 2, 0, -1]), {'logstate': ls, 'frag': rng.random() < 0.25})
                ctx.count('logstate:%s=%s' % (name, st))
    # ---- system.multicall of log calls == the same calls one by one, in every state
    for _ in range(ctx.n(25, 300)):
        ls = {'stdout': rng.choice(LOG_STATES), 'stderr': rng.choice(LOG_STATES), 'main': rng.choice(LOG_STATES)}
        picks = []
        for _ in range(rng.randrange(1, 5)):
            name = rng.choice([n for n in LOG_METHODS if not n.startswith('clear')] + ['getPID'])
            picks.append(('supervisor.' + name, log_args(rng, getattr(iface, name))))
        e2e_multi_case(ctx, picks, ls)



# ---- the same dimension on a REAL daemon: real ServerOptions on a configuration file, real Supervisor, groups, Subprocess
#      objects, output dispatchers and loggers (no child is ever forked).  A program's channel logs to an explicit file, to an
#      AUTO file in childlogdir, to NONE, or (redirect_stderr) to the other channel's file; the process has never been started
#      (`fresh`: an explicit file does not exist yet), or runs with its log files open (`running`), and then its files
#      (`running-removed`) or the whole log directory (`running-dir-removed`) are removed from outside.
LOGS_SCENARIOS = ['fresh', 'running', 'running-removed', 'running-dir-removed']
LOGS_PROGRAMS = ['plog', 'pnone', 'pauto', 'predir']


class LogsWorld:
    def __init__(self, ctx, scenario, mood, tag='l'):
        import io, tempfile, shutil
        from supervisor.options import ServerOptions
        from supervisor.supervisord import Supervisor
        from supervisor.rpcinterface import SupervisorNamespaceRPCInterface
        from supervisor.states import ProcessStates
        from supervisor import xmlrpc, events
        events.clear()
        self.dir = d = tempfile.mkdtemp(prefix=tag, dir=ctx.scratch)
        os.mkdir(os.path.join(d, 'logs'))
        self.conf = os.path.join(d, 's.conf')
        open(self.conf, 'w').write(
            ('[supervisord]\nchildlogdir=%(d)s/logs\nlogfile=%(d)s/logs/sd.log\npidfile=%(d)s/sd.pid\nidentifier=verif\n'
             '[program:plog]\ncommand=/bin/cat\nstdout_logfile=%(d)s/logs/plog.out\nstderr_logfile=%(d)s/logs/plog.err\n'
             '[program:pnone]\ncommand=/bin/cat\nstdout_logfile=NONE\nstderr_logfile=NONE\n'
             '[program:pauto]\ncommand=/bin/cat\n'
             '[program:predir]\ncommand=/bin/cat\nredirect_stderr=true\nstdout_logfile=%(d)s/logs/predir.out\n') % {'d': d})
        o = self.options = ServerOptions()
        o.configfile = self.conf
        o.stderr = io.StringIO(); o.stdout = io.StringIO()
        o.process_config(do_usage=False)
        o.make_logger()
        self.sup = Supervisor(o)
        for c in o.process_group_configs:
            self.sup.add_process_group(c)
        self.opened = []
        if scenario != 'fresh':
            for i, name in enumerate(LOGS_PROGRAMS):
                pr = self.sup.process_groups[name].processes[name]
                pr.dispatchers, pr.pipes = pr.config.make_dispatchers(pr)
                pr.pid, pr.state, pr.laststart = 7000 + i, ProcessStates.RUNNING, 1000000
                self.opened.append(pr)
                for ch in ('stdout', 'stderr'):
                    path = getattr(pr.config, ch + '_logfile')
                    if path and not (ch == 'stderr' and pr.config.redirect_stderr):
                        open(path, 'ab').write(b'%s %s one\nb\xc3\xa9\xe2\x82\xac\xff tail\n' % (name.encode(), ch.encode()))
            if scenario == 'running-removed':
                for pr in self.opened:
                    for ch in ('stdout', 'stderr'):
                        path = getattr(pr.config, ch + '_logfile')
                        if path and os.path.exists(path):
                            os.remove(path)
                os.remove(o.logfile)
            elif scenario == 'running-dir-removed':
                shutil.rmtree(os.path.join(d, 'logs'))
        o.mood = mood
        self.iface = SupervisorNamespaceRPCInterface(self.sup)
        self.subs = [('supervisor', self.iface)]
        self.subs.append(('system', xmlrpc.SystemNamespaceRPCInterface(self.subs)))
        self.handler = xmlrpc.supervisor_xmlrpc_handler(self.sup, self.subs)

    def close(self):
        from supervisor import events
        events.clear()
        for pr in self.opened:
            for dsp in list(pr.dispatchers.values()):
                for log in (getattr(dsp, 'normallog', None), getattr(dsp, 'capturelog', None)):
                    if log is not None:
                        try: log.close()
                        except Exception: pass
                try: self.options.close_fd(dsp.fd)
                except Exception: pass
            try: self.options.close_child_pipes(pr.pipes)
            except Exception: pass
        try: self.options.logger.close()
        except Exception: pass


def logs_norm(w, x):
    """an answer without what legitimately differs between two daemons: their directories, AUTO log names, timestamps"""
    if isinstance(x, str):
        x = x.replace(w.dir, '<d>')
        x = re.sub(r'---(\w+)-\w+\.log', r'---\1-X.log', x)
        return re.sub(r'\d{4}-\d\d-\d\d \d\d:\d\d:\d\d,\d{3}', 'T', x)
    if isinstance(x, (list, tuple)):
        return [logs_norm(w, y) for y in x]
    if isinstance(x, dict):
        return dict((k, logs_norm(w, v)) for k, v in x.items() if k not in ('now', 'description'))
    return x


def logs_case(ctx, scenario, mood, picks):
    """the calls one by one over the wire to one real daemon, then as ONE system.multicall to a twin daemon"""
    from supervisor import xmlrpc
    codes = set(v for k, v in vars(xmlrpc.Faults).items() if not k.startswith('_'))
    inp = {'part': 'logs', 'scenario': scenario, 'mood': mood, 'calls': [[m, p] for m, p in picks]}
    w = LogsWorld(ctx, scenario, mood)
    singles = []
    try:
        for k, (m, p) in enumerate(picks):
            if m == 'system.multicall':
                singles.append(('fault', xmlrpc.Faults.INCORRECT_PARAMETERS)); continue
            res = wire_request(w.handler, m, p, replay_input=dict(inp, failing_op=k))
            out = ('http', res.get('status')) if res.get('status') != 200 else res['answer']
            ctx.count('logs:%s:%s' % (m.split('.')[-1], out[0] + (':%s' % out[1] if out[0] in ('fault', 'http') else '')))
            ctx.count('logs:scenario=' + scenario)
            ctx.case_done(('logs', scenario, mood, repr(picks[:k + 1])), nontrivial=True)
            what = '%s%s on a real daemon, log files %r, mood %d' % (m, short(tuple(p)), scenario, mood)
            vinp = dict(inp, failing_op=k)
            if out[0] == 'http' and out[1] == 500:
                ctx.violation('http-500:' + m, '%s produced an HTTP 500' % what, vinp)
            elif out[0] == 'http':
                ctx.violation('http-error:' + m, '%s produced HTTP %s' % (what, out[1]), vinp)
            elif out[0] == 'unparseable':
                ctx.violation('response-unparseable:' + m, '%s: the response body cannot be parsed (%s)' % (what, out[1]), vinp)
            elif out[0] == 'fault' and out[1] not in codes:
                ctx.violation('undocumented-fault-code', '%s answered fault %r' % (what, out[1]), vinp)
            elif out[0] == 'value' and not doc_shape_ok(m, p, out[1]):
                ctx.violation('value-shape:' + m, '%s answered %s' % (what, short(out[1])), vinp)
            if mood < 1 and m.startswith('supervisor.') and m.split('.')[-1] in LOG_METHODS and out != ('fault', xmlrpc.Faults.SHUTDOWN_STATE):
                ctx.violation('ungated-while-shutting-down:' + m.split('.')[-1], '%s answered %r' % (what, out), vinp)
            singles.append((out[0], logs_norm(w, out[1])) if out[0] == 'value' else out)
    finally:
        w.close()
    t = LogsWorld(ctx, scenario, mood, tag='m')
    try:
        res = wire_request(t.handler, 'system.multicall', [[{'methodName': m, 'params': p} for m, p in picks]], replay_input=inp)
        ctx.count('logs:multicall')
        if res.get('status') != 200 or res['answer'][0] != 'value':
            ctx.violation('http-500:system.multicall' if res.get('status') == 500 else 'http-error:system.multicall',
                          'system.multicall%s on a real daemon, log files %r: HTTP %s %s' % (short(picks), scenario, res.get('status'), res.get('answer')), inp)
            return
        got = [('fault', x['faultCode']) if isinstance(x, dict) and 'faultCode' in x else ('value', logs_norm(t, x)) for x in res['answer'][1]]
    finally:
        t.close()
    if got != singles and not any(o[0] in ('http', 'unparseable') for o in singles):
        k = next((i for i in range(min(len(got), len(singles))) if got[i] != singles[i]), min(len(got), len(singles)))
        ctx.violation('multicall-differs-from-sequential', 'real daemon, log files %r, mood %d: element %d (%s%s) of system.multicall is %s, the call made on its own answers %s'
                      % (scenario, mood, k, picks[k][0] if k < len(picks) else '?', short(tuple(picks[k][1])) if k < len(picks) else '', short(got[k] if k < len(got) else None),
                         short(singles[k] if k < len(singles) else None)), inp)
    elif got != singles:
        ctx.violation('multicall-differs-from-sequential', 'real daemon, log files %r, mood %d: system.multicall answers %s, the calls made one by one %s'
                      % (scenario, mood, short(got, 300), short(singles, 300)), inp)


def gen_log_call(rng, iface):
    name = rng.choice(LOG_METHODS)
    args = log_args(rng, getattr(iface, name))
    if args and isinstance(args[0], str):
        pn = rng.choice(LOGS_PROGRAMS)
        args[0] = rng.choice([pn + ':' + pn] * 5 + [pn, pn + ':*', 'nosuch', pn + ':nosuch'])
    return ('supervisor.' + name, args)


def run_logs_real(ctx):
    rng = ctx.rng
    sup, iface, h = e2e_world(ctx)
    # ---- regression corpus: seeded change C12-6 on a real daemon -- tail of every channel of every program that was never started
    logs_case(ctx, 'fresh', 1, [('supervisor.tailProcessStdoutLog', [pn + ':' + pn, 0, 100]) for pn in LOGS_PROGRAMS] +
              [('supervisor.tailProcessStderrLog', [pn + ':' + pn, 0, 100]) for pn in LOGS_PROGRAMS])
    # ---- every scenario: every log method of every program, then random compositions
    for scenario in LOGS_SCENARIOS:
        for pn in LOGS_PROGRAMS:
            nm = pn + ':' + pn
            logs_case(ctx, scenario, 1, [('supervisor.readProcessStdoutLog', [nm, 0, 0]), ('supervisor.readProcessStderrLog', [nm, -5, 0]),
                                         ('supervisor.tailProcessStdoutLog', [nm, 0, 10]), ('supervisor.tailProcessStderrLog', [nm, 3, 2**31 - 1]),
                                         ('supervisor.getProcessInfo', [nm]), ('supervisor.clearProcessLogs', [nm]),
                                         ('supervisor.tailProcessStdoutLog', [nm, 0, 10]), ('supervisor.readProcessStdoutLog', [nm, 0, 5])])
        logs_case(ctx, scenario, 1, [('supervisor.readLog', [0, 0]), ('supervisor.readLog', [-20, 0]), ('supervisor.getAllProcessInfo', []),
                                     ('supervisor.getAllConfigInfo', []), ('supervisor.clearAllProcessLogs', []), ('supervisor.clearLog', []),
                                     ('supervisor.readLog', [0, 0]), ('supervisor.clearLog', [])])
    for _ in range(ctx.n(12, 200)):
        logs_case(ctx, rng.choice(LOGS_SCENARIOS), rng.choice([1, 1, 1, 1, 2, 0, -1]), [gen_log_call(rng, iface) for _ in range(rng.randrange(1, 6))])


def run_frames(ctx):
    """the framing of every response seen on the wire vs the model of the response builders"""
    seen, ops, il = set(), [], []
    for kind, text, cl, body in _FRAMES:
        key = (kind, text)
        if key in seen:
            continue
        seen.add(key)
        ops.append('frame %s %s' % (kind, ','.join(str(ord(c)) for c in text) if text else '-'))
        il.append('cl=%d wire=%s' % (cl, body.hex() if body else '-'))
        ctx.case_done(('frame', kind, text), nontrivial=any(ord(c) > 127 for c in text))
    ctx.count('frames:distinct', len(ops))
    if ops:
        ctx.sample({'case': 'rpc frame', 'ops': [ops[0][:80]], 'impl': [il[0][:80]]})
        ctx.correspond('frame', [('case rpc', ops)], [il])

def run(ctx):
    run_rec(ctx)
    run_real(ctx)
    run_gate(ctx)
    _CTX[0] = ctx
    del _FRAMES[:]
    del _BODIES[:]
    del _CONNS[:]
    run_e2e(ctx)
    run_logstates(ctx)
    run_frag(ctx)
    run_e2e_deferred(ctx)
    run_plugins(ctx)
    run_waits(ctx)
    run_waits2(ctx)
    run_logs_real(ctx)
    run_groups(ctx)
    run_collect(ctx)
    run_frames(ctx)
    run_conn(ctx)



def replay(ctx, data):
    """re-run the input of a replay file through the population function it came from"""
    from supervisor import xmlrpc
    _CTX[0] = ctx
    inp = data['input']
    part = inp.get('part')
    _FORCE_FOLLOWUP[0] = inp.get('followup')
    if part == 'rec':
        log = []
        spec = spec_from_entries(inp['entries'])
        nss, _, _ = rebuild(None, spec, log)
        root = xmlrpc.AttrDict(dict(nss)) if inp.get('attrdict') else xmlrpc.RootRPCInterface(nss)
        rec_call(ctx, root, spec, inp['entries'], inp['name'], inp['nargs'], inp.get('attrdict', False), log)
    elif part == 'multi':
        log = []
        spec = spec_from_entries(inp['entries'])
        nss, _, _ = rebuild(None, spec, log)
        system = xmlrpc.SystemNamespaceRPCInterface([(n, o) for n, o in nss if n != 'system'])
        multi_case(ctx, system, spec, inp['entries'], inp['calls'], log, any(n == 'system' for n, _ in nss))
    elif part == 'real':
        sup, iface, subs = make_real()
        entries, tab = real_table(xmlrpc.RootRPCInterface(subs))
        real_call(ctx, tab, inp['name'], tuple(inp['args']), inp.get('mood', 1))
    elif part == 'gate':
        gate_case(ctx, inp['name'], inp['mood'], inp['args'], set(doc_sections().get('Process Control', [])))
    elif part in ('e2e', 'e2e-wire'):
        extra = dict((k, v) for k, v in inp.items() if k in ('expect', 'expect_kind', 'no_direct', 'regression', 'logstate'))
        prepare = make_stdin_full_process if inp.get('regression') == 'F21' else None
        if inp['method'].startswith('slow.') or any(isinstance(c, dict) and str(c.get('methodName', '')).startswith('slow.')
                                                    for p_ in inp['params'] if isinstance(p_, list) for c in p_):
            # a request of the deferred population (plugin namespace `slow`)
            sup, iface, subs2 = deferred_world()
            res = deferred_request(xmlrpc.supervisor_xmlrpc_handler(sup, subs2), inp['method'], inp['params'])
            sup, iface, subs3 = deferred_world()
            deferred_check(ctx, inp['method'], res, direct_call(xmlrpc.RootRPCInterface(subs3), inp['method'], inp['params']), inp)
        else:
            e2e_case(ctx, inp['method'], inp['params'], inp.get('mood', 1), extra, prepare)
    elif part == 'plugin':
        plugin_case(ctx, inp['desc'], inp.get('cuts_seed'), inp.get('regression'))
    elif part == 'e2e-multi':
        e2e_multi_case(ctx, [(m, p) for m, p in inp['calls']], inp.get('logstate'))
    elif part == 'e2e-frag':
        prepare = make_stdin_full_process if inp.get('regression') == 'F21' else log_prepare(ctx, inp['logstate']) if inp.get('logstate') else None
        sup, iface, h = e2e_world(ctx, inp.get('mood', 1))
        if prepare:
            prepare(sup)
        base = wire_request(h, inp['method'], inp['params'])
        frag_deliver(ctx, inp['method'], inp['params'], inp.get('mood', 1), inp.get('cuts') or None, inp.get('http', '1.1'),
                     answer_key(base), prepare, inp.get('regression'))
    elif part == 'groups':
        groups_case(ctx, inp['scenario'], inp['mood'], [(m, p) for m, p in inp['ops']], tuple(inp.get('started', ('multi',))))
    elif part == 'e2e-session':
        session_case(ctx, [(m, p) for m, p in inp['reqs']], inp.get('mood', 1), plans=inp['plans'], scripts=inp.get('scripts'), https=inp.get('https'),
                     regression=inp.get('regression'))
    elif part == 'wait':
        wait_case(ctx, [(m, p) for m, p in inp['calls']], inp['scripts'], inp.get('cuts'), inp.get('regression'))
    elif part == 'logs':
        logs_case(ctx, inp['scenario'], inp['mood'], [(m, p) for m, p in inp['calls']])
    elif part == 'wait2':
        two_client_case(ctx, [(m, p) for m, p in inp['calls']], inp['names'], inp['pre'], inp['events'], inp.get('cuts'), inp.get('regression'))
    elif part == 'e2e-deferred':
        if inp.get('case') == 'slow':
            deferred_slow_case(ctx, inp['k'], inp['kind'], inp['in_multicall'], inp.get('cuts'))
        else:
            deferred_real_case(ctx, inp['method'], inp['j'], inp['pname'], inp['end_state'], inp.get('cuts'))
    else:
        raise Infra('unknown replay part %r' % part)


# ---- MANIFEST metadata -----------------------------------------------------------------------
TECHNIQUE = ("Lean 4 theorems over a model of traverse() on an arbitrary attribute table, the generated gate/raise/arity/Faults tables "
             "(AST of rpcinterface.py, xmlrpc.py, docs/api.rst) and a step-function model of system.multicall; differential "
             "correspondence against the real traverse/multicall/interfaces and the real XML-RPC handler; fragmentation invariance of the "
             "request's way in (body collector, header buffer: generated expressions) with a proved UTF-8 encode/decode round trip, and "
             "delivery (fragmentation, HTTP variant, connection reuse) as a dimension of every end-to-end request; the hand-over of "
             "the channel between the requests of one connection (where current_request is reset / tested / set: extracted by role) as a "
             "model with a theorem for every request sequence, and the except-RPCError handlers of both answer paths as generated facts")
LEVEL_TEXT = ("traverse_closed / refused_executes_nothing / arity_fault for every attribute table and every name; gating for every "
              "documented process-control and configuration method (no exception; F39 fixed in e65d15a) by decide over the whole generated "
              "table; every raised fault name is a constant of Faults; multicall = the calls one after another for every call list, "
              "every deferred-callback behaviour and every tick schedule; the text handed to continue_request is the decoding of the "
              "whole body for every way of cutting the request into pieces (and is the client's text for every text); every request "
              "of every sequence on one connection (answers at once or deferred, kept alive or closed) is dispatched as a new request, "
              "never handed to an answered one; an RPCError raised at once or by a deferred callback is answered as a fault")
LEVEL_NOTE = ("'never 500 / never hangs' is partial: proved for name resolution, arity, gating and the log methods; the method bodies and the "
              "HTTP plumbing are exercised through the real handler, not proved")
DESIGN_REF = "DESIGN.md section 6, C12"
