-- stub: replaced by the property author
namespace Sv.Props.C08
end Sv.Props.C08
