"""EventListenerPool._acceptEvent / dispatch / transition, new_serial (supervisor/process.py)."""
from extract import Site

LEAN_MODULE = 'Pool'
IMPORTS = []
OPENS = []


def TABLES():
    from supervisor import process
    from supervisor.compat import maxint
    out = ['-- supervisor.compat.maxint', 'def maxint : Int := %d' % maxint]
    out.append('-- initial serial of a pool / of GlobalSerial')
    out.append('def initialSerial : Int := %d' % type(process.GlobalSerial)().serial)
    return out


SITES = [
    Site('supervisor/process.py', 'new_serial', 'newSerial', '(serial : Int)',
         {'inst.serial': ('serial', 'int')}, consts={'maxint': 'maxint'}),
    Site('supervisor/process.py', 'EventListenerPool._acceptEvent', 'accept',
         '(hasSerial hasPoolSerials inPoolSerials head : Bool) (buflen bufsize : Int) (bufNonEmpty : Bool)',
         {"not hasattr(event, 'serial')": ('(!hasSerial)', 'bool'),
          "not hasattr(event, 'pool_serials')": ('(!hasPoolSerials)', 'bool'),
          'self.config.name not in event.pool_serials': ('(!inPoolSerials)', 'bool'),
          'head': ('head', 'bool'),
          'len(self.event_buffer)': ('buflen', 'int'), 'self.config.buffer_size': ('bufsize', 'int'),
          'self.event_buffer': ('bufNonEmpty', 'truthy:bufNonEmpty')},
         want={'accept_g2', 'accept_g3', 'accept_g4', 'accept_g5', 'accept_g6'}),
    Site('supervisor/process.py', 'EventListenerPool.transition', 'ptrans',
         '(running ready capable : Bool) (throttle now last : Int)',
         {'process.state == ProcessStates.RUNNING': ('running', 'bool'),
          'process.listener_state == EventListenerStates.READY': ('ready', 'bool'),
          'dispatch_capable': ('capable', 'bool'), 'self.dispatch_throttle': ('throttle', 'int'),
          'now': ('now', 'int'), 'self.last_dispatch': ('last', 'int')},
         want={'ptrans_g0', 'ptrans_g1', 'ptrans_g2', 'ptrans_g3'}),
]
