"""
C10 -- event-listener protocol safety.

Implementation: a real EventListenerPool with one real Subprocess (real spawn(), finish(),
PEventListenerDispatcher, PInputDispatcher, Subprocess.write, _dispatchEvent) driven one
operation at a time (props/listener_world.py).  Correspondence against Model/Listener.lean.
Monitors (independent of the model): fragmentation independence, the documented automaton,
an independent listener-side parser of the bytes the listener's stdin received, the
at-most-one-outstanding / READY-only / event-returned rules, no escaping exception.
Several pools (section "several pools" below; correspondence against Model/Pool.lean): a listener misbehaves while
other pools -- same / other subscriptions, listeners of the same names or not -- go on: nothing reaches another
listener's stdin, no other listener changes state, and the event goes back to the misbehaving listener's own pool only.
"""
import itertools
from props.listener_world import World, hexs, parse_stdin, DocAutomaton, DocTypes, PoolHistory

ID = 'C10'
LEAN_PROPS = 'SupervisorModel.Props.C10'
DRIVER = 'drv_c10'
GENERATED = ['Listener', 'Events', 'Pool']
TRUSTED = [
    "docs/events.rst of the tree under verification is the reference for which event types a pool is subscribed to (multi-pool monitors)",
    "modelled, not verified: CPython int(bytes) (Listener.parseInt: Py_ISSPACE strip, sign, digits with single "
    "underscores, 4300-digit limit) -- exercised against the real int() by the correspondence population",
    "the stdin pipe of a listener is simulated (capacity, broken); EPIPE is permanent once the read end is gone",
    "process state (STARTING/RUNNING/STOPPING) of the listener is set directly by the harness; C01-C04 own its transitions",
    "result_handler is a parameter (default_handler and a strict OK/FAIL/raise handler are exercised)",
]
ASSUMPTIONS = [
    "a closed anonymous pipe never gets a reader again (EPIPE is sticky)",
    "os.write on a non-empty buffer returns at least 1 or raises",
]
RULE = ("cases = listener scripts: per round READY / event sent / RESULT n + payload drawn from a token grammar with "
        "faults (truncation, wrong token for the state, non-numeric / zero / negative / huge / underscored / signed / "
        "blank-padded lengths, trailing bytes, invalid UTF-8, early answers), pipe faults (capacity, EPIPE), process "
        "state changes, deaths and respawns; each script is run under several fragmentations of the listener's output "
        "(whole, byte-wise, random cuts; all 2^(n-1) cuts for short streams); plus histories over 2-3 pools (1-2 listeners "
        "each, listener names shared across pools or unique, disjoint / overlapping / equal subscriptions) in which one listener "
        "at a time answers from the same grammar (whole or in two reads), dies (with or without unread bytes), has its pipe "
        "filled or broken or is being stopped, and every pool makes a pass afterwards.  non-trivial = at least one listener "
        "state change / one event handed over; distinct = distinct canonical op lists")

READY = b'READY\n'


def result_tok(payload, lenrepr=None):
    return b'RESULT ' + (lenrepr if lenrepr is not None else str(len(payload)).encode()) + b'\n' + payload


# regression corpus: (handler, [segments])  segments: ('b', bytes) ('send',) ('op', line)
def corpus():
    up = [('op', 'spawn 100'), ('op', 'pstate running')]
    return [
        # F6 (fixed): negative length -> was unbounded recursion
        ('default', up + [('b', READY), ('send',), ('b', b'RESULT -1\nx')]),
        ('default', up + [('b', READY), ('send',), ('b', b'RESULT -1\n'), ('b', b'xyz')]),
        # F6b (fixed): header without the RESULT token accepted
        ('default', up + [('b', READY), ('send',), ('b', b'GARBAGE2\nOK')]),
        ('default', up + [('b', READY), ('send',), ('b', b'RESULT2\nOK')]),
        # F25 (fixed): a zero-length result was acted on only when more bytes arrived
        ('default', up + [('b', READY), ('send',), ('b', b'RESULT 0\n')]),
        ('default', up + [('b', READY), ('send',), ('b', b'RESULT 0\n'), ('b', READY), ('send',)]),
        # F13 (fixed): full pipe at send time
        ('strict', up + [('b', READY), ('op', 'cap 0'), ('send',), ('op', 'cap 10'), ('op', 'wev'), ('op', 'cap inf'), ('op', 'wev'),
                         ('b', b'RESULT 2\nOK'), ('b', READY), ('send',)]),
        # EPIPE at send time, listener state unchanged
        ('strict', up + [('b', READY), ('op', 'breakpipe'), ('send',), ('send',), ('op', 'wev')]),
        # death while BUSY returns the event
        ('strict', up + [('b', READY), ('send',), ('die', b'')]),
        ('strict', up + [('b', READY), ('send',), ('die', b'RESULT 2\nOK'), ('op', 'spawn 101'), ('op', 'pstate running'), ('b', READY), ('send',)]),
        # python int() corner cases in the length
        ('strict', up + [('b', READY), ('send',), ('b', result_tok(b'OK', b' +0_2 \t')), ('b', READY)]),
        ('strict', up + [('b', READY), ('send',), ('b', result_tok(b'', b'1__2'))]),
        ('strict', up + [('b', READY), ('send',), ('b', result_tok(b'', b'9' * 4301))]),
        ('strict', up + [('b', READY), ('send',), ('b', b'RESULT 2\r\nOK'), ('b', READY)]),
        ('strict', up + [('b', READY), ('send',), ('b', b'RESULT 4\n\xff\xfe\n\n'), ('b', READY)]),
        ('strict', up + [('b', b'READY\nREADY\n')]),
        ('strict', up + [('b', b'READX\n')]),
        ('strict', up + [('b', READY), ('op', 'pstate stopping'), ('send',), ('op', 'pstate running'), ('send',)]),
        # what is written to the listener's log (strip_ansi) must not be what the state machine sees (seed C10-4)
        ('strict+strip', up + [('b', b'\x1b[0mREADY\n'), ('send',)]),
        ('strict+strip', up + [('b', b'RE\x1b[0mADY\n'), ('send',)]),
        ('strict+strip', up + [('b', READY), ('send',), ('b', b'RESULT 6\n\x1b[1mOK'), ('b', READY), ('send',)]),
        ('default+log', up + [('b', READY), ('send',), ('b', b'RESULT 2\nOK'), ('b', b'\x1b[0mREADY\n'), ('send',)]),
    ]


LEN_FAULTS = [b'', b'-1', b'-0', b'+2', b' 2', b'2 ', b'\t2\r', b'0_2', b'2_', b'_2', b'1__0', b'0x2', b'2.0', b'two',
              b'2e0', b'\xb2', b'\xef\xbc\x92', b'00002', b'99999999999999999999', b'9' * 4300, b'9' * 4301, b'1 2', b'+', b'-',
              b'2\x00', b'0']


def gen_answer(rng):
    """bytes a listener writes while BUSY; mostly a valid result"""
    r = rng.random()
    payload = rng.choice([b'OK', b'OK', b'OK', b'FAIL', b'FAIL', b'', b'ok', b'OK\n', b'x', b'\xff\xfe', b'RESULT 2\nOK', bytes(rng.randrange(256) for _ in range(rng.randrange(0, 12)))])
    if r < 0.62:
        return result_tok(payload)
    if r < 0.80:
        return result_tok(payload, rng.choice(LEN_FAULTS))
    if r < 0.86:
        return rng.choice([b'RESULT', b'RESULT 2', b'RESULT2\nOK', b'result 2\nOK', b'GARBAGE2\nOK', b'\n', b'READY\n', b'RESULT\n', b'RESULT  2\nOK', b' RESULT 2\nOK'])
    if r < 0.93:
        full = result_tok(payload)
        return full[:rng.randrange(0, len(full) + 1)]
    return bytes(rng.randrange(256) for _ in range(rng.randrange(1, 10)))


ANSI = [b'\x1b[0m', b'\x1b[1;31m', b'\x1b[K', b'\x1b[', b'\x1b', b'\x1b[2J\x1b[H', b'\x1b[38;5;196m']


def ansi_noise(rng, data):
    """terminal escape sequences at random places of a listener's output (a listener that colours its log lines):
    they are ordinary bytes for the protocol, whatever [supervisord] strip_ansi says about the log file"""
    for _ in range(rng.randrange(1, 3)):
        k = rng.randrange(0, len(data) + 1)
        data = data[:k] + rng.choice(ANSI) + data[k:]
    return data


def with_logmode(rng, handler, segs):
    """a quarter of the scripts run with a stdout_logfile on the listener, most of those with strip_ansi and escapes"""
    r = rng.random()
    if r < 0.75:
        return handler, segs
    mode = 'strip' if r < 0.93 else 'log'
    segs = [(s[0], ansi_noise(rng, s[1])) + tuple(s[2:]) if s[0] in ('b', 'die') and s[1] and rng.random() < 0.4 else s for s in segs]
    return handler + '+' + mode, segs


def gen_script(rng, rounds):
    handler = rng.choice(['strict', 'default'])
    segs = [('op', 'spawn 100'), ('op', 'pstate running')]
    pid = 100
    alive = True
    for _ in range(rounds):
        if not alive:
            pid += 1
            segs += [('op', 'spawn %d' % pid), ('op', 'pstate ' + rng.choice(['running', 'running', 'starting']))]
            alive = True
        r = rng.random()
        # the READY stage
        if r < 0.75:
            segs.append(('b', READY))
        elif r < 0.85:
            segs.append(('b', READY + gen_answer(rng)))         # answers before being asked
        elif r < 0.92:
            segs.append(('b', rng.choice([b'READY', b'READY\r\n', b'ready\n', b'READY\nREADY\n', b'REA', b'\n', b'X' * 7, b'READ\nY'])))
        # pipe weather
        w = rng.random()
        if w < 0.15:
            segs.append(('op', 'cap %d' % rng.choice([0, 1, 5, 40, 80, 200])))
        elif w < 0.20:
            segs.append(('op', 'breakpipe'))
        elif w < 0.26:
            segs.append(('op', 'pstate ' + rng.choice(['starting', 'stopping', 'running'])))
        segs.append(('send',))
        if rng.random() < 0.2:
            segs.append(('send',))                               # a second attempt: must not be delivered
        for _ in range(rng.randrange(0, 3)):
            segs.append(('op', rng.choice(['wev', 'wev', 'cap inf', 'cap 7', 'pstate running'])))
        a = rng.random()
        if a < 0.3:
            segs.append(('b', gen_answer(rng) + READY))          # answer and READY in one stretch of output
        elif a < 0.8:
            segs.append(('b', gen_answer(rng)))
        if rng.random() < 0.3:
            segs.append(('b', gen_answer(rng)))                  # trailing bytes after the answer
        if rng.random() < 0.12:
            segs.append(('die', rng.choice([b'', b'', gen_answer(rng)])))
            alive = False
        elif rng.random() < 0.05:
            segs.append(('b', b''))                              # EOF on stdout
    return handler, segs


def gen_cycles(rng):
    """READY, event, then k times: the whole answer `RESULT n + n bytes` immediately followed by `READY\\n` (and
    sometimes by more) in one stretch of output, then the next event"""
    handler = rng.choice(['strict', 'default'])
    segs = [('op', 'spawn 100'), ('op', 'pstate running'), ('b', READY), ('send',)]
    for _ in range(rng.randrange(2, 6)):
        r = rng.random()
        n = rng.choice([1, 2, 2, 2, 3, 4, 7, 12])
        payload = b'OK' if r < 0.7 else (b'FAIL' if r < 0.85 else body(n))
        stream = result_tok(payload) + READY
        if rng.random() < 0.15:
            stream += rng.choice([b'X', READY, b'RESULT 2\nOK'])
        segs.append(('b', stream))
        if rng.random() < 0.1:
            segs.append(('op', 'cap %d' % rng.choice([0, 9, 60])))
        segs.append(('send',))
        if rng.random() < 0.15:
            segs.append(('op', rng.choice(['wev', 'cap inf'])))
    segs.append(('b', result_tok(b'OK')))
    return handler, segs


def fragment(rng, data, mode):
    if not data:
        return [data]
    if mode == 'few' and len(data) > 1:
        k = rng.randrange(1, min(len(data), 4))
        cuts = sorted(rng.sample(range(1, len(data)), k))
        return [data[a:b] for a, b in zip([0] + cuts, cuts + [len(data)])]
    if mode == 'whole' or len(data) == 1:
        return [data]
    if mode == 'bytes':
        return [data[i:i + 1] for i in range(len(data))]
    k = rng.randrange(1, min(len(data), 6))
    cuts = sorted(rng.sample(range(1, len(data)), k))
    return [data[a:b] for a, b in zip([0] + cuts, cuts + [len(data)])]


def all_fragmentations(data):
    n = len(data)
    for mask in range(1 << (n - 1)):
        cuts = [i + 1 for i in range(n - 1) if mask >> i & 1]
        yield [data[a:b] for a, b in zip([0] + cuts, cuts + [n])]


def cut_fragmentations(data, kmax):
    """every fragmentation of `data` with at most `kmax` cuts"""
    n = len(data)
    for k in range(0, kmax + 1):
        for cuts in itertools.combinations(range(1, n), k):
            cuts = list(cuts)
            yield [data[a:b] for a, b in zip([0] + cuts, cuts + [n])]


def body(n):
    """a result payload of n bytes; OK when n == 2 so that the default handler accepts it"""
    return b'OK' if n == 2 else bytes(65 + (i % 26) for i in range(n))


def payload_text(k):
    return 'type:t%d\nx%s' % (k, 'y' * (k % 7))


class Run:
    """one script under one fragmentation on the real objects"""

    def __init__(self, ctx, handler, segs, frags):
        self.ctx, self.handler = ctx, handler
        self.w = World([('pool', 10, 1, [])], handler=handler)
        self.ops, self.lines = [], []
        self.summ = []           # per segment: (ls, ev, outs...) for the fragmentation monitor
        self.sent = []           # (evid, envelope bytes, incarnation)
        self.incarnation = 0
        self.envelopes = {}      # incarnation -> [envelope bytes of events handed over]
        self.doc = DocAutomaton(handler.partition('+')[0])
        self.viol = []
        self.serial = 0
        self.outstanding = False
        for seg, fr in zip(segs, frags):
            self.segment(seg, fr)

    def line(self, outs, err, extra=''):
        ls, ev = self.w.lstate(0, 0)
        outs = [o.replace(':0.0:', ':', 1) for o in outs]
        return '%s ev=%s | %s | %s%s' % (ls, ev, ';'.join(outs) if outs else '-', err, extra)

    def emit(self, op, outs, err, extra=''):
        self.ops.append(op)
        ln = self.line(outs, err, extra)
        self.lines.append(ln)
        for o in outs:
            self.ctx.count('out:' + o.split(':')[0])
        if err != '-':
            self.ctx.count('err:' + err)
            if not err.startswith('OSError:11'):
                self.viol.append(('exception-escaped:' + err.split(':')[0], 'op %r raised %s' % (op, err)))
        return outs

    def segment(self, seg, fr):
        w = self.w
        p = w.proc(0, 0)
        acc = []
        if seg[0] == 'b':
            delivered = b''
            for piece in fr:
                before = w.lstate(0, 0)
                d = w.stdout_disp(p)
                if d is not None and d.readable():
                    delivered += piece
                outs = self.emit('read ' + hexs(piece), *w.read(0, 0, piece))
                acc += outs
                self.watch_outs(outs, before)
            if delivered:
                self.doc_feed(delivered)
        elif seg[0] == 'send':
            self.serial += 1
            ev = w.make_event('REMOTE_COMMUNICATION', payload_text(self.serial))
            w._see_event(ev)
            ev.serial = self.serial
            ev.pool_serials = {'pool': self.serial}
            env = w.envelope(0, ev, self.serial, self.serial)
            before = w.lstate(0, 0)
            was_running = p.state == w.states.ProcessStates.RUNNING
            outs, err, res = w.send(0, ev)
            evid = w.evids[id(ev)]
            self.emit('send %d %s' % (evid, hexs(env)), outs, err, ' sent' if res else ' notsent')
            acc += outs + ['sent' if res else 'notsent']
            if res:
                self.ctx.count('send:delivered')
                if before[0] != 'READY' or not was_running:
                    self.viol.append(('sent-when-not-ready', 'event %d handed to a listener in %s (RUNNING=%s)' % (evid, before[0], was_running)))
                if self.outstanding:
                    self.viol.append(('two-outstanding', 'event %d handed over while an earlier one is unanswered' % evid))
                if w.lstate(0, 0)[0] != 'BUSY':
                    self.viol.append(('not-busy-after-send', 'listener is %s after an event was handed over' % w.lstate(0, 0)[0]))
                self.outstanding = True
                self.envelopes.setdefault(self.incarnation, []).append(env)
                self.doc.sent()
            else:
                self.ctx.count('send:refused:' + before[0])
                if any(o.startswith('w:') for o in outs):
                    self.viol.append(('write-without-handover', 'bytes reached stdin although the event was not handed over'))
        elif seg[0] == 'die':
            before = w.lstate(0, 0)
            held = before[1]
            outs = self.emit('die ' + hexs(seg[1]), *w.die(0, 0, seg[1]))
            acc += outs
            self.watch_outs(outs, before)
            if self.outstanding:
                self.viol.append(('event-not-returned', 'listener died holding event %s, no EventRejectedEvent for it' % held))
                self.outstanding = False
        else:
            toks = seg[1].split()
            if toks[0] == 'spawn':
                fresh = not p.pid
                outs = self.emit(seg[1], *w.spawn(0, 0, int(toks[1])))
                if fresh:
                    self.incarnation += 1
                    self.doc = DocAutomaton(self.handler.partition('+')[0])
                    self.outstanding = False
            elif toks[0] == 'pstate':
                outs = self.emit(seg[1], *w.pstate(0, 0, toks[1]))
            elif toks[0] == 'cap':
                outs = self.emit(seg[1], *w.cap(0, 0, None if toks[1] == 'inf' else int(toks[1])))
            elif toks[0] == 'breakpipe':
                outs = self.emit(seg[1], *w.breakpipe(0, 0))
            elif toks[0] == 'wev':
                outs = self.emit(seg[1], *w.wev(0, 0))
            else:
                raise ValueError(seg)
            acc += outs
        ls, ev = w.lstate(0, 0)
        self.summ.append((ls, ev, tuple(self.merge_w(acc)), self.parser_state()))

    @staticmethod
    def merge_w(outs):
        return outs

    def parser_state(self):
        """what the dispatchers still hold (unparsed listener output, the pending result, unwritten envelope bytes):
        part of 'the interpretation depends only on the byte stream'.  Read best-effort: a refactor that renames
        these attributes turns the entries into None on every side and the comparison stays meaningful through the
        later segments."""
        p = self.w.proc(0, 0)
        d, di = self.w.stdout_disp(p), self.w.stdin_disp(p)
        return (getattr(d, 'state_buffer', None), getattr(d, 'resultlen', None), getattr(d, 'result', None),
                getattr(di, 'input_buffer', None))

    def watch_outs(self, outs, before):
        """answers / violations seen in one read: bookkeeping for the outstanding-event rule"""
        held = before[1]
        for o in outs:
            if o.startswith('h:'):
                self.outstanding = False
            if o.startswith('rej:'):
                self.outstanding = False
        # a listener put from BUSY directly into UNKNOWN (bad result line, handler failure) must have its event returned
        if any(o.endswith(':BUSY>UNKNOWN') for o in outs):
            if not any(o == 'rej:0.0:%s' % held for o in outs):
                self.viol.append(('event-not-returned', 'BUSY -> UNKNOWN without an EventRejectedEvent for event %s' % held))

    def doc_feed(self, data):
        w = self.w
        self.doc.feed(data)
        ls = w.lstate(0, 0)[0]
        if ls != self.doc.state:
            p = w.proc(0, 0)
            d = w.stdout_disp(p)
            kind = 'automaton-mismatch'
            # F25 recurrence: a complete zero-length result not acted on until more bytes arrive
            if ls == 'BUSY' and self.doc.outs and self.doc.outs[-1][0] == 'handled' and self.doc.outs[-1][1] == b'' and not self.doc.pending:
                kind = 'zero-length-result-deferred'
            self.viol.append((kind, 'after %r the documented automaton is in %s, supervisord says %s' % (data[-40:], self.doc.state, ls)))
            # resynchronise so that one deviation is reported once
            self.doc.state = ls if kind != 'zero-length-result-deferred' else self.doc.state
            if kind == 'zero-length-result-deferred':
                self.doc.state = 'BUSY'
                self.doc.pending = b'RESULT 0\n'
                self.doc.outs.pop()

    def finish(self):
        """stdin monitor: what each incarnation of the listener received is a prefix of the
        concatenation of the envelopes handed over to it, in order; an independent listener-side
        parser cuts it into whole envelopes with the serials in hand-over order"""
        o = self.w.proc(0, 0).config.options
        streams = o.accepted_all + [o.accepted]
        for i, s in enumerate(streams):
            exp = self.envelopes.get(i, [])
            e = b''.join(exp)
            if not e.startswith(s):
                self.viol.append(('stdin-not-envelope-sequence',
                                  'incarnation %d received %r..., not a prefix of the %d envelopes handed over' % (i, s[:60], len(exp))))
                continue
            envs, rest, ok = parse_stdin(s)
            want = [parse_stdin(x)[0][0][0] for x in exp]
            if not ok or [x[0] for x in envs] != want[:len(envs)]:
                self.viol.append(('stdin-not-envelope-sequence', 'independent parser: envelopes %r, handed over %r, rest %r' % ([x[0] for x in envs], want, rest[:40])))
            self.ctx.count('stdin:envelopes-received', len(envs))
        return self.viol


def check_script(ctx, handler, segs, fraglists, cases, impls):
    """run one script under each fragmentation; monitors; collect correspondence cases"""
    summaries = []
    for frags in fraglists:
        r = Run(ctx, handler, segs, frags)
        viol = r.finish()
        cases.append(('case listener handler=' + handler.partition('+')[0], r.ops))
        impls.append(r.lines)
        nontrivial = any('ls:' in l for l in r.lines)
        ctx.case_done(tuple(r.ops), nontrivial)
        for l in r.lines:
            ctx.count('state:' + l.split()[0])
        summaries.append(r.summ)
        seen = set()
        for kind, what in viol:
            if kind in seen:
                continue
            seen.add(kind)
            ctx.violation(kind, what, {'handler': handler, 'ops': r.ops})
    base = summaries[0]
    for idx, (s, frags) in enumerate(zip(summaries[1:], fraglists[1:])):
        if normalise(s) != normalise(base):
            k = next(i for i, (a, b) in enumerate(zip(normalise(s), normalise(base))) if a != b)
            ctx.violation('fragmentation-dependent',
                          'segment %d %r: delivered as %r -> %r, delivered as %r -> %r' % (
                              k, segs[k], [hexs(x) for x in (fraglists[0][k] or [])], normalise(base)[k],
                              [hexs(x) for x in (frags[k] or [])], normalise(s)[k]),
                          {'handler': handler, 'ops': cases[len(cases) - len(fraglists) + idx + 1][1],
                           'ops_whole': cases[len(cases) - len(fraglists)][1]})
            break


def final_view(summ):
    """the whole final state and everything that was output, for comparing two deliveries of the same stream"""
    n = normalise(summ)
    outs = []
    for _, _, o, _ in n:
        for x in o:
            if x.startswith('w:') and outs and outs[-1].startswith('w:'):
                outs[-1] = outs[-1] + x.split(':')[-1]
            else:
                outs.append(x)
    return (n[-1][0], n[-1][1], n[-1][3], tuple(o for o in outs if not o.endswith('sent')))


def normalise(summ):
    """per segment: final state, held event, outputs with consecutive stdin writes merged"""
    res = []
    for ls, ev, outs, hidden in summ:
        m = []
        for o in outs:
            if o.startswith('w:') and m and m[-1].startswith('w:'):
                m[-1] = m[-1] + o.split(':')[-1]
            else:
                m.append(o)
        res.append((ls, ev, tuple(m), hidden))
    return res


def fraglists_for(rng, segs, modes):
    res = []
    for mode in modes:
        res.append([fragment(rng, s[1], mode) if s[0] == 'b' else None for s in segs])
    return res


# ---------------------------------------------------------------------------------------------
# several pools: "... return its event to the pool, and never disturb another listener"
# ---------------------------------------------------------------------------------------------
# A listener misbehaves (FAIL, bad result line, bytes in the wrong state, handler error, death while BUSY) while other
# pools -- subscribed to the same types, to other types, with listeners of the *same names* (process names need to be
# unique within a group only) or not -- go about their business.  Histories are recorded by PoolHistory on the real
# pools; the monitors below judge them in this property's terms.

PEER_TYPES = [[['TICK_5'], ['TICK_60'], ['REMOTE_COMMUNICATION']], [['TICK_5'], ['TICK'], ['TICK_60']],
              [['TICK'], ['PROCESS_STATE_FATAL'], ['EVENT']], [['TICK_5'], ['TICK_5'], ['TICK_60']],
              [['PROCESS_LOG'], ['PROCESS_COMMUNICATION'], ['TICK']]]
PEER_EMIT = ['TICK_5', 'TICK_5', 'TICK_60', 'REMOTE_COMMUNICATION', 'PROCESS_COMMUNICATION_STDOUT', 'PROCESS_LOG_STDERR']
OKREADY = b'RESULT 2\nOKREADY\n'


def gen_peers(rng):
    """(handler, pools, names, ops)"""
    npools = rng.choice([2, 2, 3])
    nl = rng.choice([1, 1, 2])
    sets = rng.choice(PEER_TYPES)
    pools = [('p%d' % i, rng.randrange(1, 5), nl, sets[i]) for i in range(npools)]
    ops, pid = [], 300
    for pi in range(npools):
        for li in range(nl):
            pid += 1
            ops += ['spawn %d %d %d' % (pi, li, pid), 'pstate %d %d running' % (pi, li), 'read %d %d %s' % (pi, li, READY.hex())]
    k = 0
    for _ in range(rng.randrange(2, 8)):
        for _ in range(rng.choice([1, 1, 2])):
            k += 1
            ops.append('notify %s %s' % (rng.choice(PEER_EMIT), ('e%d' % k).encode().hex()))
        for pi in range(npools):
            ops.append('transition %d' % pi)
        pi, li = rng.randrange(npools), rng.randrange(nl)
        r = rng.random()
        if r < 0.55:
            # the answer of one listener, from the grammar of the single-listener scripts, whole or in two reads
            data = rng.choice([b'RESULT 4\nFAIL', b'RESULT 4\nFAILREADY\n', gen_answer(rng), gen_answer(rng) + READY])
            if len(data) > 1 and rng.random() < 0.3:
                c = rng.randrange(1, len(data))
                ops += ['read %d %d %s' % (pi, li, data[:c].hex()), 'read %d %d %s' % (pi, li, data[c:].hex())]
            else:
                ops.append('read %d %d %s' % (pi, li, hexs(data)))
        elif r < 0.75:
            pid += 1
            if rng.random() < 0.3:
                ops.append('pstate %d %d stopping' % (pi, li))
            ops += ['die %d %d %s x' % (pi, li, hexs(rng.choice([b'', b'', gen_answer(rng)]))), 'spawn %d %d %d' % (pi, li, pid),
                    'pstate %d %d running' % (pi, li), 'read %d %d %s' % (pi, li, READY.hex())]
        elif r < 0.85:
            ops.append(rng.choice(['cap %d %d 0' % (pi, li), 'cap %d %d 30' % (pi, li), 'breakpipe %d %d' % (pi, li),
                                   'pstate %d %d stopping' % (pi, li), 'wev %d %d' % (pi, li)]))
        else:
            ops.append('read %d %d %s' % (pi, li, OKREADY.hex()))
        # afterwards every pool makes a pass: nobody but the misbehaving listener's own pool has anything new to send
        for qi in range(npools):
            ops.append('transition %d' % qi)
        if rng.random() < 0.5:
            qi, qli = rng.randrange(npools), rng.randrange(nl)
            ops += ['read %d %d %s' % (qi, qli, OKREADY.hex()), 'transition %d' % qi]
    return rng.choice(['strict', 'default']), pools, rng.choice(['shared', 'shared', 'unique']), ops


def peers_corpus():
    up = ['spawn 0 0 11', 'pstate 0 0 running', 'read 0 0 ' + READY.hex(), 'spawn 1 0 12', 'pstate 1 0 running', 'read 1 0 ' + READY.hex()]
    tick = 'notify TICK_5 ' + b'when:1000'.hex()
    both = ['transition 0', 'transition 1']
    res = []
    for names in ('shared', 'unique'):
        for bad in (['read 0 0 ' + b'RESULT 4\nFAIL'.hex()], ['read 0 0 ' + b'RESULT x\n'.hex()], ['read 0 0 ' + b'RESULT 3\nBAD'.hex()],
                    ['die 0 0 - x'], ['read 0 0 ' + b'RESULT 4\n'.hex(), 'read 0 0 ' + b'FAIL'.hex()]):
            # seeds C09-2 / C10-5: pool `states` is not subscribed to the tick its namesake in pool `ticks` rejects
            res.append(('strict', [('ticks', 3, 1, ['TICK_5']), ('states', 3, 1, ['PROCESS_STATE_FATAL'])], names, up + [tick] + both + bad + both))
            # ... or is subscribed to it as well, and has answered OK for it already
            res.append(('strict', [('ticks', 3, 1, ['TICK_5']), ('ticks2', 3, 1, ['TICK'])], names,
                        up + [tick] + both + ['read 1 0 ' + OKREADY.hex()] + bad + both))
    return res


def peers_monitor(h):
    """judge a recorded history (PoolHistory) in C10's terms; returns [(kind, what)]"""
    doc = DocTypes.get()
    viol = []
    npools = len(h.pools)
    etype = {}                                    # event id -> registered type name
    credit = [dict() for _ in range(npools)]      # pool -> {event: how many more times it may be handed to a listener of the pool}
    last_return = {}                              # event -> pool whose listener gave it back last
    for st in h.steps:
        op, t = st['op'], st['op'].split()
        if st['err'] != '-' and not st['err'].startswith('OSError:11'):
            viol.append(('exception-escaped:' + st['err'].split(':')[0], 'op %r raised %s' % (op, st['err'])))
        for evid, name in st['emitted']:
            etype[evid] = name
            for qi, (pname, bs, nl, types) in enumerate(h.pools):
                if name is not None and doc.subscribed(types, name):
                    credit[qi][evid] = credit[qi].get(evid, 0) + 1
        actor = (int(t[1]), int(t[2])) if t[0] in ('read', 'die', 'wev', 'cap', 'breakpipe', 'pstate', 'spawn') else None
        # (a) whatever one listener does or suffers changes no other listener: nothing is written to another listener's
        #     stdin, no other listener changes state or gets / loses an event
        if actor is not None:
            for o in st['outs']:
                f = o.split(':')
                if f[0] in ('ls', 'w', 'h', 'rej') and tuple(int(x) for x in f[1].split('.')) != actor:
                    viol.append(('another-listener-disturbed', '%r (listener %d.%d) caused %r' % (op, actor[0], actor[1], o)))
            for qi in range(npools):
                for qli in range(len(st['before'][qi])):
                    if (qi, qli) != actor and st['before'][qi][qli] != st['after'][qi][qli]:
                        viol.append(('another-listener-disturbed', '%r (listener %d.%d) changed listener %d.%d: %r -> %r' % (
                            op, actor[0], actor[1], qi, qli, st['before'][qi][qli], st['after'][qi][qli])))
        # (b) an event goes back to the pool of the listener that held it, and to no other: a listener is handed an event
        #     only if its own pool is subscribed to the event's type and has it to give (emitted and not yet handed over,
        #     or given back by a listener of this very pool)
        for o in st['outs']:
            f = o.split(':')
            if f[0] == 'rej' and f[2].isdigit():
                qi = int(f[1].split('.')[0])
                if 0 <= qi < npools:
                    credit[qi][int(f[2])] = credit[qi].get(int(f[2]), 0) + 1
                    last_return[int(f[2])] = qi
        for qi, qli, evid in st['sent']:
            pname, bs, nl, types = h.pools[qi]
            before = st['before'][qi][qli]
            if before[0] != 'READY':
                viol.append(('sent-when-not-ready', 'event %r handed to listener %d.%d in state %s during %r' % (evid, qi, qli, before[0], op)))
            if before[1] != '-':
                viol.append(('two-outstanding', 'event %r handed to listener %d.%d which still holds event %s (%r)' % (evid, qi, qli, before[1], op)))
            name = etype.get(evid)
            if name is None or not doc.subscribed(types, name):
                viol.append(('listener-sent-event-of-unsubscribed-type',
                             'listener %d.%d of pool %s (events=%s) was sent event %r of type %s during %r' % (
                                 qi, qli, pname, ','.join(types), evid, name, op)))
            elif credit[qi].get(evid, 0) <= 0:
                other = last_return.get(evid)
                if other is not None and other != qi:
                    viol.append(('listener-sent-event-returned-in-another-pool',
                                 'listener %d.%d of pool %s was sent event %r again during %r: it was given back by a listener of pool %s, not of this pool' % (
                                     qi, qli, pname, evid, op, h.pools[other][0])))
                else:
                    viol.append(('listener-sent-event-twice', 'listener %d.%d of pool %s was sent event %r during %r although the pool had handed it over and no listener of the pool gave it back' % (
                        qi, qli, pname, evid, op)))
            credit[qi][evid] = credit[qi].get(evid, 0) - 1
        # a listener put from BUSY into UNKNOWN, or reaped while it holds an event, gives the event back
        if actor is not None and t[0] in ('read', 'die'):
            held = st['before'][actor[0]][actor[1]][1]
            gone = any(o == 'ls:%d.%d:BUSY>UNKNOWN' % actor for o in st['outs']) or (t[0] == 'die' and st['before'][actor[0]][actor[1]][0] == 'BUSY')
            answered = any(o.startswith('h:%d.%d:' % actor) and o.endswith(':4f4b') for o in st['outs'])
            if gone and held != '-' and not answered and not any(o == 'rej:%d.%d:%s' % (actor + (held,)) for o in st['outs']):
                viol.append(('event-not-returned', 'listener %d.%d left the protocol during %r holding event %s, no EventRejectedEvent for it' % (actor + (op, held))))
    # (c) every listener's stdin: whole envelopes of its own pool
    for qi, (pname, bs, nl, types) in enumerate(h.pools):
        for qli in range(nl):
            for stream in h.stdin_streams(qi, qli):
                envs, rest, good = parse_stdin(stream)
                if not good:
                    viol.append(('stdin-not-envelope-sequence', 'listener %d.%d: cannot cut %r into envelopes' % (qi, qli, rest[:40])))
                for (serial, pool, pserial, evname, body) in envs:
                    if pool != pname:
                        viol.append(('envelope-of-other-pool', 'listener of %s received an envelope of pool %s' % (pname, pool)))
                    if not doc.subscribed(types, evname):
                        viol.append(('listener-sent-event-of-unsubscribed-type', 'listener %d.%d of pool %s (events=%s) received an envelope with eventname:%s' % (
                            qi, qli, pname, ','.join(types), evname)))
    return viol


def peers_case(ctx, handler, pools, names, ops, cases, impls):
    h = PoolHistory(handler, pools, names=names)
    for op in ops:
        h.do(op)
    viol = peers_monitor(h)
    cases.append((h.case_line(), h.ops))
    impls.append(h.lines)
    ctx.case_done(('peers', handler, names, tuple(h.ops)), any(st['sent'] for st in h.steps))
    ctx.count('peers:names:' + names)
    ctx.count('peers:events-handed-over', sum(len(st['sent']) for st in h.steps))
    ctx.count('peers:events-given-back', sum(1 for st in h.steps for o in st['outs'] if o.startswith('rej:')))
    seen = set()
    for kind, what in viol:
        if kind in seen:
            continue
        seen.add(kind)
        ctx.violation(kind, what, {'what': 'peers', 'handler': handler, 'names': names, 'pools': [list(p) for p in pools], 'ops': h.ops})


def run_peers(ctx):
    rng = ctx.rng
    cases, impls = [], []
    for handler, pools, names, ops in peers_corpus():
        peers_case(ctx, handler, pools, names, ops, cases, impls)
    for _ in range(ctx.n(120, 2000)):
        handler, pools, names, ops = gen_peers(rng)
        peers_case(ctx, handler, pools, names, ops, cases, impls)
    ctx.sample({'case': cases[0][0], 'ops': cases[0][1][:12], 'impl': impls[0][:12]})
    ctx.correspond('pool', cases, impls)


def run(ctx):
    rng = ctx.rng
    cases, impls = [], []
    run_peers(ctx)
    for handler, segs in corpus():
        check_script(ctx, handler, segs, fraglists_for(rng, segs, ['whole', 'bytes', 'random']), cases, impls)
    # exhaustive fragmentations of short token streams, from each of the four listener states
    up = [('op', 'spawn 100'), ('op', 'pstate running')]
    short = [b'READY\n', b'READY\nX', b'RESULT 2\nOK', b'RESULT 0\nR', b'RESULT -1\nx', b'RES\nOK', b'RESULT 1_0\n', b'READYX', b'\n\n']
    if ctx.tier != 'quick':
        short += [b'RESULT 2\nOKREADY\n'[:k] for k in (8, 10, 12, 14)] + [b'RESULT +1\nKR', b'RESULT 3\nOK\n']
    prefixes = {'ACKNOWLEDGED': [], 'READY': [('b', READY)], 'BUSY': [('b', READY), ('send',)],
                'UNKNOWN': [('b', b'XXXXXX')]}
    for data in short:
        for st, pre in prefixes.items():
            if ctx.tier == 'quick' and len(data) > 9 and st != 'BUSY':
                continue
            segs = up + pre + [('b', data), ('b', READY), ('send',)]
            k = len(up + pre)
            fl = []
            for fr in all_fragmentations(data):
                f = [None if s[0] != 'b' else [s[1]] for s in segs]
                f[k] = fr
                fl.append(f)
            ctx.count('exhaustive-fragmentations', len(fl))
            check_script(ctx, 'default', segs, fl, cases, impls)
    # RESULT n + n bytes + following token(s) from BUSY with an event held: every fragmentation with up to 2 (3) cuts
    busy = up + [('b', READY), ('send',)]
    tail = [('send',), ('b', b'RESULT 2\nOK'), ('b', READY), ('send',)]
    for n in range(1, 13):
        followers = [READY]
        if n in (2, 5):
            followers += [READY + b'X', b'RESULT 2\nOK', READY[:3]]
        for fol in followers:
            stream = result_tok(body(n)) + fol
            kmax = 3 if (ctx.tier != 'quick' or n <= 3) and fol == READY else 2
            segs = busy + [('b', stream)] + tail
            k = len(busy)
            fl = []
            for fr in cut_fragmentations(stream, kmax):
                f = [None if s[0] != 'b' else [s[1]] for s in segs]
                f[k] = fr
                fl.append(f)
            ctx.count('exhaustive-cut-fragmentations', len(fl))
            check_script(ctx, 'strict' if n % 2 else 'default', segs, fl, cases, impls)
    # several complete result + READY cycles, cut anywhere
    for i in range(ctx.n(60, 1200)):
        handler, segs = with_logmode(rng, *gen_cycles(rng))
        modes = ['whole', 'bytes', 'random', 'random', 'few', 'few'] + (['few', 'random'] if ctx.tier != 'quick' else [])
        check_script(ctx, handler, segs, fraglists_for(rng, segs, modes), cases, impls)
    # random scripts
    for i in range(ctx.n(120, 2500)):
        handler, segs = with_logmode(rng, *gen_script(rng, rng.randrange(1, 7)))
        modes = ['whole', 'bytes', 'random'] + (['random'] if ctx.tier != 'quick' else [])
        check_script(ctx, handler, segs, fraglists_for(rng, segs, modes), cases, impls)
    ctx.sample({'case': cases[6][0], 'ops': cases[6][1][:8], 'impl': impls[6][:8]})
    ctx.sample({'case': cases[-1][0], 'ops': cases[-1][1][:8], 'impl': impls[-1][:8]})
    ctx.correspond('listener', cases, impls)


def ops_to_segs(ops):
    segs = []
    for op in ops:
        t = op.split()
        if t[0] == 'read':
            segs.append(('b', bytes.fromhex(t[1]) if t[1] != '-' else b''))
        elif t[0] == 'send':
            segs.append(('send',))
        elif t[0] == 'die':
            segs.append(('die', bytes.fromhex(t[1]) if t[1] != '-' else b''))
        else:
            segs.append(('op', op))
    return segs


def replay(ctx, data):
    inp = data['input']
    cases, impls = [], []
    if inp.get('what') == 'peers':
        ops = [' '.join(o.split()[:4]) + ' x' if o.startswith('die') else ' '.join(o.split()[:4]) if o.startswith('spawn') else o for o in inp['ops']]
        peers_case(ctx, inp['handler'], [tuple(p[:3]) + (p[3],) for p in inp['pools']], inp['names'], ops, cases, impls)
        ctx.correspond('pool', cases, impls)
        return
    segs = ops_to_segs(inp['ops'])
    check_script(ctx, inp['handler'], segs, fraglists_for(ctx.rng, segs, ['whole']), cases, impls)
    if 'ops_whole' in inp:
        # the same byte stream delivered in two ways: final state and concatenated outputs must agree
        views = []
        for ops in (inp['ops_whole'], inp['ops']):
            sg = ops_to_segs(ops)
            r = Run(ctx, inp['handler'], sg, [[s[1]] if s[0] == 'b' else None for s in sg])
            views.append(final_view(r.summ))
        if views[0] != views[1]:
            ctx.violation('fragmentation-dependent', 'delivered one way -> %r, delivered the other way -> %r' % (views[0], views[1]), inp)
    ctx.correspond('listener', cases, impls)


TECHNIQUE = ("Lean 4 theorems (induction over operation lists, fragmentation invariance of the token parser, refinement "
             "to the documented automaton) over a model whose guards/slices/tokens/state codes are regenerated from "
             "dispatchers.py, process.py, states.py; differential correspondence against the real dispatchers")
LEVEL_TEXT = ("never_disturbs_another_pool: for pools of distinct process objects (names may coincide) nothing a listener does changes "
              "another pool, at every moment of every history (the owner test of handle_rejected is regenerated from the source); "
              "the parser's fragmentation invariance, termination, the at-most-one-outstanding and envelope-contiguity "
              "invariants hold for every byte stream / operation list (no bound); the definitions they unfold are "
              "regenerated from /repo on each run and the model is run against the real objects on grammar-based scripts "
              "under several fragmentations")
LEVEL_NOTE = "trusts Lean's kernel, extract.py's expression translation, the int(bytes) model, the simulated stdin pipe; see DESIGN.md C10"
DESIGN_REF = "DESIGN.md section 6, C10"
