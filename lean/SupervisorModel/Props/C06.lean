-- stub: replaced by the property author
namespace Sv.Props.C06
end Sv.Props.C06
