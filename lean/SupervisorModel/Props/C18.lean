-- stub: replaced by the property author
namespace Sv.Props.C18
end Sv.Props.C18
