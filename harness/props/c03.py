"""
C03 -- automatic start, retry and restart policy is exactly the configured one.
Correspondence: the shared L1 population (real Subprocess/ProcessGroup/rpcinterface vs Model/ProcOps.lean),
biased towards start attempts that fail early / late, spawn failures at every retry and passes around the retry times.
Monitor: a policy oracle written from the property statement, evaluated on the implementation's fork log and
PROCESS_STATE notifications.
"""
import proc_l1
from proc_l1 import L1, op_line, cfg_line, gen_cfg, TICK
from props import c01
from props.c04 import parse

ID = 'C03'
LEAN_PROPS = 'SupervisorModel.Props.C03'
DRIVER = 'drv_c01'
GENERATED = ['Proc']
TRUSTED = c01.TRUSTED
ASSUMPTIONS = c01.ASSUMPTIONS + [
    "under clock jumps 'alive longer than startsecs' / 'k seconds after the k-th failure' are read against the re-based reference time min(reference, first reading after the jump [+ k])",
    "the clock never reads 0 (autostart-once uses laststart = 0 as 'never started')"]
RULE = ("operation histories biased towards the start/retry cycle: children exiting before/after startsecs with any status, spawn "
        "failures of the three kinds at any retry, passes just before/at/after the retry time, long gaps, backward jumps, daemon "
        "moods, explicit start/stop between retries; non-trivial = at least one automatic fork or BACKOFF; distinct = distinct trace")


def monitor(ctx, cfg, ops, lines):
    ss, retries = cfg['startsecs'] * TICK, cfg['startretries']
    state, pid = 'STOPPED', 0
    t_start = None        # reference time of the current start attempt
    t_retry = None        # earliest time of the pending retry
    k = 0                 # consecutive failures (tries)
    ever_started = False
    auto_retries = 0      # automatic retries since the last non-retry start
    exitstatus = None
    for i, (op, line) in enumerate(zip(ops, lines)):
        st2, f, toks, err = parse(line)
        now = op['now']
        inp = {'cfg': cfg, 'ops': ops[:i + 1]}
        forks = [t for t in toks if t.startswith('fork:')]
        evs = [t[3:].split('<')[0] for t in toks if t.startswith('ev:')]
        kop = op['op']
        if kop == 'transition':
            mood_ok = op['mood'] > 0
            spawn_ok = op['spawn'][0] == 'ok'
            attempted = 'STARTING' in evs and state != 'STARTING'
            if state == 'STARTING':
                t_start = min(t_start, now)
                want_running = now - t_start > ss
                if ('RUNNING' in evs) != want_running:
                    ctx.violation('running-too-early' if 'RUNNING' in evs else 'running-missing',
                                  'pass at %d, start reference %d, startsecs %d: RUNNING announced=%s' % (now, t_start, ss, 'RUNNING' in evs), inp)
                if attempted or forks:
                    ctx.violation('fork-while-starting', 'a pass started a process that is STARTING', inp)
            elif state == 'BACKOFF':
                t_retry = min(t_retry, now + k * TICK)
                want = mood_ok and k <= retries and now > t_retry
                if attempted != want:
                    ctx.violation('retry-too-early' if attempted else 'retry-missing',
                                  'pass at %d in BACKOFF (tries=%d, startretries=%d, retry time %d, mood %d): retried=%s' % (now, k, retries, t_retry, op['mood'], attempted), inp)
                if attempted:
                    auto_retries += 1
                    if auto_retries > retries:
                        ctx.violation('too-many-retries', '%d automatic retries with startretries=%d' % (auto_retries, retries), inp)
                    ctx.count('auto-retry')
                if k > retries and st2 != 'FATAL':
                    ctx.violation('no-fatal-after-budget', 'BACKOFF with tries=%d > startretries=%d is %s after a pass' % (k, retries, st2), inp)
            elif state == 'EXITED':
                ar = cfg['autorestart']
                want = mood_ok and (ar == 'true' or (ar == 'unexpected' and exitstatus not in cfg['exitcodes']))
                if attempted != want:
                    ctx.violation('autorestart-wrong', 'EXITED (status %r, autorestart=%s, exitcodes=%r, mood %d): restarted=%s' % (
                        exitstatus, ar, cfg['exitcodes'], op['mood'], attempted), inp)
                if attempted:
                    auto_retries = 0
                    ctx.count('auto-restart')
            elif state == 'STOPPED':
                want = mood_ok and cfg['autostart'] and not ever_started
                if attempted != want:
                    ctx.violation('autostart-wrong', 'STOPPED (autostart=%s, started before=%s, mood %d): started=%s' % (
                        cfg['autostart'], ever_started, op['mood'], attempted), inp)
                if attempted:
                    auto_retries = 0
                    ctx.count('autostart')
            elif attempted or forks:
                ctx.violation('start-from-' + state.lower(), 'a pass started a process that is %s' % state, inp)
        elif kop == 'rpcstart' and 'STARTING' in evs:
            auto_retries = 0
        elif kop == 'reap' and state == 'STARTING' and f['killing'] == '0' and err == '-':
            t_start = min(t_start, now)
            if t_start < now and now - t_start < ss and st2 != 'BACKOFF':
                ctx.violation('early-exit-not-backoff', 'child reaped %d ticks after start (startsecs %d) with status %d: state %s' % (
                    now - t_start, ss, op['es'], st2), inp)
        # bookkeeping from the notifications
        for t in toks:
            if t.startswith('ev:'):
                to = t[3:].split('<')[0]
                fields = dict(kv.split('=') for kv in t.split(':')[2:])
                if to == 'STARTING':
                    t_start = now
                    ever_started = True
                elif to == 'BACKOFF':
                    k = int(fields['tries'])
                    t_retry = now + k * TICK
                    ctx.count('backoff')
                elif to in ('RUNNING', 'FATAL'):
                    k = 0
                    auto_retries = 0
                elif to == 'EXITED':
                    k = 0
        if 'STARTING' in evs and forks == [] and op.get('spawn', ('ok',))[0] == 'ok' and kop in ('transition', 'rpcstart') and err == '-':
            ctx.violation('start-without-fork', 'STARTING announced but no child forked although the spawn could succeed', inp)
        exitstatus = None if f['es'] == 'None' else int(f['es'])
        state, pid = st2, int(f['pid'])


def gen_ops_c03(rng, cfg):
    ss = cfg['startsecs'] * TICK
    now = [rng.choice([1000, 90000]) * TICK]
    nextpid = [300]
    def spawn():
        if rng.random() < 0.7:
            nextpid[0] += 1
            return ('ok', nextpid[0])
        return (rng.choice(['badcmd', 'pipeerr', 'forkerr']),)
    def gen(proc):
        from supervisor.states import ProcessStates as PSt
        st = proc.get_state()
        r = rng.random()
        if st == PSt.BACKOFF:
            d = int(round(proc.delay * TICK))
            c = rng.random()
            if c < 0.45:
                now[0] = max(TICK, d + rng.choice([-1, 0, 1, 1, TICK, -TICK]))
            elif c < 0.55:
                now[0] = max(TICK, now[0] - rng.choice([TICK, 5 * TICK]))
            else:
                now[0] += rng.choice([0, 512, TICK, 2 * TICK, 30 * TICK])
            if r < 0.8:
                return {'op': 'transition', 'now': now[0], 'mood': rng.choice([1, 1, 1, 1, 0, -1]), 'spawn': spawn(), 'kill': 'ok'}
            if r < 0.9:
                return {'op': 'rpcstop', 'now': now[0], 'mood': 1, 'kill': 'ok'}
            return {'op': 'rpcstart', 'now': now[0], 'mood': 1, 'spawn': spawn()}
        if st == PSt.STARTING:
            ls = int(round(proc.laststart * TICK))
            c = rng.random()
            if c < 0.4:
                now[0] = max(TICK, ls + ss + rng.choice([-1, 0, 1, 2, -TICK, TICK]))
            elif c < 0.5:
                now[0] = max(TICK, now[0] - rng.choice([TICK, 4 * TICK]))
            else:
                now[0] += rng.choice([0, 256, TICK, 3 * TICK])
            if r < 0.5:
                return {'op': 'reap', 'now': now[0], 'es': rng.choice([0, 0, 1, 2, -1, 255]), 'busy': False}
            if r < 0.9:
                return {'op': 'transition', 'now': now[0], 'mood': rng.choice([1, 1, 1, 0]), 'spawn': spawn(), 'kill': 'ok'}
            return {'op': 'rpcstop', 'now': now[0], 'mood': 1, 'kill': rng.choice(['ok', 'ok', 'esrch'])}
        now[0] = max(TICK, now[0] + rng.choice([0, 256, TICK, TICK, 5 * TICK, -TICK, 40 * TICK]))
        if proc.pid and r < 0.4:
            return {'op': 'reap', 'now': now[0], 'es': rng.choice([0, 0, 1, 2, -1]), 'busy': False}
        if r < 0.5:
            return {'op': 'transition', 'now': now[0], 'mood': rng.choice([1, 1, 1, 1, 0, -1]), 'spawn': spawn(), 'kill': 'ok'}
        if r < 0.62:
            return {'op': 'rpcstart', 'now': now[0], 'mood': 1, 'spawn': spawn()}
        if r < 0.72:
            return {'op': 'rpcstop', 'now': now[0], 'mood': 1, 'kill': 'ok'}
        if r < 0.76:
            return {'op': 'groupstop', 'now': now[0], 'kill': 'ok'}
        return {'op': 'transition', 'now': now[0], 'mood': 1, 'spawn': spawn(), 'kill': 'ok'}
    return gen


def one_history(ctx, rng, nops, cfg=None, script=None):
    cfg = cfg or gen_cfg(rng)
    h = L1(cfg)
    try:
        ops, lines = [], []
        gen = gen_ops_c03(rng, cfg)
        for k in range(nops):
            op = script[k] if script else gen(h.proc)
            ops.append(op)
            lines.append(h.do(op))
            ctx.count('op:' + op['op'])
    finally:
        h.close()
    return cfg, ops, lines


def run(ctx):
    rng = ctx.rng
    cases, impls = [], []
    def add(cfg, ops, lines):
        monitor(ctx, cfg, ops, lines)
        c01.monitor(ctx, cfg, ops, lines)
        cases.append((cfg_line(cfg), [op_line(o) for o in ops]))
        impls.append(lines)
        ctx.case_done(tuple(lines), nontrivial=any('fork:' in l or 'BACKOFF' in l for l in lines))
    for cfg, script in c01.CORPUS:
        add(*one_history(ctx, rng, len(script), cfg, script))
    total = ctx.n(5000, 60000)
    done = 0
    while done < total:             # in chunks, so that a thorough run does not hold every trace in memory
        for _ in range(min(5000, total - done)):
            add(*one_history(ctx, rng, rng.choice([8, 15, 30, 50])))
        done += 5000
        if done <= 5000:
            ctx.sample({'case': cases[-1][0], 'ops': cases[-1][1][:8], 'impl': impls[-1][:8]})
        ctx.correspond('proc', cases, impls)
        del cases[:], impls[:]


def replay(ctx, data):
    inp = data['input']
    cfg = inp['cfg']
    ops = [dict(o, spawn=tuple(o['spawn'])) if 'spawn' in o else o for o in inp['ops']]
    cfg2, ops2, lines = one_history(ctx, ctx.rng, len(ops), cfg, ops)
    monitor(ctx, cfg, ops, lines)
    ctx.correspond('proc', [(cfg_line(cfg), [op_line(o) for o in ops])], [lines])


TECHNIQUE = "Lean 4 theorems (exact iff conditions for RUNNING, retry, restart, autostart; BACKOFF/FATAL rules) over the Subprocess model with guards/timers regenerated from process.py; differential correspondence; policy-oracle monitor"
LEVEL_TEXT = ("running_only_after_startsecs, early_exit_is_backoff, spawn_failure_is_backoff, retry_gate, fatal_after_budget, "
              "autorestart_exact, nothing_else_starts, autostart_once, counter_reset_on_success, running_exit_is_exited are proved as exact "
              "conditions for all configurations, clock readings (incl. backward jumps via the rollback lemmas), exit statuses and moods")
LEVEL_NOTE = "trusts Lean's kernel, extract.py, one clock reading per operation; the history-level retry count is a consequence of retry_gate + the strictly increasing tries counter, checked on histories by the monitor (a history-level Lean theorem is future work, see DESIGN.md)"
DESIGN_REF = "DESIGN.md section 6, C03"
