import SupervisorModel.Model.Auth
/-
  C17 — with authentication configured, no request is served without valid credentials.

  `serve P username password hits header` (Model/Auth.lean) is one request through the server's
  dispatch loop: `hits name` says whether the handler installed under that name matches the
  request (path tests are not modelled: the theorems hold for EVERY such function), `header` is
  the list of header lines, `P` the runtime functions (base64, UTF-8 validity, SHA-1) — the
  theorems hold for EVERY `P`.  Guards, status codes, the table of wrapped handlers and the
  dispatch order are regenerated from /repo on every run (`Sv.Gen.Auth`).

  Layout: (1) the statement's own notions; (2) auxiliary lemmas (namespace `Sv.Auth.Aux`);
  (3) the property theorems.
-/
set_option linter.unusedSimpArgs false
set_option linter.unusedVariables false

/-! ## 1. What "carries exactly those credentials" means -/
namespace Sv.Props.C17
open Sv Sv.Auth Sv.Gen.Auth

/-- the word `basic` -/
def basicWord : Bytes := [98, 97, 115, 105, 99]

/-- The request carries an Authorization header (the first header line of that form) whose scheme
    is Basic in any letter case and whose cookie base64-decodes to valid UTF-8 text
    `user ++ ":" ++ p`, where `p` is the stored password — or, for a stored `{SHA}hex` entry, a
    password whose SHA-1 hex digest is `hex`. -/
def Authorized (P : Params) (user stored : Bytes) (header : List Bytes) : Prop :=
  ∃ scheme cookie decoded p,
    authLine header = some (scheme, cookie) ∧ lowerAscii scheme = basicWord ∧
    P.b64 cookie = some decoded ∧ P.utf8ok decoded = true ∧
    decoded = user ++ 58 :: p ∧ (58 : UInt8) ∉ user ∧
    (if sha_prefix.isPrefixOf stored = true then stored.drop 5 = P.sha1hex p else stored = p)

/-- some installed handler matches the request -/
def SomeHandlerMatches (hits : String → Bool) : Prop := ∃ n ∈ dispatch_order, hits n = true

end Sv.Props.C17

/-! ## 2. Auxiliary lemmas -/
namespace Sv.Auth.Aux
open Sv Sv.Auth Sv.Gen.Auth Sv.Props.C17

theorem splitFirst_spec (sep : UInt8) : ∀ (l a b : Bytes),
    splitFirst sep l = some (a, b) ↔ (l = a ++ sep :: b ∧ sep ∉ a) := by
  intro l
  induction l with
  | nil => intro a b; simp [splitFirst]
  | cons c r ih =>
    intro a b
    by_cases hc : c = sep
    · subst hc
      simp only [splitFirst, if_true, Option.some.injEq, Prod.mk.injEq]
      constructor
      · rintro ⟨rfl, rfl⟩; simp
      · rintro ⟨h1, h2⟩
        cases a with
        | nil => simp at h1; exact ⟨rfl, h1⟩
        | cons x a' => simp at h1; simp [h1.1] at h2
    · simp only [splitFirst, hc, if_false]
      constructor
      · intro h
        cases hs : splitFirst sep r with
        | none => rw [hs] at h; simp at h
        | some ab =>
          obtain ⟨a0, b0⟩ := ab
          rw [hs] at h
          simp only [Option.some.injEq, Prod.mk.injEq] at h
          obtain ⟨rfl, rfl⟩ := h
          have h0 := (ih a0 b0).mp hs
          refine ⟨by simp [h0.1], ?_⟩
          intro hm
          rcases List.mem_cons.mp hm with h | h
          · exact hc h.symm
          · exact h0.2 h
      · rintro ⟨h1, h2⟩
        cases a with
        | nil => simp at h1; exact absurd h1.1 hc
        | cons x a' =>
          simp at h1
          have := (ih a' b).mpr ⟨h1.2, fun hm => h2 (List.mem_cons_of_mem _ hm)⟩
          rw [this, h1.1]

theorem splitFirst_none_of_mem (sep : UInt8) : ∀ l : Bytes, splitFirst sep l = none → sep ∉ l := by
  intro l
  induction l with
  | nil => simp
  | cons c r ih =>
    intro h
    by_cases hc : c = sep
    · subst hc; simp [splitFirst] at h
    · simp only [splitFirst, hc, if_false] at h
      cases hs : splitFirst sep r with
      | none =>
        intro hm
        rcases List.mem_cons.mp hm with h' | h'
        · exact hc h'.symm
        · exact ih hs h'
      | some ab => rw [hs] at h; simp at h

/-- the comparison with the stored entry, as the code computes it -/
def Xb (P : Params) (stored q : Bytes) : Bool :=
  if sha_prefix.isPrefixOf stored = true then stored.drop 5 == P.sha1hex q else stored == q

theorem Xb_iff (P : Params) (stored q : Bytes) :
    Xb P stored q = true ↔
      (if sha_prefix.isPrefixOf stored = true then stored.drop 5 = P.sha1hex q else stored = q) := by
  unfold Xb; split <;> simp

/-- the authorizer on the one-entry dictionary `make_http_servers` builds -/
theorem authorize_single (P : Params) (user stored u p : Bytes) :
    authorize P [(user, stored)] (some (u, p)) = some (decide (u = user) && Xb P stored p) := by
  unfold Xb
  by_cases h : u = user
  · subst h
    simp [authorize, authz_g0, authz_g1, authz_a3, authz_a4, authz_a5, List.lookup, pySliceFrom]
    split <;> simp_all
  · have h' : (u == user) = false := by simpa using h
    simp [authorize, authz_g0, authz_g1, authz_a3, authz_a4, authz_a5, List.lookup, h, h']

theorem sepByte_eq : sepByte = 58 := by decide

/-- `handle_request` in closed form (the only place where the regenerated guards are unfolded) -/
theorem handle_eq (P : Params) (user stored : Bytes) (header : List Bytes) :
    handleRequest P [(user, stored)] header =
      match authLine header with
      | none => .unauthorized
      | some (scheme, cookie) =>
        if lowerAscii scheme = basicWord then
          match P.b64 cookie with
          | none => .malformed
          | some decoded =>
            if P.utf8ok decoded = true then
              match splitFirst 58 decoded with
              | none => .raised
              | some (a, b) => if a = user ∧ Xb P stored b = true then .inner a b else .unauthorized
            else .malformed
        else .unauthorized := by
  unfold handleRequest
  cases hal : authLine header with
  | none => simp [handleReq_g0]
  | some sc =>
    obtain ⟨scheme, cookie⟩ := sc
    simp only [handleReq_g0, handleReq_g1]
    by_cases hs : scheme = []
    · subst hs; simp [lowerAscii, basicWord]
    · have hs' : (!scheme.isEmpty) = true := by cases scheme <;> simp_all
      simp only [hs', if_true]
      by_cases hb : lowerAscii scheme = basicWord
      · have hb' : (lowerAscii scheme == ([98, 97, 115, 105, 99] : List UInt8)) = true := by
          simpa [basicWord] using hb
        simp only [hb', if_true, if_pos hb]
        cases hd : P.b64 cookie with
        | none => rfl
        | some decoded =>
          simp only
          by_cases hu : P.utf8ok decoded = true
          · simp only [hu, if_true, sepByte_eq]
            cases hsp : splitFirst 58 decoded with
            | none => simp [authorize]
            | some ab =>
              obtain ⟨a, b⟩ := ab
              simp only [authorize_single]
              by_cases hau : a = user <;> cases hx : Xb P stored b <;> simp [hau, hx]
          · have hu' : P.utf8ok decoded = false := by simpa using hu
            simp [hu']
      · have hb' : (lowerAscii scheme == ([98, 97, 115, 105, 99] : List UInt8)) = false := by
          simpa [basicWord] using hb
        simp only [hb', if_neg hb]; simp

/-- the decision of `handle_request` -/
theorem handle_inner_iff (P : Params) (user stored : Bytes) (header : List Bytes) (u p : Bytes) :
    handleRequest P [(user, stored)] header = .inner u p ↔
    (u = user ∧ ∃ scheme cookie decoded,
      authLine header = some (scheme, cookie) ∧ lowerAscii scheme = basicWord ∧
      P.b64 cookie = some decoded ∧ P.utf8ok decoded = true ∧
      decoded = user ++ 58 :: p ∧ (58 : UInt8) ∉ user ∧
      (if sha_prefix.isPrefixOf stored = true then stored.drop 5 = P.sha1hex p else stored = p)) := by
  rw [handle_eq]
  constructor
  · intro h
    cases hal : authLine header with
    | none => rw [hal] at h; cases h
    | some sc =>
      obtain ⟨scheme, cookie⟩ := sc
      rw [hal] at h
      simp only at h
      by_cases hb : lowerAscii scheme = basicWord
      · rw [if_pos hb] at h
        cases hd : P.b64 cookie with
        | none => rw [hd] at h; cases h
        | some decoded =>
          rw [hd] at h
          simp only at h
          by_cases hu : P.utf8ok decoded = true
          · rw [if_pos hu] at h
            cases hsp : splitFirst 58 decoded with
            | none => rw [hsp] at h; cases h
            | some ab =>
              obtain ⟨a, b⟩ := ab
              rw [hsp] at h
              simp only at h
              by_cases hc : a = user ∧ Xb P stored b = true
              · rw [if_pos hc] at h
                simp only [Resp.inner.injEq] at h
                obtain ⟨rfl, rfl⟩ := h
                have hab := (splitFirst_spec 58 decoded a b).mp hsp
                obtain ⟨rfl, hx⟩ := hc
                exact ⟨rfl, scheme, cookie, decoded, rfl, hb, hd, hu, hab.1, hab.2, (Xb_iff P stored b).mp hx⟩
              · rw [if_neg hc] at h; cases h
          · rw [if_neg hu] at h; cases h
      · rw [if_neg hb] at h; cases h
  · rintro ⟨rfl, s, c, d, h1, h2, h3, h4, h5, h6, h7⟩
    have hsp := (splitFirst_spec 58 d u p).mpr ⟨h5, h6⟩
    have hx := (Xb_iff P stored p).mpr h7
    simp [h1, h2, h3, h4, hsp, hx]

/-- `if username is not None:` (fix F18): a configured username, *empty or not*, enables the wrapper -/
theorem authEnabled_some (user : Bytes) : authEnabled (some user) = true := by
  simp [authEnabled, mkServers_g2]

theorem dispatch_all_wrapped : ∀ n ∈ dispatch_order, wrapped_when_auth.contains n = true := by decide

theorem found_mem {hits : String → Bool} {name : String} (h : dispatch_order.find? hits = some name) :
    name ∈ dispatch_order ∧ hits name = true :=
  ⟨List.mem_of_find?_eq_some h, by simpa using List.find?_some h⟩

end Sv.Auth.Aux

/-! ## 3. The property theorems -/
namespace Sv.Props.C17
open Sv Sv.Auth Sv.Gen.Auth Sv.Auth.Aux

/-- **all_handlers_wrapped.**  Every handler `make_http_servers` installs — XML-RPC, both log
    tails, the web UI, static files — is re-bound to `supervisor_auth_handler(users, <itself>)`
    under `if username:`; decided over the table regenerated from the source. -/
theorem all_handlers_wrapped : ∀ h ∈ installed, h ∈ wrapped_when_auth := by decide

/-- … the server consults the handlers in the reverse order of installation, and the users
    dictionary is exactly the configured pair -/
theorem chain_is_the_installed_one :
    dispatch_order = installed.reverse ∧ install_at_front = true ∧ install_extra_args = false ∧
    users_dict = "{username: password}" ∧ wrap_guard = "username is not None" ∧ dispatch_first_match_returns = true := by decide

/-- **users_built_per_server.**  In `make_http_servers` the only statement that binds or mutates
    `users` is `users = {username: password}`, inside the loop over the server configurations and
    under `if username:`; `username`/`password` are read there from that configuration; the server
    object and the five handlers are built inside the loop too.  (Hoisting the dictionary out of
    the loop, or filling a shared one, changes this regenerated table.) -/
theorem users_built_per_server :
    users_per_server = true ∧
    users_bindings = [("users = {username: password}", "loop/if:username is not None")] ∧
    cred_sources = [("username", "config['username']", "loop"), ("password", "config['password']", "loop")] ∧
    server_loop = ("config", "options.server_configs") ∧
    all_built_in_loop = true := by decide

/-- the regexp the model implements as `parseAuthLine` is the one in the source, and the decoding
    `try` does not enclose the authorizer call (so a missing colon is an exception, not a 400) -/
theorem modelled_source_shape :
    auth_pattern = "Authorization: ([^ ]+) (.*)" ∧ auth_ignorecase = true ∧ header_groups = [1, 2] ∧
    split_sep = [58] ∧ split_max = 1 ∧ authorize_inside_try = false ∧ decode_handler_is_bare_except = true ∧
    sha_prefix.length = 5 := by decide

/-- **served_iff_authorized.**  With a configured username (empty or not, fix F18), for every request — every
    header list, every path-matching behaviour of the handlers, every base64/UTF-8/SHA-1 function —
    some handler's `handle_request` runs **iff** a handler matches the request and the request
    carries exactly the configured credentials.  The handler then sees `auth_info = [user, p]`. -/
theorem served_iff_authorized (P : Params) (user stored : Bytes)
    (hits : String → Bool) (header : List Bytes) :
    (serve P (some user) (some stored) hits header).invoked.isSome = true ↔
      (SomeHandlerMatches hits ∧ Authorized P user stored header) := by
  unfold serve
  cases hf : dispatch_order.find? hits with
  | none =>
    simp only [Option.isSome_none, Bool.false_eq_true, false_iff, not_and]
    rintro ⟨n, hn, hh⟩
    have := List.find?_eq_none.mp hf n hn
    simp [hh] at this
  | some name =>
    obtain ⟨hmem, hhit⟩ := found_mem hf
    have hw : isWrapped (some user) name = true := by
      simp only [isWrapped, authEnabled_some user, dispatch_all_wrapped name hmem, Bool.and_self]
    simp only [hw, if_true, Option.getD_some]
    constructor
    · intro h
      refine ⟨⟨name, hmem, hhit⟩, ?_⟩
      cases hr : handleRequest P [(user, stored)] header with
      | inner u p =>
        obtain ⟨_, s, c, d, h1, h2, h3, h4, h5, h6, h7⟩ := (handle_inner_iff P user stored header u p).mp hr
        exact ⟨s, c, d, p, h1, h2, h3, h4, h5, h6, h7⟩
      | malformed => rw [hr] at h; simp at h
      | unauthorized => rw [hr] at h; simp at h
      | raised => rw [hr] at h; simp at h
    · rintro ⟨_, s, c, d, p, h1, h2, h3, h4, h5, h6, h7⟩
      have := (handle_inner_iff P user stored header user p).mpr ⟨rfl, s, c, d, h1, h2, h3, h4, h5, h6, h7⟩
      rw [this]; rfl

/-- each server's wrappers consult the dictionary made of that server section alone -/
theorem serveAt_own_section (P : Params) (secs : List Section) (i : Nat) (s : Section)
    (hits : String → Bool) (header : List Bytes) (h : secs[i]? = some s) :
    serveAt P secs i hits header = some (serve P s.username s.password hits header) := by
  have hp : users_per_server = true := users_built_per_server.1
  simp only [serveAt, h, usersFor, hp, if_true, entryOf]
  rfl

/-- **served_iff_authorized, per server.**  With any number of server sections, of any kinds and
    with any credentials (or none) on the others: a request to the server of section `i`, whose
    username is set, runs a handler **iff** a handler matches and the request carries
    exactly section `i`'s own credentials. -/
theorem served_iff_authorized_per_server (P : Params) (secs : List Section) (i : Nat)
    (user stored : Bytes) (hs : secs[i]? = some ⟨some user, some stored⟩)
    (hits : String → Bool) (header : List Bytes) :
    (∃ a, serveAt P secs i hits header = some a ∧ a.invoked.isSome = true) ↔
      (SomeHandlerMatches hits ∧ Authorized P user stored header) := by
  rw [serveAt_own_section P secs i _ hits header hs]
  constructor
  · rintro ⟨a, ha, hi⟩
    simp only [Option.some.injEq] at ha
    subst ha
    exact (served_iff_authorized P user stored hits header).mp hi
  · intro h
    exact ⟨_, rfl, (served_iff_authorized P user stored hits header).mpr h⟩

/-- the credentials handed to the handler are the configured user and the password received -/
theorem served_with_configured_user (P : Params) (user stored : Bytes)
    (hits : String → Bool) (header : List Bytes) (name : String) (ai : Option (Bytes × Bytes))
    (h : (serve P (some user) (some stored) hits header).invoked = some (name, ai)) :
    ∃ p, ai = some (user, p) ∧ dispatch_order.find? hits = some name := by
  unfold serve at h
  cases hf : dispatch_order.find? hits with
  | none => rw [hf] at h; simp at h
  | some n =>
    obtain ⟨hmem, _⟩ := found_mem hf
    have hw : isWrapped (some user) n = true := by
      simp only [isWrapped, authEnabled_some user, dispatch_all_wrapped n hmem, Bool.and_self]
    rw [hf] at h
    simp only [hw, if_true, Option.getD_some] at h
    cases hr : handleRequest P [(user, stored)] header with
    | inner u p =>
      rw [hr] at h
      simp only [Option.some.injEq, Prod.mk.injEq] at h
      obtain ⟨rfl, rfl⟩ := h
      have := ((handle_inner_iff P user stored header u p).mp hr).1
      exact ⟨p, by rw [this], rfl⟩
    | malformed => rw [hr] at h; simp at h
    | unauthorized => rw [hr] at h; simp at h
    | raised => rw [hr] at h; simp at h

/-- **refused_has_no_effect.**  Without exactly the configured credentials no handler's
    `handle_request` runs at all — whatever the path, method or header: no RPC method runs, no
    log or file byte is produced (those exist only inside the handlers). -/
theorem refused_has_no_effect (P : Params) (user stored : Bytes)
    (hits : String → Bool) (header : List Bytes) (h : ¬ Authorized P user stored header) :
    (serve P (some user) (some stored) hits header).invoked = none := by
  cases hi : (serve P (some user) (some stored) hits header).invoked with
  | none => rfl
  | some x =>
    exfalso
    have := (served_iff_authorized P user stored hits header).mp (by rw [hi]; rfl)
    exact h this.2

/-- … in particular the credentials of *another* section do not open this server -/
theorem other_sections_credentials_refused (P : Params) (secs : List Section) (i : Nat)
    (user stored : Bytes) (hs : secs[i]? = some ⟨some user, some stored⟩)
    (hits : String → Bool) (header : List Bytes) (hnot : ¬ Authorized P user stored header) :
    ∃ a, serveAt P secs i hits header = some a ∧ a.invoked = none := by
  rw [serveAt_own_section P secs i _ hits header hs]
  exact ⟨_, rfl, refused_has_no_effect P user stored hits header hnot⟩

/-- **refusal_status.**  A request that matches a handler but is not authorised is answered
    401 with the Basic challenge, or 400 (undecodable cookie), or 500 (decoded text without a
    colon: the exception path) — never passed on. -/
theorem refusal_status (P : Params) (user stored : Bytes)
    (hits : String → Bool) (header : List Bytes) (hm : SomeHandlerMatches hits)
    (h : ¬ Authorized P user stored header) :
    let r := serve P (some user) (some stored) hits header
    r.invoked = none ∧
      ((r.status = some 401 ∧ r.challenge = true) ∨ (r.status = some 400 ∧ r.challenge = false) ∨
       (r.status = some 500 ∧ r.challenge = false)) := by
  intro r
  refine ⟨refused_has_no_effect P user stored hits header h, ?_⟩
  have hni := refused_has_no_effect P user stored hits header h
  show (r.status = some 401 ∧ r.challenge = true) ∨ _
  simp only [r] at *
  unfold serve at hni ⊢
  cases hf : dispatch_order.find? hits with
  | none =>
    obtain ⟨n, hn, hh⟩ := hm
    have := List.find?_eq_none.mp hf n hn
    simp [hh] at this
  | some name =>
    obtain ⟨hmem, _⟩ := found_mem hf
    have hw : isWrapped (some user) name = true := by
      simp only [isWrapped, authEnabled_some user, dispatch_all_wrapped name hmem, Bool.and_self]
    rw [hf] at hni
    simp only [hw, if_true, Option.getD_some] at hni ⊢
    cases hr : handleRequest P [(user, stored)] header with
    | inner u p => rw [hr] at hni; simp at hni
    | malformed => simp [code_malformed]
    | unauthorized => simp [code_unauthorized]
    | raised => simp [code_exception]

/-- the two most common refusals, exactly: no Authorization line at all, or another scheme ⇒ 401
    with the challenge -/
theorem absent_or_other_scheme_gets_401 (P : Params) (user stored : Bytes)
    (hits : String → Bool) (header : List Bytes) (hm : SomeHandlerMatches hits)
    (h : authLine header = none ∨ ∃ s c, authLine header = some (s, c) ∧ lowerAscii s ≠ basicWord) :
    serve P (some user) (some stored) hits header = ⟨some 401, true, none⟩ := by
  unfold serve
  cases hf : dispatch_order.find? hits with
  | none =>
    obtain ⟨n, hn, hh⟩ := hm
    have := List.find?_eq_none.mp hf n hn
    simp [hh] at this
  | some name =>
    obtain ⟨hmem, _⟩ := found_mem hf
    have hw : isWrapped (some user) name = true := by
      simp only [isWrapped, authEnabled_some user, dispatch_all_wrapped name hmem, Bool.and_self]
    simp only [hw, if_true, Option.getD_some]
    have : handleRequest P [(user, stored)] header = .unauthorized := by
      unfold handleRequest
      rcases h with h | ⟨s, c, h, hs⟩
      · simp [h, handleReq_g0]
      · have hb' : (lowerAscii s == ([98, 97, 115, 105, 99] : List UInt8)) = false := by
          simpa [basicWord] using hs
        simp only [h, handleReq_g0, handleReq_g1, hb']
        split <;> rfl
    rw [this]; rfl

/-- a request no handler matches is answered 404 and runs nothing -/
theorem no_handler_404 (P : Params) (user stored : Option Bytes) (hits : String → Bool) (header : List Bytes)
    (h : ¬ SomeHandlerMatches hits) : serve P user stored hits header = ⟨some 404, false, none⟩ := by
  unfold serve
  cases hf : dispatch_order.find? hits with
  | none => rfl
  | some name => exact absurd ⟨name, (found_mem hf).1, (found_mem hf).2⟩ h

/-! ### F18 (fixed): an empty configured username no longer disables authentication -/

/-- regression statement of F18.  `username=` (empty) with a password used to fail `if username:` and
    leave every handler unwrapped; with `if username is not None:` the section is authenticated like
    any other: a handler runs iff the request carries the credentials `:<password>`. -/
theorem f18_empty_username_is_authenticated (P : Params) (stored : Bytes) (hits : String → Bool)
    (header : List Bytes) :
    (serve P (some []) (some stored) hits header).invoked.isSome = true ↔
      (SomeHandlerMatches hits ∧ Authorized P [] stored header) :=
  served_iff_authorized P [] stored hits header

/-- a section with neither option is unauthenticated by design: nothing is wrapped -/
theorem no_credentials_configured_is_open (P : Params) (hits : String → Bool)
    (header : List Bytes) (name : String) (h : dispatch_order.find? hits = some name) :
    (serve P none none hits header).invoked = some (name, none) := by
  unfold serve
  rw [h]
  simp [isWrapped, authEnabled, mkServers_g2]

/-! ### Several requests on one connection (HTTP/1.1 keep-alive, HTTP/1.0 `Connection: keep-alive`, pipelining) -/

/-- **decision_keeps_no_state.**  Regenerated from `auth_handler.handle_request`, `handle_unauthorized`,
    `match` and `encrypted_dictionary_authorizer.authorize`: no assignment to an attribute or item of,
    and no mutating call on, an object that outlives the request (the channel, the handler and
    authorizer objects, module globals; `request.auth_info = …` and `request['…'] = …` are per request);
    nothing is read through `request.channel` / `.server`; no `getattr`/`hasattr`/`vars`/`globals`/`__dict__`;
    `supervisor_auth_handler` overrides nothing but `__init__`.  The single channel access is
    `request.channel.set_terminator(None)` in the refusal path.  (Remembering a success on the channel,
    the handler or in a module-level cache changes one of these lists.) -/
theorem decision_keeps_no_state :
    hr_persistent_writes = [] ∧ hr_channel_refs = [] ∧ hr_dynamic = [] ∧
    hu_persistent_writes = [] ∧ hu_dynamic = [] ∧ hu_channel_refs = ["request.channel.set_terminator"] ∧
    mt_persistent_writes = [] ∧ mt_channel_refs = [] ∧ mt_dynamic = [] ∧
    az_persistent_writes = [] ∧ az_channel_refs = [] ∧ az_dynamic = [] ∧
    auth_subclass_bases = ["auth_handler"] ∧ auth_subclass_defines = ["__init__"] ∧ auth_base_special_methods = [] ∧
    unauthorized_stops_reading = true ∧ perRequestDecision = true := by decide

theorem handleRequestOn_eq (P : Params) (dict : List (Bytes × Bytes)) (c : Conn) (header : List Bytes) :
    handleRequestOn P dict c header = (handleRequest P dict header, c) := by
  have h : perRequestDecision = true := by decide
  simp [handleRequestOn, h]

theorem serve_eq_answerOf (P : Params) (user stored : Option Bytes) (hits : String → Bool) (header : List Bytes)
    (name : String) (hf : dispatch_order.find? hits = some name) (hw : isWrapped user name = true) :
    serve P user stored hits header = answerOf name (handleRequest P [(user.getD [], stored.getD [])] header) := by
  unfold serve
  simp only [hf, hw, if_true]
  cases handleRequest P [(user.getD [], stored.getD [])] header <;> rfl

/-- a request that the channel dispatches is answered exactly as it would be alone on a fresh
    connection, whatever the connection has seen before -/
theorem serveOn_answer (P : Params) (user stored : Option Bytes) (c : Conn) (hits : String → Bool)
    (header : List Bytes) (a : Answer) (h : (serveOn P user stored c hits header).1 = some a) :
    a = serve P user stored hits header := by
  unfold serveOn at h
  cases hd : c.deaf with
  | true => simp [hd] at h
  | false =>
    simp only [hd, Bool.false_eq_true, if_false] at h
    cases hf : dispatch_order.find? hits with
    | none =>
      simp only [hf, Option.some.injEq] at h
      simp [serve, hf, ← h]
    | some name =>
      simp only [hf] at h
      cases hw : isWrapped user name with
      | true =>
        simp only [hw, if_true, handleRequestOn_eq, Option.some.injEq] at h
        rw [serve_eq_answerOf P user stored hits header name hf hw, ← h]
      | false =>
        simp only [hw, Bool.false_eq_true, if_false, Option.some.injEq] at h
        simp [serve, hf, hw, ← h]

/-- a connection that has not been stopped dispatches the request -/
theorem serveOn_live (P : Params) (user stored : Option Bytes) (c : Conn) (hits : String → Bool)
    (header : List Bytes) (hd : c.deaf = false) :
    (serveOn P user stored c hits header).1 = some (serve P user stored hits header) := by
  cases h : (serveOn P user stored c hits header).1 with
  | some a => rw [serveOn_answer P user stored c hits header a h]
  | none =>
    exfalso
    unfold serveOn at h
    simp only [hd, Bool.false_eq_true, if_false] at h
    split at h
    · simp at h
    · split at h <;> simp at h

/-- … and stays live unless this very request was refused with 401 -/
theorem serveOn_stays_live (P : Params) (user stored : Option Bytes) (c : Conn) (hits : String → Bool)
    (header : List Bytes) (hd : c.deaf = false)
    (h401 : (serve P user stored hits header).status ≠ some 401) :
    (serveOn P user stored c hits header).2.deaf = false := by
  unfold serveOn
  simp only [hd, Bool.false_eq_true, if_false]
  cases hf : dispatch_order.find? hits with
  | none => simpa using hd
  | some name =>
    simp only
    cases hw : isWrapped user name with
    | false => simpa using hd
    | true =>
      simp only [if_true, handleRequestOn_eq]
      rw [serve_eq_answerOf P user stored hits header name hf hw] at h401
      cases hr : handleRequest P [(user.getD [], stored.getD [])] header with
      | unauthorized => rw [hr] at h401; simp [answerOf, code_unauthorized] at h401
      | inner u p => simpa [afterResp] using hd
      | malformed => simpa [afterResp] using hd
      | raised => simpa [afterResp] using hd

/-- once the channel has stopped reading it never dispatches again -/
theorem serveOn_deaf (P : Params) (user stored : Option Bytes) (c : Conn) (hits : String → Bool)
    (header : List Bytes) (hd : c.deaf = true) :
    serveOn P user stored c hits header = (none, c) := by
  simp [serveOn, hd]

/-- **every_request_decided_alone.**  For every sequence of requests on one connection — any length,
    any mixture of right, absent, wrong and malformed credentials, any handlers — the answer to the
    k-th request, if the channel answers it at all, is the answer that request would get alone on a
    fresh connection: it depends on the k-th request's own header only. -/
theorem every_request_decided_alone (P : Params) (user stored : Option Bytes) :
    ∀ (reqs : List Req) (c : Conn) (k : Nat) (r : Req) (a : Answer),
      reqs[k]? = some r → (serveConn P user stored c reqs)[k]? = some (some a) →
      a = serve P user stored r.hits r.header := by
  intro reqs
  induction reqs with
  | nil => intro c k r a h; simp at h
  | cons q rest ih =>
    intro c k r a hk ha
    cases k with
    | zero =>
      simp only [List.getElem?_cons_zero, Option.some.injEq] at hk
      subst hk
      simp only [serveConn, List.getElem?_cons_zero, Option.some.injEq] at ha
      exact serveOn_answer P user stored c _ _ a ha
    | succ k =>
      simp only [List.getElem?_cons_succ] at hk
      simp only [serveConn, List.getElem?_cons_succ] at ha
      exact ih _ k r a hk ha

/-- **served_iff_authorized, every request of a connection.**  With a configured username, on a
    connection that has carried any requests before — including requests with the right credentials —
    the k-th request runs a handler only if a handler matches it and it carries exactly the
    configured credentials itself. -/
theorem no_request_served_on_earlier_credentials (P : Params) (user stored : Bytes)
    (reqs : List Req) (c : Conn) (k : Nat) (r : Req) (a : Answer)
    (hk : reqs[k]? = some r) (ha : (serveConn P (some user) (some stored) c reqs)[k]? = some (some a))
    (hi : a.invoked.isSome = true) :
    SomeHandlerMatches r.hits ∧ Authorized P user stored r.header := by
  have := every_request_decided_alone P (some user) (some stored) reqs c k r a hk ha
  subst this
  exact (served_iff_authorized P user stored r.hits r.header).mp hi

/-- … and it is served whenever it does carry them, as long as no earlier request of the connection
    was refused with 401 (the refusal announces `Connection: close` and stops the channel reading). -/
theorem right_credentials_served_on_live_connection (P : Params) (user stored : Bytes) :
    ∀ (reqs : List Req) (c : Conn) (k : Nat) (r : Req), c.deaf = false → reqs[k]? = some r →
      (∀ j q, j < k → reqs[j]? = some q → (serve P (some user) (some stored) q.hits q.header).status ≠ some 401) →
      (serveConn P (some user) (some stored) c reqs)[k]? =
        some (some (serve P (some user) (some stored) r.hits r.header)) := by
  intro reqs
  induction reqs with
  | nil => intro c k r _ h; simp at h
  | cons q rest ih =>
    intro c k r hd hk hprev
    cases k with
    | zero =>
      simp only [List.getElem?_cons_zero, Option.some.injEq] at hk
      subst hk
      simp only [serveConn, List.getElem?_cons_zero, Option.some.injEq]
      exact serveOn_live P _ _ c _ _ hd
    | succ k =>
      simp only [List.getElem?_cons_succ] at hk
      simp only [serveConn, List.getElem?_cons_succ]
      apply ih _ k r _ hk
      · intro j q' hj hq'
        exact hprev (j + 1) q' (by omega) (by simpa using hq')
      · exact serveOn_stays_live P _ _ c _ _ hd (hprev 0 q (by omega) (by simp))

/-- **after_401_nothing_runs.**  After a request of the connection has been refused with 401 the
    channel dispatches nothing more: every later request of that connection gets no answer and runs
    no handler. -/
theorem after_401_nothing_runs (P : Params) (user stored : Option Bytes) :
    ∀ (reqs : List Req) (c : Conn), c.deaf = true →
      ∀ x ∈ serveConn P user stored c reqs, x = none := by
  intro reqs
  induction reqs with
  | nil => intro c _ x hx; simp [serveConn] at hx
  | cons q rest ih =>
    intro c hd x hx
    simp only [serveConn, serveOn_deaf P user stored c _ _ hd, List.mem_cons] at hx
    rcases hx with hx | hx
    · exact hx
    · exact ih c hd x hx

theorem refusal_401_stops_the_channel (P : Params) (user stored : Bytes) (c : Conn) (hits : String → Bool)
    (header : List Bytes) (hd : c.deaf = false)
    (h : (serveOn P (some user) (some stored) c hits header).1 = some ⟨some 401, true, none⟩) :
    (serveOn P (some user) (some stored) c hits header).2.deaf = true := by
  unfold serveOn at h ⊢
  simp only [hd, Bool.false_eq_true, if_false] at h ⊢
  cases hf : dispatch_order.find? hits with
  | none => simp [hf, code_no_handler] at h
  | some name =>
    simp only [hf] at h ⊢
    cases hw : isWrapped (some user) name with
    | false => simp [hw] at h
    | true =>
      simp only [hw, if_true, handleRequestOn_eq, Option.some.injEq] at h ⊢
      cases hr : handleRequest P [((some user).getD [], (some stored).getD [])] header with
      | unauthorized => simp [afterResp, decision_keeps_no_state.2.2.2.2.2.2.2.2.2.2.2.2.2.2.2.1]
      | inner u p => rw [hr] at h; simp [answerOf] at h
      | malformed => rw [hr] at h; simp [answerOf, code_malformed] at h
      | raised => rw [hr] at h; simp [answerOf, code_exception] at h

/-! ### A server built from a configuration file: `username=` / `password=` written literally or as `%(ENV_X)s` -/

/-- **server_sections_parsed_after_environment_merge.**  Regenerated from `ServerOptions.read_config`,
    `server_configs_from_parser`, `_parse_username_and_password`, `UnhosedConfigParser.saneget` and
    `Options.__init__`: the ENV_ expansions start as a snapshot of `os.environ`; `parser.expansions` is bound once
    to `self.environ_expansions` itself; the one loop `for k, v in section.environment.items():
    self.environ_expansions['ENV_%s' % k] = v` precedes the one call `server_configs_from_parser(parser)`;
    nothing else in `read_config` rebinds or empties either dictionary; `username`/`password` are
    `parser.saneget(section, …, None)`, which expands with `parser.expansions`.  (Parsing the server sections
    before the merge, or giving the parser a copy, changes one of these facts.)  The one write that is not the merge is
    the restore at the very start of a read (`rc_restores_snapshot_before_read`, since the F53 repair): the dictionary
    is put back to what it was right before the *previous* read's merge, so every read — not only the first — starts
    from the constructor's snapshot and sees exactly its own file's `[supervisord] environment=`. -/
theorem server_sections_parsed_after_environment_merge :
    rc_servers_parsed_after_env_merge = true ∧ rc_parser_shares_expansions = true ∧ rc_other_expansion_writes = [] ∧
    rc_restores_snapshot_before_read = true ∧
    rc_parser_expansions_src = "self.environ_expansions" ∧
    rc_env_merges = [("section.environment", "self.environ_expansions", "ENV_")] ∧
    rc_server_parse_calls = 1 ∧ rc_server_parse_args = ["parser"] ∧
    init_snapshots_os_environ = true ∧ init_env_prefix = "ENV_" ∧ server_init_touches_expansions = false ∧
    cred_options_expanded_by_parser = true ∧ server_sections_take_parsed_credentials = true ∧
    saneget_expands_from_parser_expansions = true ∧ serverSectionsSeeSupervisordEnv = true := by decide

/-- What the FILE gives `%(ENV_n)s` in a server section: the last `n=…` of `[supervisord] environment=` if
    there is one, otherwise the value inherited from the process environment. -/
def fileEnvValue (osenv se : Env) (n : Bytes) : Option Bytes :=
  match se.reverse.lookup n with
  | some v => some v
  | none => osenv.lookup n

/-- the text `w` of a server section stands for the value `v` -/
def ConfiguredText (osenv se : Env) (w : Written) (v : Bytes) : Prop :=
  expandWith (fileEnvValue osenv se) w = some v

theorem mergedExpansions_eq (se : Env) : ∀ osenv : Env, mergedExpansions osenv se = se.reverse ++ osenv := by
  induction se with
  | nil => intro osenv; simp [mergedExpansions]
  | cons kv rest ih =>
    intro osenv
    have := ih (dictSet osenv kv.1 kv.2)
    simp only [mergedExpansions, List.foldl_cons] at this ⊢
    rw [this]
    simp [dictSet]

theorem merged_lookup (osenv se : Env) (n : Bytes) :
    (mergedExpansions osenv se).lookup n = fileEnvValue osenv se n := by
  rw [mergedExpansions_eq, List.lookup_append, fileEnvValue]
  cases se.reverse.lookup n <;> simp

/-- the dictionary the server sections are expanded from gives every name the file's value -/
theorem serverExpansions_lookup (osenv se : Env) (n : Bytes) :
    (serverExpansions osenv se).lookup n = fileEnvValue osenv se n := by
  have h : serverSectionsSeeSupervisordEnv = true := server_sections_parsed_after_environment_merge.2.2.2.2.2.2.2.2.2.2.2.2.2.2
  simp only [serverExpansions, h, if_true]
  exact merged_lookup osenv se n

theorem expandW_server (osenv se : Env) (w : Written) :
    expandW (serverExpansions osenv se) w = expandWith (fileEnvValue osenv se) w := by
  unfold expandW
  congr 1
  funext n
  exact serverExpansions_lookup osenv se n

theorem allSome_getElem {α : Type} : ∀ (l : List (Option α)) (r : List α) (i : Nat) (x : Option α),
    allSome l = some r → l[i]? = some x → ∃ y, x = some y ∧ r[i]? = some y := by
  intro l
  induction l with
  | nil => intro r i x _ h; simp at h
  | cons a rest ih =>
    intro r i x hall hx
    cases a with
    | none => simp [allSome] at hall
    | some a =>
      cases hr : allSome rest with
      | none => simp [allSome, hr] at hall
      | some r' =>
        simp only [allSome, hr, Option.map_some, Option.some.injEq] at hall
        subst hall
        cases i with
        | zero =>
          simp only [List.getElem?_cons_zero, Option.some.injEq] at hx
          exact ⟨a, hx.symm, by simp⟩
        | succ i =>
          simp only [List.getElem?_cons_succ] at hx ⊢
          exact ih r' i x hr hx

/-- the section of the file whose `username=` / `password=` stand for `user` / `stored` reaches
    `make_http_servers` with exactly those values -/
theorem built_with_the_configured_credentials (f : ConfigFile) (se : Env) (secs : List Section) (i : Nat)
    (uw pw : Written) (user stored : Bytes)
    (hse : supervisordEnv f = some se) (hrc : readConfig f = some secs)
    (hsec : f.servers[i]? = some ⟨some uw, some pw⟩)
    (hu : ConfiguredText f.osenv se uw user) (hp : ConfiguredText f.osenv se pw stored) :
    secs[i]? = some ⟨some user, some stored⟩ := by
  simp only [readConfig, hse] at hrc
  have hx : (f.servers.map (parseCreds (serverExpansions f.osenv se)))[i]? =
      some (parseCreds (serverExpansions f.osenv se) ⟨some uw, some pw⟩) := by
    rw [List.getElem?_map, hsec]; rfl
  obtain ⟨y, hy, hr⟩ := allSome_getElem _ secs i _ hrc hx
  have hpc : parseCreds (serverExpansions f.osenv se) ⟨some uw, some pw⟩ = some ⟨some user, some stored⟩ := by
    unfold ConfiguredText at hu hp
    simp only [parseCreds, expandW_server, hu, hp]
  rw [hpc] at hy
  simp only [Option.some.injEq] at hy
  rw [hr, ← hy]

/-- **file_server_serves_exactly_the_configured_credentials.**  For every accepted configuration file — any
    process environment, any `[supervisord] environment=`, any number of server sections — and every section whose
    `username=` / `password=` (literal text and `%(ENV_X)s` in any mixture) stand for `user` / `stored` *as the
    file defines X* (its own `environment=` first, the inherited environment otherwise): a request to that
    section's server runs a handler **iff** a handler matches and the request carries exactly `user` and the
    password `stored` asks for.  In particular the value X has in the inherited environment, when the file
    overrides it, is not a credential. -/
theorem file_server_serves_exactly_the_configured_credentials (P : Params) (f : ConfigFile) (se : Env) (i : Nat)
    (uw pw : Written) (user stored : Bytes)
    (hse : supervisordEnv f = some se) (hacc : (readConfig f).isSome = true)
    (hsec : f.servers[i]? = some ⟨some uw, some pw⟩)
    (hu : ConfiguredText f.osenv se uw user) (hp : ConfiguredText f.osenv se pw stored)
    (hits : String → Bool) (header : List Bytes) :
    (∃ a, serveFile P f i hits header = some a ∧ a.invoked.isSome = true) ↔
      (SomeHandlerMatches hits ∧ Authorized P user stored header) := by
  cases hrc : readConfig f with
  | none => rw [hrc] at hacc; simp at hacc
  | some secs =>
    have hs := built_with_the_configured_credentials f se secs i uw pw user stored hse hrc hsec hu hp
    simp only [serveFile, hrc]
    exact served_iff_authorized_per_server P secs i user stored hs hits header

/-- … every other request to that server runs nothing -/
theorem file_server_refuses_everything_else (P : Params) (f : ConfigFile) (se : Env) (i : Nat)
    (uw pw : Written) (user stored : Bytes)
    (hse : supervisordEnv f = some se) (hacc : (readConfig f).isSome = true)
    (hsec : f.servers[i]? = some ⟨some uw, some pw⟩)
    (hu : ConfiguredText f.osenv se uw user) (hp : ConfiguredText f.osenv se pw stored)
    (hits : String → Bool) (header : List Bytes) (hnot : ¬ Authorized P user stored header) :
    ∃ a, serveFile P f i hits header = some a ∧ a.invoked = none := by
  cases hrc : readConfig f with
  | none => rw [hrc] at hacc; simp at hacc
  | some secs =>
    have hs := built_with_the_configured_credentials f se secs i uw pw user stored hse hrc hsec hu hp
    simp only [serveFile, hrc]
    exact other_sections_credentials_refused P secs i user stored hs hits header hnot

/-- a file that is rejected (a name that cannot be expanded, a username without a password) serves nothing -/
theorem rejected_file_serves_nothing (P : Params) (f : ConfigFile) (i : Nat) (hits : String → Bool)
    (header : List Bytes) (h : readConfig f = none) : serveFile P f i hits header = none := by
  simp [serveFile, h]

/-! ### Non-vacuity -/

/-- toy runtime: base64 = identity, everything valid UTF-8, sha1hex = reverse -/
def toyP : Params := { b64 := fun c => some c, utf8ok := fun _ => true, sha1hex := fun p => p.reverse }

def hdrOk : List Bytes := [([72, 111, 115, 116, 58, 32, 120] : Bytes), ([97, 117, 116, 104, 111, 114, 105, 122, 97, 116, 105, 111, 110, 58, 32, 66, 65, 83, 73, 67, 32, 117, 58, 112, 119] : Bytes)]
def hdrBad : List Bytes := [([65, 117, 116, 104, 111, 114, 105, 122, 97, 116, 105, 111, 110, 58, 32, 66, 97, 115, 105, 99, 32, 117, 58, 112, 120] : Bytes)]

example : authLine hdrOk = some (([66, 65, 83, 73, 67] : Bytes), ([117, 58, 112, 119] : Bytes)) := by decide
example : (serve toyP (some [117]) (some [112, 119]) (fun n => n == "tailhandler") hdrOk).invoked =
    some ("tailhandler", some ([117], [112, 119])) := by decide
example : serve toyP (some [117]) (some [112, 119]) (fun n => n == "tailhandler") hdrBad = ⟨some 401, true, none⟩ := by decide
-- {SHA} entry: stored = "{SHA}" ++ reverse "pw"
example : (serve toyP (some [117]) (some (sha_prefix ++ [119, 112])) (fun _ => true) hdrOk).invoked =
    some ("xmlrpchandler", some ([117], [112, 119])) := by decide
-- missing colon: the exception path, answered 500
example : serve toyP (some [117]) (some [112]) (fun _ => true) [([65, 117, 116, 104, 111, 114, 105, 122, 97, 116, 105, 111, 110, 58, 32, 66, 97, 115, 105, 99, 32, 117, 112] : Bytes)] =
    ⟨some 500, false, none⟩ := by decide
-- undecodable cookie: 400
example : serve { toyP with b64 := fun _ => none } (some [117]) (some [112]) (fun _ => true) hdrOk =
    ⟨some 400, false, none⟩ := by decide
-- two sections a:1 (server 0) and b:2 (server 1): b's credentials are refused on server 0, served on server 1
def twoSecs : List Section := [⟨some [97], some [49]⟩, ⟨some [98], some [50]⟩]
def hdrB2 : List Bytes := [([65, 117, 116, 104, 111, 114, 105, 122, 97, 116, 105, 111, 110, 58, 32, 66, 97, 115, 105, 99, 32, 98, 58, 50] : Bytes)]   -- "Authorization: Basic b:2"
example : (serveAt toyP twoSecs 0 (fun _ => true) hdrB2) = some ⟨some 401, true, none⟩ := by decide
example : (serveAt toyP twoSecs 1 (fun _ => true) hdrB2).map (·.invoked) =
    some (some ("xmlrpchandler", some ([98], [50]))) := by decide
example : SomeHandlerMatches (fun n => n == "defaulthandler") := ⟨"defaulthandler", by decide, by decide⟩

-- one connection: right credentials, then none, then wrong ones, on different handlers: only the first is served,
-- the second is refused with 401 and the third is not dispatched any more
def rq (h : String) (hd : List Bytes) : Req := ⟨fun n => n == h, hd⟩
example : serveConn toyP (some [117]) (some [112, 119]) {} [rq "xmlrpchandler" hdrOk, rq "xmlrpchandler" [], rq "defaulthandler" hdrBad] =
    [some ⟨none, false, some ("xmlrpchandler", some ([117], [112, 119]))⟩, some ⟨some 401, true, none⟩, none] := by decide
-- right, right on another handler, malformed (400, connection stays usable), right again
example : (serveConn { toyP with b64 := fun c => if c.length = 1 then none else some c } (some [117]) (some [112, 119]) {}
      [rq "uihandler" hdrOk, rq "tailhandler" hdrOk,
       rq "uihandler" [([65, 117, 116, 104, 111, 114, 105, 122, 97, 116, 105, 111, 110, 58, 32, 66, 97, 115, 105, 99, 32, 33] : Bytes)],
       rq "defaulthandler" hdrOk]).map (fun a => a.map (·.status)) =
    [some none, some none, some (some 400), some none] := by decide

-- a configuration file: process environment H=inh, U=root; `[supervisord] environment=H="cfg"`;
-- `[unix_http_server] username=adm password=%(ENV_H)s`, and a second section with the literal credentials b:2
def vH : Bytes := [72]
def vU : Bytes := [85]
def tInh : Bytes := [105, 110, 104]
def tCfg : Bytes := [99, 102, 103]
def tAdm : Bytes := [97, 100, 109]
def tRoot : Bytes := [114, 111, 111, 116]
def demoFile : ConfigFile :=
  { osenv := [(vH, tInh), (vU, tRoot)],
    supenv := [(vH, [.lit tCfg])],
    servers := [⟨some [.lit tAdm], some [.env vH]⟩, ⟨some [.lit [98]], some [.lit [50]]⟩] }
/-- `Authorization: Basic <cred>` -/
def hdrOf (cred : Bytes) : List Bytes := [([65, 117, 116, 104, 111, 114, 105, 122, 97, 116, 105, 111, 110, 58, 32, 66, 97, 115, 105, 99, 32] : Bytes) ++ cred]
example : supervisordEnv demoFile = some [(vH, tCfg)] := by decide
example : readConfig demoFile = some [⟨some tAdm, some tCfg⟩, ⟨some [98], some [50]⟩] := by decide
example : ConfiguredText demoFile.osenv [(vH, tCfg)] [.env vH] tCfg := by unfold ConfiguredText; decide
example : (readConfig demoFile).isSome = true := by decide
-- the configured password is served, the inherited one is refused
example : (serveFile toyP demoFile 0 (fun _ => true) (hdrOf (tAdm ++ 58 :: tCfg))).map (·.invoked) =
    some (some ("xmlrpchandler", some (tAdm, tCfg))) := by decide
example : serveFile toyP demoFile 0 (fun _ => true) (hdrOf (tAdm ++ 58 :: tInh)) = some ⟨some 401, true, none⟩ := by decide
-- a name defined only in the process environment is taken from there; a name defined nowhere rejects the file
example : readConfig { demoFile with servers := [⟨some [.env vU], some [.lit [112, 45], .env vH]⟩] } =
    some [⟨some tRoot, some ([112, 45] ++ tCfg)⟩] := by decide
example : readConfig { demoFile with servers := [⟨some [.env [78]], some []⟩] } = none := by decide
-- a later entry of environment= for the same name replaces the earlier one
example : readConfig { demoFile with supenv := [(vH, [.lit tCfg]), (vH, [.lit [122]])], servers := [⟨some [], some [.env vH]⟩] } =
    some [⟨some [], some [122]⟩] := by decide
-- a value of environment= may itself refer to the process environment (never to environment= itself)
example : readConfig { demoFile with supenv := [(vH, [.env vH, .lit [33]])], servers := [⟨some [], some [.env vH]⟩] } =
    some [⟨some [], some (tInh ++ [33])⟩] := by decide

end Sv.Props.C17
