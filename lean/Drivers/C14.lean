import SupervisorModel.Basic.DriverKit
import SupervisorModel.Model.ConfigIO
def main : IO Unit := Sv.driverMain [("config", Sv.Config.runCase), ("include", Sv.Config.runInclude)]
