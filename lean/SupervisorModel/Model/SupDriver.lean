import SupervisorModel.Model.Sup
/-
  Line protocol for the daemon model.
    case sup prog=<gid>/<gprio>/<name>/<pprio>/<startsecs>/<startretries>/<autostart>/<autorestart>/<exitcodes>/<stopsignal>/<stopwaitsecs>/<stopasgroup>/<killasgroup> ...
    pass now=<t> sig=<n|-> spawns=<r,r|-> kills=<k,k|-> waits=<seg/seg|-> rpcs=<r;r|->
  reply:  <outs ; separated> | <gid.name=STATE:pid ...> mood=<m> | ok|exit|err:<kind>
-/
namespace Sv.Sup
open Sv Sv.Proc Sv.Gen.Proc

def parseProg (t : String) : Option (PE × Bool) :=
  match t.splitOn "/" with
  | [gid, gprio, name, pprio, ss, sr, as, ar, ecs, ssig, sws, sag, kag, late] => do
    let exitcodes ← (if ecs = "-" then some [] else (ecs.splitOn ".").mapM String.toInt?)
    let cfg : Cfg := {
      startsecs := ← ss.toInt?, startretries := ← sr.toInt?, autostart := as == "1",
      autorestart := ← parseAuto ar, exitcodes := exitcodes, stopsignal := ← ssig.toInt?,
      stopwaitsecs := ← sws.toInt?, stopasgroup := sag == "1", killasgroup := kag == "1" }
    pure ({ name := ← name.toNat?, gid := ← gid.toNat?, gprio := ← gprio.toInt?, prio := ← pprio.toInt?, cfg := cfg }, late == "1")
  | _ => none

def parseCase (args : List String) : Option Sup := do
  let progs ← (args.filter (·.startsWith "prog=")).mapM fun a => parseProg (a.drop 5).toString
  -- process_groups insertion order: group by group (first appearance), members in the order given
  let active := (progs.filter (!·.2)).map (·.1)
  let gids := (groupsOf active).map (·.1)
  pure { procs := gids.flatMap fun g => members active g, dormant := (progs.filter (·.2)).map (·.1) }

def parseList {α : Type} (s : String) (sep : String) (f : String → Option α) : Option (List α) :=
  if s = "-" then some [] else (s.splitOn sep).mapM f

def parseWait (s : String) : Option (Int × Int) :=
  match s.splitOn ":" with
  | [a, b] => do pure (← a.toInt?, ← b.toInt?)
  | _ => none

def parseRpc (s : String) : Option Rpc :=
  match s.splitOn ":" with
  | ["start", id, _, n, w, m] => do pure (.start (← id.toNat?) (← n.toNat?) (w == "1") (m == "1"))
  | ["stop", id, _, n, w] => do pure (.stop (← id.toNat?) (← n.toNat?) (w == "1"))
  | ["signal", id, _, n, sig] => do pure (.signal (← id.toNat?) (← n.toNat?) (← sig.toInt?))
  | ["addgroup", id, g] => do pure (.addGroup (← id.toNat?) (← g.toNat?))
  | ["removegroup", id, g] => do pure (.removeGroup (← id.toNat?) (← g.toNat?))
  | ["shutdown", id] => do pure (.shutdown (← id.toNat?))
  | ["restart", id] => do pure (.restart (← id.toNat?))
  | _ => none

def parseSpawnTok (s : String) : Option SpawnRes :=
  match s.splitOn "=" with
  | ["ok", n] => n.toInt?.map SpawnRes.ok
  | ["badcmd"] => some .badCmd
  | ["pipeerr"] => some .pipeErr
  | ["forkerr"] => some .forkErr
  | _ => none

def parseEnv (l : String) : Option Env :=
  match words l with
  | "pass" :: a => do
    let sigS ← kvGet a "sig"
    let sig ← (if sigS = "-" then some none else sigS.toInt?.map some)
    let spawns ← parseList (← kvGet a "spawns") "," parseSpawnTok
    let kills ← parseList (← kvGet a "kills") "," parseKill
    let waits ← parseList (← kvGet a "waits") "/" (fun seg => if seg = "e" then some [] else parseList seg "," parseWait)
    let rpcs ← parseList (← kvGet a "rpcs") ";" parseRpc
    pure { now := ← kvInt a "now", spawns, kills, waits, sig, rpcs }
  | _ => none

def soutStr : SOut → String
  | .proc n o => s!"{n}:{outStr o}"
  | .stopping => "STOPPING"
  | .reapedUnknown pid => s!"reaped-unknown:{pid}"
  | .answer id c d => s!"answer:{id}:{c}:{if d then 1 else 0}"
  | .deferredStart id => s!"deferred:{id}"
  | .exitNow => "EXITNOW"

def stateStr (s : Sup) : String :=
  " ".intercalate (s.procs.map fun e => s!"{e.name}={psName e.p.state}:{e.p.pid}")

def runPasses : Sup → List String → List String
  | _, [] => []
  | s, l :: ls =>
    match parseEnv l with
    | none => "bad-op" :: runPasses s ls
    | some env =>
      let r := pass env { s with outs := [] }
      let vis := r.outs.filter fun o => match o with
        | .proc _ .closeParent => false | .proc _ .closeChild => false | .proc _ .rejected => false
        | .proc _ (.answer _) => false | _ => true
      let o := if vis.isEmpty then "-" else ";".intercalate (vis.map soutStr)
      let st := match r.err with
        | some .assertion => "err:AssertionError"
        | some .envExhausted => "err:env"
        | none => if r.exited then "exit" else "ok"
      let leftover := if r.err.isNone && !r.exited && (!r.env.spawns.isEmpty || !r.env.kills.isEmpty || !r.env.waits.isEmpty) then " leftover" else ""
      s!"{o} | {stateStr r} mood={r.mood} | {st}{leftover}" :: runPasses r ls

def runCase (cfg : List String) (ops : List String) : List String :=
  match parseCase cfg with
  | none => ops.map fun _ => "bad-config"
  | some s => runPasses s ops

end Sv.Sup
