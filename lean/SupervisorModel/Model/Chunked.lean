import SupervisorModel.Basic.Bytes
import SupervisorModel.Generated.Chunked
/-
  The chunked transfer coding of the /logtail and /mainlogtail streams.

  * encoder = `deferring_chunked_producer.more` (supervisor/http.py) including the text→bytes
    conversion of fix F8;  the chunk framing, the last-chunk and the "after the end" answer are
    the generated definitions `encMore_a4/a7/a8`, the emptiness test is `encMore_g2`.
  * decoder = how `supervisor/http_client.py` reassembles it: asynchat's `handle_read` loop
    (terminator search with the held-back terminator prefix, numeric terminators) driving
    `HTTPHandler.found_terminator` → `chunked_size` / `chunked_body` / `trailer`.
  * `step` is the byte-at-a-time reference automaton the decoder is proved to refine
    (Lemmas/Chunked.lean); it never looks at segment boundaries.
-/
namespace Sv.Chunked
open Sv.Gen.Chunked

/-! ## encoder -/

/-- what the wrapped producer's `more()` answers; a `str` is given by its UTF-8 encoding -/
inductive Item
  | notDone
  | bytes (b : Bytes)
  | text (b : Bytes)
deriving DecidableEq, Repr

inductive EOut
  | notDone
  | out (b : Bytes)
  | excTypeError          -- `bytes + str` (the pre-F8 behaviour, kept so that the fix is a theorem)
deriving DecidableEq, Repr

def hexChar (d : Nat) : UInt8 := if d < 10 then UInt8.ofNat (48 + d) else UInt8.ofNat (87 + d)

/-- `'%x' % n` (fuel-structured so that it reduces in the kernel) -/
def hexF : Nat → Nat → Bytes
  | 0, _ => []
  | f+1, n => if n < 16 then [hexChar n] else hexF f (n / 16) ++ [hexChar (n % 16)]
def hexDigits (n : Nat) : Bytes := hexF (n + 1) n

/-- `as_bytes(s) + b'\r\n' + data + b'\r\n'` with `s = '%x' % len(data)` -/
def encodeChunk (d : Bytes) : Bytes := encMore_a4 (hexDigits d.length) d
def lastChunk : Bytes := encMore_a7 [] []

/-- `self.producer` is still set -/
structure Enc where
  active : Bool := true
deriving DecidableEq, Repr

def encChunk (e : Enc) (b : Bytes) (isText : Bool) : Enc × EOut :=
  if encMore_g2 [] b then
    (if isText && !encConvertsText then (e, .excTypeError) else (e, .out (encodeChunk b)))
  else ({ active := false }, .out lastChunk)

/-- one `more()`; `it` is the wrapped producer's answer (only asked while active) -/
def encMore (e : Enc) (it : Item) : Enc × EOut :=
  if !e.active then (e, .out (encMore_a8 [] []))
  else match it with
    | .notDone => (e, .notDone)
    | .bytes b => encChunk e b false
    | .text b => encChunk e b true

/-- the byte stream produced for a list of non-empty chunks (stream still open) -/
def encode (cs : List Bytes) : Bytes := cs.flatMap encodeChunk

/-! ## decoder -/

inductive Part | size | body | trailer
deriving DecidableEq, Repr
/-- asynchat terminator: the CRLF string or a remaining byte count -/
inductive Term | crlf | num (n : Nat)
deriving DecidableEq, Repr
inductive DErr | badSize | fuel
deriving DecidableEq, Repr

/-- what the HTTPHandler callbacks read and write -/
structure Core where
  part : Part := .size
  fed : List Bytes := []          -- listener.feed() calls, in order
  done : Bool := false            -- listener.done() called
  err : Option DErr := none       -- an exception left handle_read (asyncore: handle_error, close)
deriving DecidableEq, Repr

def isWs (b : UInt8) : Bool := b == 32 || b == 9 || b == 10 || b == 13 || b == 11 || b == 12
/-- `line.split()[0]` (empty when there is no token: IndexError in the code) -/
def firstToken (l : Bytes) : Bytes := (l.dropWhile isWs).takeWhile (fun b => !isWs b)
def hexVal8 (b : UInt8) : Option Nat :=
  if 48 ≤ b.toNat ∧ b.toNat ≤ 57 then some (b.toNat - 48)
  else if 97 ≤ b.toNat ∧ b.toNat ≤ 102 then some (b.toNat - 87) else none
def hexStep (acc : Option Nat) (c : UInt8) : Option Nat :=
  acc.bind fun a => (hexVal8 c).map (a * 16 + ·)
/-- `int(tok, 16)` on lower-case hex digit strings; anything else is an error in the model -/
def parseHex (l : Bytes) : Option Nat := if l.isEmpty then none else l.foldl hexStep (some 0)

/-- `self.part()` for the collected `line`: new callback state and the terminator it sets, if any -/
def handle (c : Core) (line : Bytes) : Core × Option Term :=
  match c.part with
  | .size =>
    if decSize_g0 line 0 then (c, none)
    else match parseHex (firstToken line) with
      | none => ({ c with err := some .badSize }, none)
      | some n =>
        if decSize_g1 line n then ({ c with part := .trailer }, none)
        else ({ c with part := .body }, some (.num n))
  | .body => ({ c with part := .size, fed := c.fed ++ [line] }, some .crlf)
  | .trailer => if line == clientCRLF then ({ c with done := true }, none) else (c, none)

structure Dec where
  core : Core := {}
  term : Term := .crlf
  buffer : Bytes := []            -- HTTPHandler.buffer (collect_incoming_data)
  acIn : Bytes := []              -- async_chat.ac_in_buffer
deriving DecidableEq, Repr

/-- `found_terminator()`: `self.part(); self.buffer = b''` -/
def fireC (d : Dec) : Dec :=
  let r := handle d.core d.buffer
  { core := r.1, term := r.2.getD d.term, buffer := [], acIn := d.acIn }

/-- `ac_in_buffer.find(CRLF)`: split at the first occurrence -/
def splitCRLF : Bytes → Option (Bytes × Bytes)
  | [] => none
  | [_] => none
  | a :: b :: rest =>
    if a == 13 && b == 10 then some ([], rest)
    else (splitCRLF (b :: rest)).map fun pq => (a :: pq.1, pq.2)

/-- `find_prefix_at_end(buf, CRLF) == 1`: the buffer ends with CR -/
def ends13 : Bytes → Bool
  | [] => false
  | [x] => x == 13
  | _ :: y :: r => ends13 (y :: r)
/-- `buf[:-1]` when the buffer ends with CR, the buffer itself otherwise -/
def strip13 : Bytes → Bytes
  | [] => []
  | [x] => if x == 13 then [] else [x]
  | x :: y :: r => x :: strip13 (y :: r)

/-- one pass of the `while self.ac_in_buffer:` loop; the flag is false after `break` -/
def iter (d : Dec) : Dec × Bool :=
  if d.core.err.isSome then (d, false) else
  match d.term with
  | .num 0 => ({ d with buffer := d.buffer ++ d.acIn, acIn := [] }, true)
  | .num (n+1) =>
    if d.acIn.length < n + 1 then
      ({ d with buffer := d.buffer ++ d.acIn, acIn := [], term := .num (n + 1 - d.acIn.length) }, true)
    else
      (fireC { d with buffer := d.buffer ++ d.acIn.take (n + 1), acIn := d.acIn.drop (n + 1), term := .num 0 }, true)
  | .crlf =>
    match splitCRLF d.acIn with
    | some pq => (fireC { d with buffer := d.buffer ++ pq.1, acIn := pq.2 }, true)
    | none =>
      if ends13 d.acIn then
        (if d.acIn.length != 1 then { d with buffer := d.buffer ++ strip13 d.acIn, acIn := [13] } else d, false)
      else ({ d with buffer := d.buffer ++ d.acIn, acIn := [] }, true)

def loop : Nat → Dec → Dec
  | 0, d => if d.acIn.isEmpty then d else { d with core := { d.core with err := some .fuel } }
  | f+1, d =>
    if d.acIn.isEmpty then d else
    if (iter d).2 then loop f (iter d).1 else (iter d).1

/-- `handle_read()` with `recv` answering `seg` -/
def feed (d : Dec) (seg : Bytes) : Dec :=
  loop (d.acIn.length + seg.length + 1) { d with acIn := d.acIn ++ seg }

def feedAll (d : Dec) (segs : List Bytes) : Dec := segs.foldl feed d

/-- the handler right after the response headers of a chunked response -/
def initDec : Dec := {}

/-! ## byte-at-a-time reference automaton -/

inductive Mode
  | line (l : Bytes) (held : Bool)     -- collecting a line; `held`: a CR is pending
  | body (n : Nat) (buf : Bytes)       -- `n` more bytes of the chunk to come
deriving DecidableEq, Repr

structure Abs where
  core : Core
  mode : Mode
deriving DecidableEq, Repr

def modeOf : Term → Mode
  | .crlf => .line [] false
  | .num n => .body n []

def fireA (a : Abs) (tk : Term) (l : Bytes) : Abs :=
  let r := handle a.core l
  { core := r.1, mode := modeOf (r.2.getD tk) }

def step (a : Abs) (b : UInt8) : Abs :=
  if a.core.err.isSome then a else
  match a.mode with
  | .line l held =>
    if held then
      (if b == 10 then fireA a .crlf l
       else if b == 13 then { a with mode := .line (l ++ [13]) true }
       else { a with mode := .line (l ++ [13, b]) false })
    else if b == 13 then { a with mode := .line l true }
    else { a with mode := .line (l ++ [b]) false }
  | .body 0 buf => { a with mode := .body 0 (buf ++ [b]) }
  | .body (n+1) buf =>
    if n = 0 then fireA a (.num 0) (buf ++ [b]) else { a with mode := .body n (buf ++ [b]) }

def abs0 (d : Dec) : Abs :=
  { core := d.core, mode := match d.term with | .crlf => .line d.buffer false | .num n => .body n d.buffer }
/-- the reference state a decoder state stands for: its pending input is still to be stepped -/
def abs (d : Dec) : Abs := d.acIn.foldl step (abs0 d)

def refDecode (bs : Bytes) : Abs := bs.foldl step (abs0 initDec)

/-! ## line protocol
  case chunkenc            ops: nd | b <hex> | s <hex>      → nd | out <hex> | exc TypeError
  case chunkdec            ops: seg <hex>                   → fed=<hex,hex..|-> done=<0|1> err=<-|..>  (chunks fed by this segment)
-/
def encOps (e : Enc) : List String → List String
  | [] => []
  | l :: rest =>
    let item : Option Item := match words l with
      | ["nd"] => some .notDone
      | ["b", h] => (bytesOfHex h).map .bytes
      | ["s", h] => (bytesOfHex h).map .text
      | _ => none
    match item with
    | none => "bad-op" :: encOps e rest
    | some it =>
      let r := encMore e it
      (match r.2 with
       | .notDone => "nd"
       | .out b => s!"out {hexOfBytes b}"
       | .excTypeError => "exc TypeError") :: encOps r.1 rest

def showErr : Option DErr → String
  | none => "-"
  | some .badSize => "badsize"
  | some .fuel => "fuel"

def decOps (d : Dec) : List String → List String
  | [] => []
  | l :: rest =>
    match words l with
    | ["seg", h] =>
      match bytesOfHex h with
      | some seg =>
        let d' := feed d seg
        let new := d'.core.fed.drop d.core.fed.length
        let fedS := if new.isEmpty then "-" else ",".intercalate (new.map hexOfBytes)
        s!"fed={fedS} done={if d'.core.done then 1 else 0} err={showErr d'.core.err}" :: decOps d' rest
      | none => "bad-op" :: decOps d rest
    | _ => "bad-op" :: decOps d rest

def runEnc (_cfg : List String) (ops : List String) : List String := encOps {} ops
def runDec (_cfg : List String) (ops : List String) : List String := decOps initDec ops

end Sv.Chunked
