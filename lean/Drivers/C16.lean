import SupervisorModel.Basic.DriverKit
import SupervisorModel.Model.LogRead
def main : IO Unit := Sv.driverMain [("logread", Sv.LogRead.runCase)]
