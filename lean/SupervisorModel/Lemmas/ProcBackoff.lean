import SupervisorModel.Lemmas.ProcFork
/-
  How the retry counter `backoff` moves: every operation leaves it alone, resets it to 0, or
  enters BACKOFF adding exactly one; a fork out of BACKOFF during a pass (an automatic retry)
  leaves it untouched.  Basis of the history-level retry budget (C03).
-/
set_option linter.unusedSimpArgs false
set_option linter.unusedVariables false
namespace Sv.Proc
open Sv Sv.Gen.Proc

/-- the three ways the retry counter can move in one operation -/
def BStep (p q : Proc) : Prop :=
  (q.backoff = 0 ∧ q.state ≠ .backoff) ∨ (q.backoff = p.backoff ∧ (q.state = .backoff → p.state = .backoff)) ∨
  (q.backoff = p.backoff + 1 ∧ q.state = .backoff)

theorem bstep_refl (p : Proc) : BStep p p := Or.inr (Or.inl ⟨rfl, id⟩)

theorem rollback_backoff (cfg : Cfg) (now : Int) (p : Proc) : (rollback cfg now p).backoff = p.backoff := by
  simp only [rollback]; repeat' split
  all_goals simp

theorem spawn_bstep (cfg : Cfg) (now : Int) (res : SpawnRes) (p : Proc) (os : List Out) :
    BStep p (spawn cfg now res { p := p, outs := os }).p ∧
    (forks (spawn cfg now res { p := p, outs := os }).outs ≠ forks os →
      (spawn cfg now res { p := p, outs := os }).p.backoff = p.backoff ∧ (spawn cfg now res { p := p, outs := os }).p.state = .starting) := by
  cases hs : p.state <;> cases res <;> by_cases hp : p.pid = 0 <;>
    simp [procdefs, hs, hp, BStep, forks] <;> (repeat' split) <;> simp_all [forks]

theorem kill_bstep (cfg : Cfg) (now sig : Int) (kr : KillRes) (p : Proc) (os : List Out) :
    BStep p (kill cfg now sig kr { p := p, outs := os }).p := by
  cases hs : p.state <;> cases kr <;> by_cases hp : p.pid = 0 <;> simp [procdefs, hs, hp, BStep, signallableStates]

theorem giveUp_bstep (cfg : Cfg) (now : Int) (p : Proc) (os : List Out) : BStep p (giveUp cfg now { p := p, outs := os }).p := by
  cases hs : p.state <;> simp [procdefs, hs, BStep]

theorem signal_bstep (cfg : Cfg) (now sig : Int) (kr : KillRes) (p : Proc) (os : List Out) :
    BStep p (signal cfg now sig kr { p := p, outs := os }).p := by
  cases hs : p.state <;> cases kr <;> by_cases hp : p.pid = 0 <;> simp [procdefs, hs, hp, BStep, signallableStates]

theorem finishCore_bstep (cfg : Cfg) (e : Env) (busy : Bool) (p : Proc) (os : List Out) (hnb : p.state ≠ .backoff) :
    BStep p (finishCore cfg e busy { p := p, outs := os }).p := by
  cases hs : p.state <;> (try (exfalso; exact hnb hs)) <;> cases busy <;> cases hk : p.killing <;> cases ht : e.tooQuickly <;> cases hx : e.exitExpected <;>
    simp [procdefs, hs, hk, ht, hx, BStep]

theorem toRunning_bstep (cfg : Cfg) (e : Env) (p : Proc) (os : List Out) (hst : e.st0 = p.state) :
    BStep p (toRunning cfg e { p := p, outs := os }).p := by
  cases hs : p.state <;> cases h11 : transition_g11 p cfg e <;>
    simp [toRunning, transition_g10, hst, changeState, assertIn, emit, setP, guard, BStep, hs, h11, transition_a4, transition_a5, transition_c0,
      transition_c1_0, change_state_g0, change_state_g1, change_state_a0, change_state_a2, change_state_a4, change_state_a5, announces_all]

theorem giveUp_backoff_zero (cfg : Cfg) (now : Int) (p : Proc) (os : List Out) (hs : p.state = .backoff) :
    (giveUp cfg now { p := p, outs := os }).p.backoff = 0 ∧ (giveUp cfg now { p := p, outs := os }).p.state ≠ .backoff := by
  simp [procdefs, hs]

theorem bstep_of_zero (p q : Proc) (h : q.backoff = 0 ∧ q.state ≠ .backoff) : BStep p q := Or.inl h

/-- a pass moves the retry counter by one `BStep`; and when it forks a child out of BACKOFF (an
    automatic retry) the counter is left as it was, was within the budget, and the process is STARTING -/
theorem transition_bstep (os : List Out) (cfg : Cfg) (p : Proc) (now mood : Int) (res : SpawnRes) (kr : KillRes) (hnn : 0 ≤ p.backoff) :
    BStep p (transition cfg now mood res kr { p := p, outs := os }).p ∧
    (p.state = .backoff → forks (transition cfg now mood res kr { p := p, outs := os }).outs ≠ forks os →
      p.backoff ≤ cfg.startretries ∧ (transition cfg now mood res kr { p := p, outs := os }).p.backoff = p.backoff ∧
      (transition cfg now mood res kr { p := p, outs := os }).p.state = .starting) := by
  obtain ⟨hs, _, _⟩ := rollback_fields cfg now p
  have hb := rollback_backoff cfg now p
  simp only [transition, guard, setP, transition_a1, Option.isSome_none, Bool.false_eq_true, if_false]
  rw [← hs]
  generalize rollback cfg now p = q at *
  -- everything below is about q; transfer BStep from q to p at the end
  have transfer : ∀ r : Proc, BStep q r → BStep p r := by
    intro r h
    rcases h with h | ⟨h1, h2⟩ | ⟨h1, h2⟩
    · exact Or.inl h
    · exact Or.inr (Or.inl ⟨by rw [h1, hb], fun hr => by rw [← hs]; exact h2 hr⟩)
    · exact Or.inr (Or.inr ⟨by rw [h1, hb], h2⟩)
  generalize he : ({ now := now, mood := mood, st0 := q.state } : Env) = e
  have hst : e.st0 = q.state := by rw [← he]
  have hnow : e.now = now := by rw [← he]
  rcases autoStart_cases cfg e res { p := q, outs := os } with h | ⟨h, hc⟩
  · -- no automatic start: nothing is forked
    rw [h]
    have hnf : forks (escalate cfg e kr (toRunning cfg e { p := q, outs := os })).outs = forks os := by
      rw [escalate_noFork, toRunning_noFork]
    refine ⟨transfer _ ?_, fun _ hf => absurd hnf hf⟩
    cases hq : q.state
    case starting =>
      rw [escalate_id _ _ _ _ (by rw [hst, hq]; simp) (by rw [hst, hq]; simp)]
      exact toRunning_bstep cfg e q os (by rw [hst])
    case stopping =>
      rw [toRunning_id _ _ _ (by rw [hst, hq]; simp)]
      simp only [escalate, guard, transition_g12, transition_g14, hst, hq]
      simp
      split
      · exact kill_bstep _ _ _ _ _ _
      · exact bstep_refl q
    case backoff =>
      rw [toRunning_id _ _ _ (by rw [hst, hq]; simp)]
      simp only [escalate, guard, transition_g12, transition_g14, hst, hq]
      simp
      split
      · exact giveUp_bstep _ _ _ _
      · exact bstep_refl q
    all_goals
      rw [toRunning_id _ _ _ (by rw [hst, hq]; simp), escalate_id _ _ _ _ (by rw [hst, hq]; simp) (by rw [hst, hq]; simp)]
      exact bstep_refl q
  · rw [h, hnow]
    obtain ⟨hsb, hsf⟩ := spawn_bstep cfg now res q os
    rcases hc with hc | hc | ⟨hc, hle⟩
    · rw [toRunning_id _ _ _ (by rw [hc]; simp), escalate_id _ _ _ _ (by rw [hc]; simp) (by rw [hc]; simp)]
      exact ⟨transfer _ hsb, fun hp' => by rw [← hst, hc] at hp'; simp at hp'⟩
    · rw [toRunning_id _ _ _ (by rw [hc]; simp), escalate_id _ _ _ _ (by rw [hc]; simp) (by rw [hc]; simp)]
      exact ⟨transfer _ hsb, fun hp' => by rw [← hst, hc] at hp'; simp at hp'⟩
    · rw [toRunning_id _ _ _ (by rw [hc]; simp)]
      simp only [escalate, guard, transition_g12, transition_g13, transition_g14, hc]
      simp
      have hle' : q.backoff ≤ cfg.startretries := by simpa using hle
      have hfin : ∀ (r : S), r = spawn cfg now res { p := q, outs := os } →
          BStep p r.p ∧ (q.state = PS.backoff → ¬forks r.outs = forks os →
            p.backoff ≤ cfg.startretries ∧ r.p.backoff = p.backoff ∧ r.p.state = PS.starting) := by
        intro r hr
        subst hr
        refine ⟨transfer _ hsb, ?_⟩
        intro _ hf
        have := hsf hf
        exact ⟨by rw [← hb]; exact hle', by rw [this.1, hb], this.2⟩
      simp only [hnow]
      split
      · exact hfin _ rfl
      · split
        · -- the spawn failed and the budget is used up: give_up resets the counter
          rename_i hnerr hgt
          have hsb2 : (spawn cfg now res { p := q, outs := os }).p.state = .backoff := by
            -- the counter exceeded the budget, so the spawn must have failed: the process is in BACKOFF
            rcases hsb with h0 | ⟨h1, _⟩ | ⟨_, h2⟩
            · rw [h0.1] at hgt; have hle2 : q.backoff ≤ cfg.startretries := hle'; omega
            · rw [h1] at hgt; omega
            · exact h2
          refine ⟨transfer _ (bstep_of_zero _ _ (by
            generalize spawn cfg now res { p := q, outs := os } = r at hnerr hsb2
            obtain ⟨rp, ros, rerr⟩ := r
            cases rerr with
            | some x => simp at hnerr
            | none => exact giveUp_backoff_zero cfg now rp ros hsb2)), ?_⟩
          intro _ hf
          exfalso
          -- a fork means the counter was not incremented, so it cannot exceed the budget
          have hnf : forks (giveUp cfg now (spawn cfg now res { p := q, outs := os })).outs = forks (spawn cfg now res { p := q, outs := os }).outs :=
            giveUp_noFork cfg now _
          rw [hnf] at hf
          have := hsf hf
          rw [this.1] at hgt
          omega
        · exact hfin _ rfl

theorem emit_p (o : Out) (s : S) : (emit o s).p = s.p := by
  obtain ⟨q, os, err⟩ := s; cases err <;> simp [emit, guard]

theorem finish_bstep (cfg : Cfg) (p : Proc) (now es : Int) (busy : Bool) (hnb : p.state ≠ .backoff) :
    BStep p (finish cfg now es busy { p := p }).p := by
  obtain ⟨hs, _, _⟩ := rollback_fields cfg now p
  have hb := rollback_backoff cfg now p
  have key : ∀ (e : Env) (q : Proc), q.state = p.state → q.backoff = p.backoff →
      BStep p (finishCore cfg e busy { p := q }).p := by
    intro e q h1 h2
    rcases finishCore_bstep cfg e busy q [] (by rw [h1]; exact hnb) with h | ⟨h3, h4⟩ | ⟨h3, h4⟩
    · exact Or.inl h
    · exact Or.inr (Or.inl ⟨by rw [h3, h2], fun hr => by rw [← h1]; exact h4 hr⟩)
    · exact Or.inr (Or.inr ⟨by rw [h3, h2], h4⟩)
  simp only [finish, guard, setP, finish_a2, Option.isSome_none, Bool.false_eq_true, if_false]
  exact key _ _ (by simp [hs]) (by simp [hb])

theorem stop_bstep (cfg : Cfg) (p : Proc) (now : Int) (kr : KillRes) : BStep p (stop cfg now kr { p := p }).p := by
  have key : ∀ (q : Proc) (sig : Int), q.state = p.state → q.backoff = p.backoff →
      BStep p (kill cfg now sig kr { p := q }).p := by
    intro q sig h1 h2
    rcases kill_bstep cfg now sig kr q [] with h | ⟨h3, h4⟩ | ⟨h3, h4⟩
    · exact Or.inl h
    · exact Or.inr (Or.inl ⟨by rw [h3, h2], fun hr => by rw [← h1]; exact h4 hr⟩)
    · exact Or.inr (Or.inr ⟨by rw [h3, h2], h4⟩)
  simp only [stop, guard, setP, Option.isSome_none, Bool.false_eq_true, if_false]
  exact key _ _ rfl rfl

theorem groupStop_bstep (cfg : Cfg) (p : Proc) (now : Int) (kr : KillRes) : BStep p (groupStop cfg now kr { p := p }).p := by
  simp only [groupStop, guard, Option.isSome_none, Bool.false_eq_true, if_false]
  repeat' split
  · exact stop_bstep ..
  · exact stop_bstep ..
  · exact giveUp_bstep ..
  · exact bstep_refl p

theorem rpcStop_bstep (cfg : Cfg) (p : Proc) (now mood : Int) (kr : KillRes) : BStep p (rpcStop cfg now mood kr { p := p }).p := by
  simp only [rpcStop, guard, Option.isSome_none, Bool.false_eq_true, if_false, answer]
  repeat' split
  all_goals (rw [emit_p])
  all_goals first | exact bstep_refl p | exact stop_bstep ..

theorem rpcSignal_bstep (cfg : Cfg) (p : Proc) (now mood sig : Int) (kr : KillRes) :
    BStep p (rpcSignal cfg now mood sig kr { p := p }).p := by
  simp only [rpcSignal, guard, Option.isSome_none, Bool.false_eq_true, if_false, answer]
  repeat' split
  all_goals (rw [emit_p])
  all_goals first | exact bstep_refl p | exact signal_bstep ..

theorem stopReport_bstep (cfg : Cfg) (p : Proc) (now : Int) : BStep p (stopReport cfg now { p := p }).p := by
  have hs := rollback_fields cfg now p
  have hb := rollback_backoff cfg now p
  simp only [stopReport, guard, setP, Option.isSome_none, Bool.false_eq_true, if_false]
  split
  · dsimp only
    split <;> exact Or.inr (Or.inl ⟨by simpa using hb, fun hr => by simpa [hs.1] using hr⟩)
  · exact bstep_refl p

/-- what `spawn()` leaves for an eligible process: STARTING with the counter untouched, or BACKOFF with one more failure -/
theorem spawn_eligible_b (cfg : Cfg) (p : Proc) (now : Int) (res : SpawnRes) (hw : wfSpawn res)
    (hst : p.state = .exited ∨ p.state = .stopped ∨ p.state = .fatal) (hp : p.pid = 0) :
    ((spawn cfg now res { p := p }).p.spawnerr = false ∧ (spawn cfg now res { p := p }).p.backoff = p.backoff ∧
       (spawn cfg now res { p := p }).p.state = .starting ∧ (spawn cfg now res { p := p }).err = none) ∨
    ((spawn cfg now res { p := p }).p.spawnerr = true ∧ (spawn cfg now res { p := p }).p.backoff = p.backoff + 1 ∧
       (spawn cfg now res { p := p }).p.state = .backoff) := by
  cases res with
  | ok pid =>
    have hpid : pid ≠ 0 := hw
    rcases hst with hs | hs | hs <;> simp [procdefs, hs, hp, hpid]
  | badCmd => rcases hst with hs | hs | hs <;> simp [procdefs, hs, hp]
  | pipeErr => rcases hst with hs | hs | hs <;> simp [procdefs, hs, hp]
  | forkErr => rcases hst with hs | hs | hs <;> simp [procdefs, hs, hp]

theorem rpcStart_bstep (cfg : Cfg) (p : Proc) (now mood : Int) (res : SpawnRes) (hw : wfSpawn res) (hi : Inv p)
    (hnn : 0 ≤ p.backoff) : BStep p (rpcStart cfg now mood res { p := p }).p := by
  simp only [rpcStart, guard, Option.isSome_none, Bool.false_eq_true, if_false, answer]
  split
  · rw [emit_p]; exact bstep_refl p
  · split
    · rw [emit_p]; exact bstep_refl p
    · rename_i href
      have hst : p.state = .exited ∨ p.state = .stopped ∨ p.state = .fatal := by
        simp only [startRefusal] at href
        cases hs : p.state <;> simp_all [runningStates] <;> (split at href <;> simp_all)
      have hp : p.pid = 0 := by apply hi.dead; rcases hst with hs | hs | hs <;> simp [hs]
      rcases spawn_eligible_b cfg p now res hw hst hp with ⟨h1, h2, h3, h4⟩ | ⟨h1, h2, h3⟩
      · simp only [h1, Bool.false_eq_true, if_false]
        rw [emit_p]
        generalize hr : spawn cfg now res { p := p } = r at *
        obtain ⟨q, os, err⟩ := r
        simp only at h1 h2 h3 h4; subst h4
        obtain ⟨hb, _⟩ := transition_bstep os cfg q now mood res .ok (by rw [h2]; exact hnn)
        rcases hb with hb | ⟨hb1, hb2⟩ | ⟨hb1, hb2⟩
        · exact Or.inl hb
        · exact Or.inr (Or.inl ⟨by rw [hb1, h2], fun hq => by have := hb2 hq; rw [h3] at this; simp at this⟩)
        · exact Or.inr (Or.inr ⟨by rw [hb1, h2], hb2⟩)
      · simp only [h1, if_true]
        rw [emit_p]
        exact Or.inr (Or.inr ⟨h2, h3⟩)

end Sv.Proc
