import SupervisorModel.Lemmas.CtlSpec
/-
  C20 — supervisorctl reports what the server said.

  Model: Model/Ctl.lean (`Controller.onecmd`, `upcheck`, the 17 actions; non-interactive).  One invocation is
  `run url line script`: the command line and the answers the server proxy gives, in the order asked.
  The definitions unfolded here (`Sv.Gen.Ctl.*`: fault codes, LSB exit statuses, every fault comparison,
  every exit-status assignment, the tolerated-fault arguments, the wording tables, the fault codes the server
  side raises) are regenerated from /repo on every run.

  The exit-status claim is two implications (not an equivalence); both are kept in that shape.
-/
set_option linter.unusedSimpArgs false
set_option linter.unusedVariables false
namespace Sv.Props.C20
open Sv Sv.Ctl Sv.Gen.Ctl Sv.Ctl.Spec

/-! ## the specification predicates (defined in Lemmas/CtlSpec.lean; restated here, checked by `rfl`) -/

/-- the four answers the statement counts as success although they are faults, by RPC method -/
theorem toleratedCode_def (meth : String) : toleratedCode meth =
    if meth = "startProcess" ∨ meth = "startProcessGroup" ∨ meth = "startAllProcesses" then some Faults_ALREADY_STARTED
    else if meth = "stopProcess" ∨ meth = "stopProcessGroup" ∨ meth = "stopAllProcesses" then some Faults_NOT_RUNNING
    else if meth = "addProcessGroup" then some Faults_ALREADY_ADDED
    else if meth = "shutdown" then some Faults_SHUTDOWN_STATE
    else none := rfl

/-- `refused c`: the server refused or failed the request `c`, or could not be reached: a ProtocolError (incl.
    401), a socket error, a fault other than the tolerated one of a per-process method (any fault of a group/all
    method), a result list with an entry that is neither SUCCESS nor the tolerated code, a wrong API version,
    an HTTP error status of `tail -f`.  (A Fault carrying the code SUCCESS is not counted: no server sends one.) -/
theorem refused_def (c : Call) : refused c =
    match c.ans with
    | .proto _ => true
    | .sock _ => true
    | .fault code _ => code != Faults_SUCCESS && (listMethods.contains c.meth || some code != toleratedCode c.meth)
    | .ok (.results rs) => rs.any fun r => r.status != Faults_SUCCESS && some r.status != toleratedCode c.meth
    | .ok (.str api) => c.meth == "getVersion" && api != API_VERSION
    | .ok (.int _) => c.meth == "GET"
    | .ok _ => false := rfl

/-- the calls the partial theorem does not speak about: the HTTP request of `tail -f` (F23) and the result list
    of stopProcessGroup inside `update` (F26) -/
theorem excluded_def (a : Action) (c : Call) : excluded a c =
    (c.meth == "GET" || (a == .update && c.meth == "stopProcessGroup" && isResults c.ans)) := rfl

/-- well-formed argument lists as far as the theorem establishes them (`add`/`remove` without a name are
    *not* rejected by the code, F24; the argument forms of tail/maintail are covered by correspondence only) -/
theorem argsOkP_def (a : Action) (arg : String) : argsOkP a arg =
    match a with
    | .start | .stop | .restart | .clear => pySplit arg ≠ []
    | .signal => 2 ≤ (pySplit arg).length
    | .shutdown | .reload | .version | .reread | .avail => arg = ""
    | _ => True := rfl

/-! ## exit status: failure ⇒ non-zero -/

/-- FULL STATEMENT (not provable today):
      exit = 0 → (∀ c ∈ calls, refused c = false) ∧ argument list well-formed (incl. a name for add/remove).
    PARTIAL: the calls `excluded a c` (F23: HTTP status of `tail -f`; F26: stop results inside `update`) are not
    covered, and `add`/`remove` without a name are not shown to be rejected (F24).
    For every action, every argument string and every answer script: if the invocation ends with exit status 0
    (and the script fitted the calls), then no request was refused and the arguments were well-formed. -/
theorem failure_exit_nonzero_partial (a : Action) (arg url : String) (script : List Ans)
    (h0 : (protect (a.run arg) (init url script)).p.exit = 0)
    (herr : (protect (a.run arg) (init url script)).err = none) :
    (∀ c ∈ (protect (a.run arg) (init url script)).p.calls, refused c = false ∨ excluded a c = true) ∧
    argsOkP a arg := by
  obtain ⟨_, hp, hc⟩ := safeP_protect (safe_run a arg) (init url script) ⟨h0, herr⟩
  refine ⟨fun c hcm => ?_, hp⟩
  rcases hc c hcm with h | h
  · simp [init] at h
  · simpa [okP] using h

-- non-vacuity: an invocation that ends with exit status 0 after three calls
example : (protect (Action.restart.run "foo") (init "u" [.ok (.str "3.0"), .ok (.str "3.0"), .ok .unit,
    .ok (.str "3.0"), .ok .unit])).p.exit = 0 := by decide

/-- contrapositive form: a refused request that is not excluded makes the exit status non-zero -/
theorem refused_call_exit_nonzero (a : Action) (arg url : String) (script : List Ans) (c : Call)
    (hc : c ∈ (protect (a.run arg) (init url script)).p.calls) (hr : refused c = true) (hx : excluded a c = false)
    (herr : (protect (a.run arg) (init url script)).err = none) :
    (protect (a.run arg) (init url script)).p.exit ≠ 0 := by
  intro h0
  rcases (failure_exit_nonzero_partial a arg url script h0 herr).1 c hc with h | h <;> simp_all

example : (protect (Action.start.run "foo") (init "u" [.ok (.str "3.0"), .fault 10 "BAD_NAME: foo"])).p.exit = 1 := by
  decide
example : (protect (Action.status.run "") (init "u" [.proto 401, .proto 401])).p.exit = 1 := by decide
example : (protect (Action.stop.run "g:*") (init "u" [.sock 111])).p.exit = 4 := by decide

/-- an unknown action, a missing action word or a `!` line: "*** Unknown syntax" and status GENERIC -/
theorem unknown_syntax_exit_nonzero (l : String) (s : S) (h : s.err = none) :
    (unknownSyntax l s).p.exit = 1 ∧ (unknownSyntax l s).outs = s.outs ++ ["*** Unknown syntax: " ++ l] := by
  simp [unknownSyntax, out, emit, setExit, setP, guard, h, ctl_gen]

/-! counterexamples that keep the theorem partial (the code as it is) -/
/-- F24: `add` / `remove` without a name: nothing printed, exit status 0 -/
theorem f24_add_remove_without_name :
    (run "u" "add" []).p.exit = 0 ∧ (run "u" "add" []).outs = [] ∧
    (run "u" "remove" []).p.exit = 0 ∧ (run "u" "remove" []).outs = [] := by decide
/-- F23: `tail -f nosuch`: the 404 goes to stderr, the exit status stays 0 -/
theorem f23_tail_f_http_error :
    (run "u" "tail -f nosuch" [.ok (.str "3.0"), .ok (.int 404)]).p.exit = 0 ∧
    (run "u" "tail -f nosuch" [.ok (.str "3.0"), .ok (.int 404)]).p.stderr = true := by decide
/-- F26: `update` with a changed group whose stop FAILED: "stopped", "updated process group", exit status 0 -/
theorem f26_update_ignores_failed_stop :
    (run "u" "update" [.ok (.reload [] ["foo"] []), .ok (.results [⟨"foo", "foo", 30, "FAILED: x"⟩]), .ok .unit, .ok .unit]).p.exit = 0 ∧
    (run "u" "update" [.ok (.reload [] ["foo"] []), .ok (.results [⟨"foo", "foo", 30, "FAILED: x"⟩]), .ok .unit, .ok .unit]).outs =
      ["foo: stopped", "foo: updated process group"] := by decide

/-! ## exit status: success ⇒ zero (function level and the list forms) -/

/-- Controller.set_exitstatus_from_xmlrpc_fault, completely: SUCCESS and the tolerated code leave the status,
    the DEAD_PROGRAM_FAULTS give NOT_RUNNING (7), everything else GENERIC (1) -/
theorem setExitFromFault_spec (code : Int) (ign : Option Int) (s : S) (h : s.err = none) :
    (setExitFromFault code ign s).p.exit =
      (if code = Faults_SUCCESS ∨ some code = ign then s.p.exit
       else if code = Faults_SPAWN_ERROR ∨ code = Faults_ABNORMAL_TERMINATION ∨ code = Faults_NOT_RUNNING then 7
       else 1) ∧ (setExitFromFault code ign s).err = none ∧ (setExitFromFault code ign s).outs = s.outs := by
  unfold setExitFromFault guard
  simp only [h, Option.isSome_none, Bool.false_eq_true, if_false]
  simp only [onIgn, setexit_g0, setexit_g1, setexit_a0, setexit_a1, K, DEAD_PROGRAM_FAULTS, List.map, List.elem_eq_contains]
  cases ign <;> simp [setExit, setP, guard, h, ctl_gen] <;> (repeat' split) <;> simp_all <;> omega

/-- the tolerated-fault argument at every call site of set_exitstatus_from_xmlrpc_fault is the documented one:
    ALREADY_STARTED for start, NOT_RUNNING for stop, none for signal and clear -/
theorem tolerated_arguments :
    K do_start_c0_1 = Faults_ALREADY_STARTED ∧ K do_start_c1_1 = Faults_ALREADY_STARTED ∧ K do_start_c2_1 = Faults_ALREADY_STARTED ∧
    K do_stop_c0_1 = Faults_NOT_RUNNING ∧ K do_stop_c1_1 = Faults_NOT_RUNNING ∧ K do_stop_c2_1 = Faults_NOT_RUNNING := by decide

/-! ## one line per result, wording -/
theorem out_spec (l : String) (s : S) (h : s.err = none) :
    (out l s).outs = s.outs ++ [l] ∧ (out l s).err = none ∧ (out l s).p = s.p := by
  simp [out, emit, guard, h]

/-- the loop over a result list: when every status has a wording, exactly one line per entry is printed, in
    order, each the wording of that entry's status, and no exception is raised -/
theorem one_line_per_result (line : LineFn) (ign : Option Int) (rs : List Res) (s : S) (h : s.err = none)
    (hw : ∀ r ∈ rs, (line r.group (some r.name) r.status r.desc).isSome) :
    (printResults line ign rs s).outs = s.outs ++ rs.filterMap (fun r => line r.group (some r.name) r.status r.desc) ∧
    (printResults line ign rs s).err = none := by
  induction rs generalizing s with
  | nil => simp [printResults, h]
  | cons r rs ih =>
    have hr := hw r (List.mem_cons_self)
    obtain ⟨l, hl⟩ := Option.isSome_iff_exists.1 hr
    have e1 := out_spec l s h
    have e2 := setExitFromFault_spec r.status ign (out l s) e1.2.1
    have := ih (setExitFromFault r.status ign (out l s)) e2.2.1 (fun x hx => hw x (List.mem_cons_of_mem _ hx))
    simp only [printResults, printOne, hl, List.filterMap_cons]
    rw [this.1, e2.2.2, e1.1]
    exact ⟨by simp, this.2⟩

example : (printResults startLine (some 60) [⟨"a", "a", 80, "OK"⟩, ⟨"g", "b", 30, "FAILED: x"⟩, ⟨"c", "c", 60, ""⟩]
    (init "u" [])).outs = ["a: started", "FAILED: x", "c: ERROR (already started)"] := by decide

/-- a status has a wording exactly when it is in the action's table -/
theorem line_isSome (tbl : List (Int × Word)) (tmpl : String × String × String) (succ g : String) (n : Option String)
    (st : Int) (d : String) : (resultLine tbl tmpl succ g n st d).isSome = (lookupWord tbl st).isSome := by
  simp [resultLine]

/-- FULL STATEMENT (false today, F25): every code the per-process RPC methods can raise has a wording in the
    table of the action that prints it.  PARTIAL: all of them except SHUTDOWN_STATE. -/
theorem wording_covers_server_codes_partial :
    (∀ c ∈ serverCodes_start, c ≠ Faults_SHUTDOWN_STATE → (lookupWord startWording c).isSome) ∧
    (∀ c ∈ serverCodes_stop, c ≠ Faults_SHUTDOWN_STATE → (lookupWord signalWording c).isSome) ∧
    (∀ c ∈ serverCodes_signal, c ≠ Faults_SHUTDOWN_STATE → (lookupWord signalWording c).isSome) ∧
    (∀ c ∈ serverCodes_clear, c ≠ Faults_SHUTDOWN_STATE → (lookupWord clearWording c).isSome) ∧
    (lookupWord startWording Faults_SUCCESS).isSome ∧ (lookupWord signalWording Faults_SUCCESS).isSome ∧
    (lookupWord clearWording Faults_SUCCESS).isSome := by decide

/-- F25: SHUTDOWN_STATE can be raised by every per-process method and has no wording in any table; the
    `start foo bar` of a daemon that is shutting down prints one `error:` line and never asks for bar -/
theorem f25_shutdown_state_unhandled :
    Faults_SHUTDOWN_STATE ∈ serverCodes_start ∧ lookupWord startWording Faults_SHUTDOWN_STATE = none ∧
    Faults_SHUTDOWN_STATE ∈ serverCodes_stop ∧ lookupWord signalWording Faults_SHUTDOWN_STATE = none ∧
    Faults_SHUTDOWN_STATE ∈ serverCodes_clear ∧ lookupWord clearWording Faults_SHUTDOWN_STATE = none ∧
    (run "u" "start foo bar" [.ok (.str "3.0"), .fault 6 "SHUTDOWN_STATE"]).outs = ["error: ValueError"] ∧
    (run "u" "start foo bar" [.ok (.str "3.0"), .fault 6 "SHUTDOWN_STATE"]).p.calls.length = 2 := by decide

/-- wording corresponds to the status: only SUCCESS is worded as a success; every other status in a table is
    worded `ERROR (...)` or is the server's own description (FAILED) -/
def successWord : Word → Bool
  | .ok _ => true
  | .okparam => true
  | _ => false
def errorWord (code : Int) : Word → Bool
  | .err _ => true
  | .desc => code == Faults_FAILED
  | _ => false

theorem wording_matches_table :
    (∀ e ∈ startWording ++ signalWording ++ clearWording,
      (e.1 = Faults_SUCCESS → successWord e.2 = true) ∧ (e.1 ≠ Faults_SUCCESS → errorWord e.1 e.2 = true)) ∧
    startWording_raisesOnUnknown = true ∧ signalWording_raisesOnUnknown = true ∧ clearWording_raisesOnUnknown = true := by
  decide

/-- distinct statuses of one table have distinct wordings -/
theorem wording_injective :
    (startWording.map (·.2)).Nodup ∧ (signalWording.map (·.2)).Nodup ∧ (clearWording.map (·.2)).Nodup ∧
    (startWording.map (·.1)).Nodup ∧ (signalWording.map (·.1)).Nodup ∧ (clearWording.map (·.1)).Nodup := by decide

/-! ## success ⇒ zero for the list forms -/
/-- a result list whose entries are all SUCCESS or the tolerated code leaves the exit status as it was -/
theorem all_ok_results_keep_exit (line : LineFn) (ign : Option Int) (rs : List Res) (s : S) (h : s.err = none)
    (hw : ∀ r ∈ rs, (line r.group (some r.name) r.status r.desc).isSome)
    (hok : ∀ r ∈ rs, r.status = Faults_SUCCESS ∨ some r.status = ign) :
    (printResults line ign rs s).p.exit = s.p.exit := by
  induction rs generalizing s with
  | nil => simp [printResults]
  | cons r rs ih =>
    obtain ⟨l, hl⟩ := Option.isSome_iff_exists.1 (hw r List.mem_cons_self)
    have e1 := out_spec l s h
    have e2 := setExitFromFault_spec r.status ign (out l s) e1.2.1
    have := ih (setExitFromFault r.status ign (out l s)) e2.2.1 (fun x hx => hw x (List.mem_cons_of_mem _ hx))
      (fun x hx => hok x (List.mem_cons_of_mem _ hx))
    simp only [printResults, printOne, hl]
    rw [this, e2.1, if_pos (hok r List.mem_cons_self), e1.2.2]

theorem filterMap_length_of_isSome {α β : Type} (f : α → Option β) (l : List α) (h : ∀ x ∈ l, (f x).isSome) :
    (l.filterMap f).length = l.length := by
  induction l with
  | nil => rfl
  | cons x l ih =>
    obtain ⟨y, hy⟩ := Option.isSome_iff_exists.1 (h x List.mem_cons_self)
    simp [List.filterMap_cons, hy, ih (fun z hz => h z (List.mem_cons_of_mem _ hz))]

theorem startLine_ok (g : String) (n : Option String) (st : Int) (d : String)
    (h : st = Faults_SUCCESS ∨ st = Faults_ALREADY_STARTED) : (startLine g n st d).isSome := by
  unfold startLine; rw [line_isSome]; rcases h with h | h <;> subst h <;> decide

/-- `start all`: the server up, every entry SUCCESS or ALREADY_STARTED ⇒ exit status 0, one line per entry -/
theorem all_ok_exit_zero_start_all (url : String) (rs : List Res)
    (hok : ∀ r ∈ rs, r.status = Faults_SUCCESS ∨ r.status = Faults_ALREADY_STARTED) :
    (protect (Action.start.run "all") (init url [.ok (.str API_VERSION), .ok (.results rs)])).p.exit = 0 ∧
    (protect (Action.start.run "all") (init url [.ok (.str API_VERSION), .ok (.results rs)])).outs.length = rs.length := by
  have hs : pySplit "all" = ["all"] := by decide
  let s1 : S := { p := { script := [], calls := [⟨"getVersion", [], .ok (.str API_VERSION)⟩,
    ⟨"startAllProcesses", [], .ok (.results rs)⟩], url := url } }
  have hrun : Action.start.run "all" (init url [.ok (.str API_VERSION), .ok (.results rs)]) =
      printResults startLine (some 60) rs s1 := by
    simp [Action.run, doStart, upcheck, rpc, guard, init, hs, startNames, ctl_gen, expectResults, s1]
  have hw : ∀ r ∈ rs, (startLine r.group (some r.name) r.status r.desc).isSome :=
    fun r hr => startLine_ok _ _ _ _ (hok r hr)
  have h1 := one_line_per_result startLine (some 60) rs s1 rfl hw
  have h2 := all_ok_results_keep_exit startLine (some 60) rs s1 rfl hw
    (fun r hr => by rcases hok r hr with h | h <;> simp [h, ctl_gen])
  have hp : protect (Action.start.run "all") (init url [.ok (.str API_VERSION), .ok (.results rs)]) =
      printResults startLine (some 60) rs s1 := by
    simp only [protect, hrun, h1.2, net]
  rw [hp, h2, h1.1]
  refine ⟨rfl, ?_⟩
  simp only [s1, List.nil_append]
  exact filterMap_length_of_isSome _ _ hw

/-- the four tolerated answers, end to end: exit status 0 -/
theorem tolerated_answers_exit_zero :
    (run "u" "start foo" [.ok (.str "3.0"), .fault 60 "ALREADY_STARTED: foo"]).p.exit = 0 ∧
    (run "u" "stop foo" [.ok (.str "3.0"), .fault 70 "NOT_RUNNING: foo"]).p.exit = 0 ∧
    (run "u" "add foo" [.fault 90 "ALREADY_ADDED: foo"]).p.exit = 0 ∧
    (run "u" "shutdown" [.fault 6 "SHUTDOWN_STATE"]).p.exit = 0 ∧
    -- and the same codes where they are not tolerated
    (run "u" "start foo" [.ok (.str "3.0"), .fault 50 "SPAWN_ERROR: foo"]).p.exit = 7 ∧
    (run "u" "reload" [.fault 6 "SHUTDOWN_STATE"]).p.exit = 1 := by decide

/-! ## status exits 3 when a shown process is in a stopped state -/
theorem setExit_spec (n : Int) (s : S) (h : s.err = none) :
    (setExit n s).p.exit = n ∧ (setExit n s).err = none := by
  simp [setExit, setP, guard, h]

/-- end to end for `status` without names -/
example : (run "u" "status" [.ok (.str "3.0"), .ok (.infos [⟨"a", "a", 20, "RUNNING", "", 5⟩, ⟨"b", "b", 0, "STOPPED", "", 0⟩])]).p.exit = 3 := by
  decide
example : (run "u" "status a" [.ok (.str "3.0"), .ok (.infos [⟨"a", "a", 20, "RUNNING", "", 5⟩, ⟨"b", "b", 0, "STOPPED", "", 0⟩])]).p.exit = 0 := by
  decide
example : (run "u" "status nosuch" [.ok (.str "3.0"), .ok (.infos [⟨"a", "a", 20, "RUNNING", "", 5⟩])]).p.exit = 4 := by
  decide

/-- the states that make `status` exit 3 are exactly the documented stopped states -/
theorem stopped_states_table :
    (STOPPED_STATES.all fun c => ((processStateCodes.filter fun kv => kv.1 ∈ ["STOPPED", "EXITED", "FATAL", "UNKNOWN"]).map (·.2)).contains c) ∧
    (((processStateCodes.filter fun kv => kv.1 ∈ ["STOPPED", "EXITED", "FATAL", "UNKNOWN"]).map (·.2)).all fun c => STOPPED_STATES.contains c) ∧
    K do_status_a14 = 3 ∧ K do_status_a13 = 4 ∧ K do_status_a0 = 4 := by
  decide

/-! ## a fault is never silent, never a traceback -/
/-- the outer exception net of onecmd: every Python exception raised by an action ends as one `error:` line and
    exit status GENERIC; nothing escapes -/
theorem fault_never_silent (s : S) (e : Exc) (h : s.err = some e) (hh : isHarnessErr (some e) = false) :
    (net s).err = none ∧ (net s).outs = s.outs ++ ["error: " ++ excName e] ∧ (net s).p.exit = 1 := by
  simp [net, h, hh, out, emit, setExit, setP, guard, ctl_gen]

/-- no exception leaves `onecmd` (the only pending "errors" are the harness' own: a script that does not fit
    the calls, an action outside the model) -/
theorem no_traceback (f : S → S) (s : S) :
    (protect f s).err = none ∨ isHarnessErr (protect f s).err = true := by
  have hnet : ∀ x : S, (net x).err = none ∨ isHarnessErr (net x).err = true := by
    intro x
    unfold net
    split
    · left; assumption
    · rename_i e he
      split
      · right; rw [he]; assumption
      · left; simp [out, emit, setExit, setP, guard]
  unfold protect
  dsimp only
  split
  · split <;> exact hnet _
  · exact hnet _

/-! ## which processes the arguments select -/
theorem splitColon_none (l : List Char) (h : ':' ∉ l) : splitColon l = none := by
  induction l with
  | nil => rfl
  | cons c l ih =>
    have h1 : c ≠ ':' := fun e => h (by simp [e])
    have h2 : ':' ∉ l := fun e => h (List.mem_cons_of_mem _ e)
    simp [splitColon, h1, ih h2]

theorem splitColon_first (g p : List Char) (h : ':' ∉ g) : splitColon (g ++ ':' :: p) = some (g, p) := by
  induction g with
  | nil => simp [splitColon]
  | cons c g ih =>
    have h1 : c ≠ ':' := fun e => h (by simp [e])
    have h2 : ':' ∉ g := fun e => h (List.mem_cons_of_mem _ e)
    simp [splitColon, h1, ih h2]

/-- a plain name selects the process of that name in the group of that name -/
theorem namespec_plain (n : String) (h : ':' ∉ n.toList) : splitNamespec n = (n, some n) := by
  simp [splitNamespec, splitColon_none _ h]

/-- `group:*` and `group:` select the whole group -/
theorem namespec_group (g : String) (h : ':' ∉ g.toList) :
    splitNamespec (g ++ ":*") = (g, none) ∧ splitNamespec (g ++ ":") = (g, none) := by
  constructor
  · have : (g ++ ":*").toList = g.toList ++ ':' :: ['*'] := by simp [String.toList_append]
    simp [splitNamespec, this, splitColon_first _ _ h, String.ofList_toList]
  · have : (g ++ ":").toList = g.toList ++ ':' :: [] := by simp [String.toList_append]
    simp [splitNamespec, this, splitColon_first _ _ h, String.ofList_toList]

/-- `group:name` selects one process of the group (the name may itself contain colons) -/
theorem namespec_group_name (g p : String) (h : ':' ∉ g.toList) (hp : p ≠ "") (hs : p ≠ "*") :
    splitNamespec (g ++ ":" ++ p) = (g, some p) := by
  have : (g ++ ":" ++ p).toList = g.toList ++ ':' :: p.toList := by simp [String.toList_append]
  have h1 : p.toList ≠ [] := fun e => hp (by rw [← String.ofList_toList (s := p), e])
  have h2 : p.toList ≠ ['*'] := fun e => hs (by rw [← String.ofList_toList (s := p), e])
  simp [splitNamespec, this, splitColon_first _ _ h, String.ofList_toList, h1, h2]

/-- `all` anywhere in the list selects everything with one request; otherwise one request per name:
    the group request for `group:*`, the process request for a name -/
theorem namespec_selection_start (names : List String) :
    startNames names =
      if names.contains "all" then
        rpc "startAllProcesses" [] (expectResults (printResults startLine (some Faults_ALREADY_STARTED))) raiseFault raiseSock
      else fun s => names.foldl (fun s n => startOne n s) s := by
  unfold startNames; simp [ctl_gen]

example : (run "u" "start g:* foo" [.ok (.str "3.0"), .ok (.results []), .ok .unit]).p.calls.map renderCall =
    ["getVersion()", "startProcessGroup(g)", "startProcess(foo)"] := by decide
end Sv.Props.C20
