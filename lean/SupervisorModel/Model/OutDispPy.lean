import SupervisorModel.Basic.Bytes
/-
  Python byte-string operations used by the generated definitions of Generated/OutDisp.lean,
  with Python's meaning for every integer argument (negative bounds count from the end, bounds
  are clamped to the length).  Trusted to mirror CPython's `bytes` (exercised by the
  correspondence runs of C07/C08 on the real functions).
-/
namespace Sv.Py

/-- slice-bound normalisation: negative counts from the end, result clamped to `[0, n]` -/
def normIdx (n : Nat) (i : Int) : Nat := if i < 0 then n - (-i).toNat else min i.toNat n

/-- `b[lo:]` -/
def sliceFrom (b : Bytes) (lo : Int) : Bytes := b.drop (normIdx b.length lo)
/-- `b[:hi]` -/
def sliceTo (b : Bytes) (hi : Int) : Bytes := b.take (normIdx b.length hi)
/-- `b[lo:hi]` -/
def slice (b : Bytes) (lo hi : Int) : Bytes := (b.take (normIdx b.length hi)).drop (normIdx b.length lo)
/-- `b.endswith(suf)` -/
def endswith (b suf : Bytes) : Bool := suf.isSuffixOf b

/-- first position ≥ `pos` (the position of the head of the list) at which `sub` occurs, else -1 -/
def findGo (sub : Bytes) : Bytes → Int → Int
  | [], pos => if sub.isEmpty then pos else -1
  | c :: cs, pos => if sub.isPrefixOf (c :: cs) then pos else findGo sub cs (pos + 1)

/-- `b.find(sub, start)` -/
def find (b sub : Bytes) (start : Int) : Int :=
  if start > b.length then -1 else findGo sub (b.drop (normIdx b.length start)) (normIdx b.length start)

/-! ### `bytes.decode('utf-8')` (strict): does it succeed?

  Well-formed UTF-8 as CPython's decoder accepts it (Unicode Table 3-7): no overlong forms, no
  surrogates (ED A0..BF), nothing above U+10FFFF, no truncated sequence. -/

def isCont (b : UInt8) : Bool := 0x80 ≤ b && b ≤ 0xBF

/-- `true` iff `b.decode('utf-8')` returns; `false` iff it raises UnicodeDecodeError -/
def utf8Valid : Bytes → Bool
  | [] => true
  | b0 :: rest =>
    if b0 < 0x80 then utf8Valid rest
    else if 0xC2 ≤ b0 && b0 ≤ 0xDF then
      match rest with
      | b1 :: r => isCont b1 && utf8Valid r
      | _ => false
    else if 0xE0 ≤ b0 && b0 ≤ 0xEF then
      match rest with
      | b1 :: b2 :: r =>
        isCont b1 && isCont b2 && (b0 != 0xE0 || 0xA0 ≤ b1) && (b0 != 0xED || b1 ≤ 0x9F) && utf8Valid r
      | _ => false
    else if 0xF0 ≤ b0 && b0 ≤ 0xF4 then
      match rest with
      | b1 :: b2 :: b3 :: r =>
        isCont b1 && isCont b2 && isCont b3 && (b0 != 0xF0 || 0x90 ≤ b1) && (b0 != 0xF4 || b1 ≤ 0x8F) && utf8Valid r
      | _ => false
    else false

/-- the exception classes whose `except` clause catches a UnicodeDecodeError
    (UnicodeDecodeError < UnicodeError < ValueError < Exception < BaseException; a bare `except:` is
    listed as BaseException by the extractor) -/
def decodeErrorClasses : List String := ["UnicodeDecodeError", "UnicodeError", "ValueError", "Exception", "BaseException"]

/-- do the handlers of the enclosing `try` statements catch a UnicodeDecodeError? -/
def catchesDecodeError (handlers : List String) : Bool := handlers.any fun h => decodeErrorClasses.contains h

end Sv.Py
