import SupervisorModel.Lemmas.SupFrame
import SupervisorModel.Props.C04
/-
  C05 — shutdown and restart stop everything, in priority order, and only then exit.
  Theorems over the per-process model and the daemon model (Model/Sup.lean); the daemon model is
  checked pass by pass against the unmodified `runforever()` over a simulated kernel.
-/
set_option linter.unusedSimpArgs false
set_option linter.unusedVariables false
namespace Sv.Props.C05
open Sv Sv.Proc Sv.Gen.Proc Sv.Sup Sv.Gen.Sup

theorem mood_ite (c : Prop) [Decidable c] (a b : Sup) : (if c then a else b).mood = if c then a.mood else b.mood := by
  split <;> rfl
theorem exited_ite (c : Prop) [Decidable c] (a b : Sup) : (if c then a else b).exited = if c then a.exited else b.exited := by
  split <;> rfl

/-- the generated mood codes are ordered SHUTDOWN < RESTARTING < RUNNING -/
theorem mood_codes : moodSHUTDOWN < moodRESTARTING ∧ moodRESTARTING < moodRUNNING := by decide

/-- **A SIGHUP (or any signal) received during shutdown never turns it into a restart** -/
theorem sighup_ignored_in_shutdown (sig : Int) : newMood moodSHUTDOWN sig = moodSHUTDOWN := by
  simp only [newMood, handle_signal_g0, handle_signal_g1, handle_signal_g2, handle_signal_g3, handle_signal_a1, handle_signal_a2]
  (repeat' split) <;> simp_all

/-- **The daemon's mood only moves towards SHUTDOWN**: signal handling never raises it -/
theorem mood_never_rises (mood sig : Int) (h : mood ≤ moodRUNNING) (hlo : moodSHUTDOWN ≤ mood) :
    newMood mood sig ≤ mood ∧ moodSHUTDOWN ≤ newMood mood sig := by
  simp only [newMood, handle_signal_g0, handle_signal_g1, handle_signal_g2, handle_signal_g3, handle_signal_a1, handle_signal_a2]
  (repeat' split) <;> (simp only [moodSHUTDOWN, moodRESTARTING, moodRUNNING, beq_iff_eq] at *) <;> omega

/-- `handle_signal()` changes nothing but the mood, and that only through `newMood` -/
theorem handleSignal_mood (s : Sup) (sig : Int) (hs : s.env.sig = some sig) (he : s.err = none) (hx : s.exited = false) :
    handleSignal s = { s with mood := newMood s.mood sig } := by
  simp [handleSignal, sguard, hs, he, hx]

/-- the shutdown / restart RPCs are themselves refused once a request has been observed -/
theorem shutdown_rpcs_gated (s : Sup) (id : Nat) (h : s.mood < moodRUNNING) (he : s.err = none) (hx : s.exited = false) :
    (rpcOne (.restart id) s).mood = s.mood ∧ (rpcOne (.shutdown id) s).mood = s.mood := by
  simp [rpcOne, sguard, semit, he, hx, h]

/-- **No fork after the request**: with the daemon not RUNNING, a pass forks no child — for any
    process state (EXITED awaiting autorestart, BACKOFF awaiting retry, STOPPED awaiting autostart, …),
    configuration, clock reading and environment answer -/
theorem no_fork_when_not_running (cfg : Cfg) (p : Proc) (now mood : Int) (res : SpawnRes) (kr : KillRes)
    (h : ¬ moodRESTARTING < mood) : forks (transition cfg now mood res kr { p := p }).outs = [] := by
  simp only [transition, guard, setP, Option.isSome_none, Bool.false_eq_true, if_false]
  rw [escalate_noFork, toRunning_noFork]
  simp [autoStart, guard, transition_g0, h, forks]

/-- **Process-control RPCs are refused with SHUTDOWN_STATE and change nothing** -/
theorem rpcs_refused (cfg : Cfg) (p : Proc) (now mood sig : Int) (res : SpawnRes) (kr : KillRes) (h : mood < moodRUNNING) :
    rpcStart cfg now mood res { p := p } = { p := p, outs := [.answer faultSHUTDOWN_STATE] } ∧
    rpcStop cfg now mood kr { p := p } = { p := p, outs := [.answer faultSHUTDOWN_STATE] } ∧
    rpcSignal cfg now mood sig kr { p := p } = { p := p, outs := [.answer faultSHUTDOWN_STATE] } := by
  simp [rpcStart, rpcStop, rpcSignal, guard, answer, emit, h]

/-- **What is stopped stays stopped** while the daemon is not RUNNING: a pass leaves a process in a
    stopped state (STOPPED, EXITED, FATAL, UNKNOWN) exactly there, so a group that has been found
    stopped cannot come back to life before the exit -/
theorem stopped_stays_stopped (cfg : Cfg) (p : Proc) (now mood : Int) (res : SpawnRes) (kr : KillRes)
    (h : ¬ moodRESTARTING < mood) (hs : p.state ∈ stoppedStates) :
    (transition cfg now mood res kr { p := p }).p.state = p.state := by
  have hr := (rollback_fields cfg now p).1
  simp [stoppedStates] at hs
  have hne : p.state ≠ .starting ∧ p.state ≠ .backoff ∧ p.state ≠ .stopping := by
    rcases hs with hs | hs | hs | hs <;> simp [hs]
  simp only [transition, guard, setP, Option.isSome_none, Bool.false_eq_true, if_false, transition_a1]
  rw [escalate_id _ _ _ _ (by simp [hne.2.1]) (by simp [hne.2.2]), toRunning_id _ _ _ (by simp [hne.1])]
  simp [autoStart, guard, transition_g0, h, hr]

/-- **The main loop exits only when no process is unstopped**: the exit flag is raised by the exit
    test of the loop (`if not self.shutdown_report(): raise ExitNow`) and only there, when no process
    of any group is outside the stopped states -/
theorem exit_only_when_all_stopped (s : Sup) (hx : s.exited = false) (h : (exitTest s).exited = true) :
    anyUnstopped (exitTest s) = false := by
  simp only [exitTest, sguard] at h ⊢
  by_cases hg : (s.err.isSome || s.exited) = true
  · simp only [hg, if_true] at h ⊢
    simp [hx] at h
  · simp only [hg, if_false] at h ⊢
    by_cases hu : (!anyUnstopped s) = true
    · simp only [hu, if_true]
      simpa [anyUnstopped] using hu
    · simp [hu, hx] at h

/-- the exit test runs only while a shutdown/restart request is pending -/
theorem exit_test_only_when_requested (s : Sup) (h : ¬ s.mood < moodRUNNING) : shutdownPhase1 s = s := by
  simp [shutdownPhase1, sguard, runforever_g1, h]

/-- **SUPERVISOR_STATE_CHANGE_STOPPING is announced exactly when the request is first observed**:
    with the `stopping` flag clear, the notification is emitted once, the flag is set and the stop
    queue is fixed to the groups in ascending priority order, before anything is signalled … -/
theorem stopping_announced_first (s : Sup) (gid : Nat) (he : s.err = none) (hx : s.exited = false) (hm : s.mood < moodRUNNING)
    (hs : s.stopping = false) (hg : ((sortedGroups s).map (·.1)).getLast? = some gid) :
    shutdownPhase1 s = exitTest (stopAll gid
      { s with stopping := true, stopGroups := (sortedGroups s).map (·.1), outs := s.outs ++ [.stopping] }) := by
  simp only [List.getLast?_map] at hg
  simp [shutdownPhase1, sguard, semit, he, hx, hm, hs, hg, runforever_g1, runforever_g2]

/-- … and with the flag set nothing is announced again: phase 1 only stops the last group of the queue -/
theorem stopping_not_announced_again (s : Sup) (gid : Nat) (he : s.err = none) (hx : s.exited = false) (hm : s.mood < moodRUNNING)
    (hs : s.stopping = true) (hg : s.stopGroups.getLast? = some gid) :
    shutdownPhase1 s = exitTest (stopAll gid s) := by
  simp [shutdownPhase1, sguard, semit, he, hx, hm, hs, hg, runforever_g1, runforever_g2]

/-- **A group leaves the stop queue only when every one of its processes is in a stopped state** -/
theorem phase2_pops_only_stopped_group (s : Sup) (he : s.err = none) (hx : s.exited = false)
    (h : (shutdownPhase2 s).stopGroups ≠ s.stopGroups) :
    ∃ gid, s.stopGroups.getLast? = some gid ∧ unstopped (members s.procs gid) = [] ∧
      (shutdownPhase2 s).stopGroups = s.stopGroups.dropLast := by
  simp only [shutdownPhase2, sguard, he, hx, Option.isSome_none, Bool.false_eq_true, Bool.or_self, if_false] at h ⊢
  by_cases hg10 : runforever_g10 s.mood 0 0 0 s.stopping false = true
  · simp only [hg10, if_true] at h ⊢
    cases hl : s.stopGroups.getLast? with
    | none => simp [hl] at h
    | some gid =>
      simp only [hl] at h ⊢
      by_cases hu : (unstopped (members s.procs gid)).isEmpty = true
      · refine ⟨gid, rfl, by simpa using hu, ?_⟩
        simp [hu]
      · simp [hu] at h
  · simp [hg10] at h

theorem popKill_procs (s s1 : Sup) (k : Option KillRes) (h : popKill s = (k, s1)) : s1.procs = s.procs := by
  unfold popKill at h
  split at h <;> (simp only [Prod.mk.injEq] at h; obtain ⟨_, h2⟩ := h; subst h2; rfl)

theorem procGroupStop_others (n m : Nat) (hne : m ≠ n) (acc : Sup) :
    findPE (procGroupStop n acc).procs m = findPE acc.procs m := by
  unfold procGroupStop sguard
  split
  · rfl
  · dsimp only
    split
    · rfl
    · split
      · split
        · rfl
        · rename_i k s1 heq
          rw [onProc_others _ _ _ m hne, popKill_procs _ _ _ heq]
      · exact onProc_others _ _ _ m hne

theorem mem_insertBy {α : Type} (key : α → Int) (x y : α) (l : List α) : y ∈ insertBy key x l ↔ y = x ∨ y ∈ l := by
  induction l with
  | nil => simp [insertBy]
  | cons z zs ih =>
    simp only [insertBy]
    split
    · simp
    · simp only [List.mem_cons, ih]
      constructor
      · intro h; rcases h with h | h | h
        · right; left; exact h
        · left; exact h
        · right; right; exact h
      · intro h; rcases h with h | h | h
        · right; left; exact h
        · left; exact h
        · right; right; exact h

theorem mem_sortBy {α : Type} (key : α → Int) (y : α) (l : List α) : y ∈ sortBy key l ↔ y ∈ l := by
  have hgen : ∀ (l acc : List α), y ∈ l.foldl (fun acc x => insertBy key x acc) acc ↔ y ∈ acc ∨ y ∈ l := by
    intro l
    induction l with
    | nil => intro acc; simp
    | cons x xs ih =>
      intro acc
      simp only [List.foldl_cons, ih, mem_insertBy, List.mem_cons]
      constructor
      · intro h; rcases h with (h | h) | h
        · right; left; exact h
        · left; exact h
        · right; right; exact h
      · intro h; rcases h with h | h | h
        · left; right; exact h
        · left; left; exact h
        · right; exact h
  simpa [sortBy] using hgen l []

/-- and only the *last* group of the queue (the highest priority number) is signalled by phase 1:
    `stop_all` of a group leaves every process outside that group untouched -/
theorem phase1_touches_only_last_group (gid : Nat) (s : Sup) (m : Nat)
    (hm : ∀ e ∈ members s.procs gid, e.name ≠ m) : findPE (stopAll gid s).procs m = findPE s.procs m := by
  unfold stopAll sguard
  split
  · rfl
  · have hgen : ∀ (l : List PE) (acc : Sup), (∀ e ∈ l, e.name ≠ m) →
        findPE (l.foldl (fun acc e => procGroupStop e.name acc) acc).procs m = findPE acc.procs m := by
      intro l
      induction l with
      | nil => intro acc _; rfl
      | cons x xs ih =>
        intro acc hx
        simp only [List.foldl_cons]
        rw [ih _ (fun e he => hx e (List.mem_cons_of_mem _ he))]
        exact procGroupStop_others _ _ (fun h => hx x (List.mem_cons_self ..) h.symm) _
    apply hgen
    intro e he
    apply hm
    have h1 : e ∈ sortBy (·.prio) (members s.procs gid) := by simpa using he
    exact (mem_sortBy _ _ _).mp h1

/-! ### whole runs of the daemon -/

/-- **SUPERVISOR_STATE_CHANGE_STOPPING is announced at most once in the life of the daemon**: from any
    state in which the `stopping` flag is clear and nothing has been announced, after any number of
    passes under any environments (signals, shutdown/restart RPCs, …), the notification occurs at
    most once in the output. -/
theorem stopping_announced_at_most_once (envs : List Sup.Env) (s0 : Sup) (h0 : s0.stopping = false)
    (hn : SOut.stopping ∉ s0.outs) : ((passes envs s0).outs.filter (· == SOut.stopping)).length ≤ 1 := by
  have hc0 : cntStopping s0 = 0 := by
    simp only [cntStopping, List.length_eq_zero_iff, List.filter_eq_nil_iff]
    intro o ho hb
    exact hn ((beq_iff_eq.mp hb) ▸ ho)
  have h := (fr_passes envs s0).cnt
  simp only [cntStopping] at h hc0
  omega

/-- **… and exactly when the ordered stop begins**: while the `stopping` flag is clear nothing has been
    announced; once set, the flag is never cleared. -/
theorem stopping_flag_and_announcement (envs : List Sup.Env) (s0 : Sup) (hn : SOut.stopping ∉ s0.outs) :
    ((passes envs s0).stopping = false → SOut.stopping ∉ (passes envs s0).outs) ∧
    (s0.stopping = true → (passes envs s0).stopping = true) := by
  have hc0 : cntStopping s0 = 0 := by
    simp only [cntStopping, List.length_eq_zero_iff, List.filter_eq_nil_iff]
    intro o ho hb
    exact hn ((beq_iff_eq.mp hb) ▸ ho)
  obtain ⟨h1, h2, _⟩ := fr_passes envs s0
  refine ⟨fun hf hmem => ?_, h1⟩
  rcases h2 with h2 | ⟨_, h2, _⟩
  · rw [hc0] at h2
    simp only [cntStopping, List.length_eq_zero_iff, List.filter_eq_nil_iff] at h2
    exact h2 _ hmem (by simp)
  · rw [h2] at hf; exact absurd hf (by simp)

/-- **The daemon's mood never rises over a whole run**: after any number of passes under any
    environments (any signals, any RPCs), the mood is at most what it was and still a valid mood —
    a shutdown is never turned back into a restart or into RUNNING. -/
theorem mood_never_rises_daemon (envs : List Sup.Env) (s0 : Sup) (h : moodSHUTDOWN ≤ s0.mood) :
    (passes envs s0).mood ≤ s0.mood ∧ moodSHUTDOWN ≤ (passes envs s0).mood :=
  (fr_passes envs s0).mood h

-- non-vacuity: a two-process daemon that receives SIGTERM and then SIGHUP announces STOPPING once and ends in SHUTDOWN
def cfgS : Cfg where
  startsecs := 1024
  startretries := 3
  autostart := true
  autorestart := .unexpected
  exitcodes := [0]
  stopsignal := 15
  stopwaitsecs := 10240
  stopasgroup := false
  killasgroup := false
def s2 : Sup := { procs := [{ name := 0, gid := 0, gprio := 999, prio := 999, cfg := cfgS },
                            { name := 1, gid := 1, gprio := 999, prio := 999, cfg := cfgS }] }
example : s2.stopping = false ∧ SOut.stopping ∉ s2.outs ∧ moodSHUTDOWN ≤ s2.mood := by decide
example :
    let r := passes [{ now := 1024000, spawns := [.ok 7, .ok 8], waits := [[]], sig := some 15 },
                     { now := 1025000, kills := [.ok, .ok], waits := [[]], sig := some 1 }] s2
    (r.outs.filter (· == SOut.stopping)).length = 1 ∧ r.mood = moodSHUTDOWN ∧ r.stopping = true := by decide +kernel


/-! ### why the shutdown completes: nothing postpones the escalation, and the loop exits when it can

  "It does exit provided every child dies on SIGKILL" is a liveness statement about the daemon, the
  kernel and the clock together.  What the code contributes to it is proved here as safety facts:
  a process that is being stopped is left alone by the repeated `stop_all()` of phase 1; it leaves
  STOPPING only by being reaped; its SIGKILL deadline never moves away (it is only ever lowered,
  until SIGKILL is sent, which re-arms it exactly `stopwaitsecs` ahead); at the first pass whose
  clock has reached the deadline SIGKILL is sent (`C04.sigkill_when_due`); a reaped child leaves the
  process STOPPED (`C04.stopped_whatever_status`); and the very pass that finds nothing unstopped
  exits.  The rest — that the clock reaches the deadline and that a child dies on SIGKILL — is the
  environment's side, exercised by the scenarios (monitor `shutdown-did-not-finish`). -/

/-- **Phase 1 does not disturb a process that is already being stopped**: `stop_all()`, which the loop
    calls for the head group on *every* pass of the shutdown, does nothing at all to a STOPPING
    process — in particular it does not send the stop signal again and does not re-arm the SIGKILL
    deadline. -/
theorem stop_all_skips_stopping (cfg : Cfg) (now : Int) (kr : KillRes) (p : Proc) (hs : p.state = .stopping) :
    groupStop cfg now kr { p := p } = { p := p } := by
  simp [groupStop, guard, hs]

/-- **STOPPING is left only by the reap** (or by a failed signal delivery, the UNKNOWN exception):
    a pass over a STOPPING process that holds a child keeps it STOPPING with the same child, without
    raising, whatever the clock, the mood and the environment answers. -/
theorem stopping_left_only_by_reap (cfg : Cfg) (p : Proc) (now mood : Int) (res : SpawnRes) (kr : KillRes)
    (hs : p.state = .stopping) (hpid : p.pid ≠ 0) (hk : kr ≠ .fail) :
    let r := transition cfg now mood res kr { p := p }
    r.p.state = .stopping ∧ r.p.pid = p.pid ∧ r.err = none := by
  obtain ⟨h1, h2⟩ := C04.rollback_facts cfg now p hs
  by_cases hd : (rollback cfg now p).delay ≤ now
  · have := C04.sigkill_rearms cfg p now mood res kr hs hpid (by simpa [C04.deadline] using hd) hk
    exact ⟨this.1, this.2.2.1, this.2.2.2⟩
  · cases kr <;> simp at hk <;>
      simp [transition, autoStart, toRunning, escalate, setP, guard, hs, h1, h2, hpid, hd,
        transition_a1, transition_g0, transition_g1, transition_g5, transition_g7, transition_g10, transition_g12, transition_g14,
        transition_g15, sub_le_zero_iff]

/-- **The SIGKILL deadline is never postponed**: a pass over a STOPPING process either sends nothing
    and leaves the deadline where it was or earlier (a backward clock jump can only lower it), or
    sends SIGKILL and re-arms the deadline exactly `stopwaitsecs` after this pass. -/
theorem deadline_never_postponed (cfg : Cfg) (p : Proc) (now mood : Int) (res : SpawnRes) (kr : KillRes)
    (hs : p.state = .stopping) (hpid : p.pid ≠ 0) (hw : 0 ≤ cfg.stopwaitsecs) (hd : 0 < p.delay) (hk : kr ≠ .fail) :
    let r := transition cfg now mood res kr { p := p }
    (C04.kills r.outs = [] ∧ r.p.delay ≤ p.delay) ∨
    (C04.kills r.outs = [.kill (C04.target cfg.killasgroup p.pid) sigKILL] ∧ r.p.delay = now + cfg.stopwaitsecs) := by
  obtain ⟨h1, h2⟩ := C04.rollback_facts cfg now p hs
  have hb := C04.rollback_bounded cfg p now hs hw hd
  by_cases hdue : C04.deadline cfg now p ≤ now
  · right
    refine ⟨by rw [C04.sigkill_iff_due cfg p now mood res kr hs hpid, if_pos hdue], ?_⟩
    exact (C04.sigkill_rearms cfg p now mood res kr hs hpid hdue hk).2.1
  · left
    refine ⟨by rw [C04.sigkill_iff_due cfg p now mood res kr hs hpid, if_neg hdue], ?_⟩
    have hd' : ¬ (rollback cfg now p).delay ≤ now := by simpa [C04.deadline] using hdue
    have : (transition cfg now mood res kr { p := p }).p.delay = (rollback cfg now p).delay := by
      cases kr <;> simp at hk <;>
        simp [transition, autoStart, toRunning, escalate, setP, guard, hs, h1, h2, hpid, hd',
          transition_a1, transition_g0, transition_g1, transition_g5, transition_g7, transition_g10, transition_g12, transition_g14,
          transition_g15, sub_le_zero_iff]
    rw [this]
    exact hb.2

/-- **The loop exits as soon as it can**: the exit test of a pass that finds no process outside the
    stopped states raises `ExitNow` in that very pass. -/
theorem exits_when_all_stopped (s : Sup) (he : s.err = none) (hx : s.exited = false) (h : anyUnstopped s = false) :
    (exitTest s).exited = true ∧ (exitTest s).outs = s.outs ++ [.exitNow] := by
  simp [exitTest, sguard, he, hx, h]

-- non-vacuity: a process stopped at 5000 (deadline 15240): a pass at 6000 sends nothing and keeps the deadline;
-- the pass at 15240 sends SIGKILL and re-arms; reaping it then leaves it STOPPED
example : let p1 := (stop C04.cfg0 5000 .ok { p := C04.p0 }).p
    p1.state = .stopping ∧ p1.delay = 15240 ∧
    (transition C04.cfg0 6000 (-1) (.ok 0) .ok { p := p1 }).p.delay = 15240 ∧
    (transition C04.cfg0 15240 (-1) (.ok 0) .ok { p := p1 }).p.delay = 25480 ∧
    (finish C04.cfg0 15300 (-1) false { p := (transition C04.cfg0 15240 (-1) (.ok 0) .ok { p := p1 }).p }).p.state = .stopped := by
  decide +kernel

end Sv.Props.C05
