"""
C16 -- log retrieval returns exactly the requested bytes.
Correspondence: real options.readFile / options.tailFile on real files vs Model/LogRead.lean.
Monitor: the property's own statement (slice arithmetic) evaluated on the implementation's answers.
"""
import os
from framework import Infra

ID = 'C16'
LEAN_PROPS = 'SupervisorModel.Props.C16'
DRIVER = 'drv_c16'
GENERATED = ['LogRead']
TRUSTED = [
    "modelled, not verified: Python file objects (seek/tell/read on a regular file = drop/take on a byte list)",
    "offsets/lengths beyond 64 bits (f.seek OverflowError) are outside the model; XML-RPC carries 32-bit integers",
]
ASSUMPTIONS = ["the log file is not modified during one readFile/tailFile call"]
RULE = ("cases = (file content, offset, length) triples: exhaustive small grid [-6,12]^2 over sizes 0..8 plus "
        "random 32-bit values and content classes (ascii, binary, multi-byte UTF-8); a case is non-trivial "
        "when the file is non-empty; distinct = distinct (content-hash, offset, length, op)")


def hexs(b):
    return b.hex() if b else '-'


def spec_read(f, off, ln):
    """the property statement for readLog"""
    if off < 0:
        return 'err BAD_ARGUMENTS' if ln != 0 else 'ok ' + hexs(f[max(0, len(f) + off):])
    if ln < 0:
        return 'err BAD_ARGUMENTS'
    return 'ok ' + hexs(f[off:] if ln == 0 else f[off:off + ln])


def spec_tail(f, off, ln):
    sz = len(f)
    n = max(0, min(ln, sz))
    data = b'' if off >= sz else f[sz - n:]
    return 'ok %s %d %d' % (hexs(data), sz, 1 if sz > off + ln else 0)


def impl_lines(path, content, ops):
    from supervisor import options
    out = []
    for op, off, ln in ops:
        if op == 'read':
            try:
                d = options.readFile(path, off, ln)
                out.append('ok ' + hexs(d))
            except ValueError as e:
                out.append('err ' + str(e.args[0]))
        else:
            # tailFile decodes its data; compare bytes, so re-read through the raw window
            try:
                d, o, ov = options.tailFile(path, off, ln)
                if isinstance(d, str):
                    d = d.encode('utf-8')
                out.append('ok %s %d %d' % (hexs(d), o, 1 if ov else 0))
            except UnicodeDecodeError:
                out.append('exc UnicodeDecodeError')
    return out


def gen_content(rng, n):
    kind = rng.randrange(3)
    if kind == 0:
        return bytes(rng.choice(b'abcxyz\n') for _ in range(n))
    if kind == 1:
        return ('é€x' * n).encode()[:n] if n else b''
    return bytes(rng.randrange(256) for _ in range(n))


def run(ctx):
    rng = ctx.rng
    cases, impls = [], []
    path = os.path.join(ctx.scratch, 'log')
    def one(content, ops):
        with open(path, 'wb') as f:
            f.write(content)
        il = impl_lines(path, content, ops)
        for (op, off, ln), line in zip(ops, il):
            want = (spec_read if op == 'read' else spec_tail)(content, off, ln)
            ctx.count('op:' + op); ctx.count('answer:' + line.split()[0] + (':' + line.split()[1] if line.startswith('err') else ''))
            ctx.case_done((content, op, off, ln), nontrivial=len(content) > 0)
            if line != want:
                kind = 'decode-error' if line.startswith('exc') else 'wrong-window'
                ctx.violation(kind + ':' + op, 'required %s, observed %s' % (want, line),
                              {'content_hex': hexs(content), 'op': op, 'offset': off, 'length': ln})
        cases.append(('case logread file=' + hexs(content), ['%s %d %d' % o for o in ops]))
        impls.append(il)
    # exhaustive small grid (ASCII content so that tailFile's text conversion is the identity)
    top = 6 if ctx.tier == 'quick' else 9
    for sz in range(0, top):
        content = bytes(97 + i for i in range(sz))
        ops = [(op, off, ln) for op in ('read', 'tail') for off in range(-6, 13) for ln in range(-6, 13)]
        one(content, ops)
    # random: 32-bit values and edge values, binary content only for `read` (bytes API)
    edges = [0, 1, -1, 2**31 - 1, -2**31, 2**31 - 2]
    for _ in range(ctx.n(150, 3000)):
        sz = rng.choice([0, 1, 2, 3, 5, 8, 13, 64, 200])
        content = gen_content(rng, sz)
        ascii_only = all(c < 128 for c in content)
        ops = []
        for _ in range(8):
            def val():
                r = rng.random()
                if r < 0.5: return rng.randrange(-3, sz + 4)
                if r < 0.7: return rng.choice(edges)
                return rng.randrange(-2**31, 2**31)
            op = rng.choice(['read', 'tail']) if ascii_only else 'read'
            ops.append((op, val(), val()))
        one(content, ops)
    ctx.sample({'case': cases[3][0], 'ops': cases[3][1][:5], 'impl': impls[3][:5]})
    ctx.sample({'case': cases[-1][0], 'ops': cases[-1][1][:3], 'impl': impls[-1][:3]})
    ctx.correspond('logread', cases, impls)

# ---- MANIFEST metadata -----------------------------------------------------------------------
TECHNIQUE = "Lean 4 theorems over a model whose comparisons/offset arithmetic are regenerated from options.py; differential correspondence against the real functions"
LEVEL_TEXT = ("readFile_spec and tailFile_spec are proved for every file content and every integer offset/length "
              "(no bound); the definitions they unfold are regenerated from /repo on each run, and the model is run "
              "against the real functions on an exhaustive small grid plus random 32-bit values")
LEVEL_NOTE = "trusts Lean's kernel, extract.py's expression translation, Python file-object semantics; text decoding and HTTP streaming parts: see DESIGN.md C16"
DESIGN_REF = "DESIGN.md section 6, C16"
