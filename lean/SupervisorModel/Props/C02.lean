import SupervisorModel.Lemmas.SupLemmas
/-
  C02 — every child is tracked and reaped once; reported state and live child agree.

  Per process (Model/Proc*.lean, guards regenerated from process.py) and for the daemon's reap
  loop and `pidhistory` (Model/Sup.lean, guards regenerated from supervisord.py).  The daemon
  model is checked pass by pass against the unmodified `runforever()` over a simulated kernel.
-/
set_option linter.unusedSimpArgs false
set_option linter.unusedVariables false
namespace Sv.Props.C02
open Sv Sv.Proc Sv.Gen.Proc Sv.Sup Sv.Gen.Sup

/-- **Reported state and held child agree, after every history.**  From the initial state, after any
    sequence of operations (passes, reaps, start/stop/signal requests, group stops — any clock
    readings, any environment answers, fork returning a non-zero pid): the process is STARTING,
    RUNNING or STOPPING only while it holds a child (`pid ≠ 0`), holds none in STOPPED, BACKOFF,
    EXITED and FATAL (UNKNOWN excepted), and `killing` is set exactly during a stop. -/
theorem state_pid_agree (cfg : Cfg) (ops : List Op) (hw : ∀ op ∈ ops, wfOp op) :
    Inv (run cfg { p := {} } ops).p :=
  run_inv cfg ops { p := {} } hw inv_init

/-- **A second child is never forked for a process that still has one** -/
theorem no_fork_with_child (cfg : Cfg) (p : Proc) (now mood : Int) (res : SpawnRes) (kr : KillRes) (hp : p.pid ≠ 0) :
    forks (transition cfg now mood res kr { p := p }).outs = [] :=
  transition_no_fork_with_child cfg p now mood res kr hp

/-- … nor by a start request: with a child the process is STARTING/RUNNING/STOPPING (or UNKNOWN), for
    which `startProcess` answers a fault without calling spawn -/
theorem start_request_no_fork_with_child (cfg : Cfg) (p : Proc) (now mood : Int) (res : SpawnRes) (hi : Inv p) (hp : p.pid ≠ 0) :
    forks (rpcStart cfg now mood res { p := p }).outs = [] := by
  have hst : p.state = .starting ∨ p.state = .running ∨ p.state = .stopping ∨ p.state = .unknown := by
    cases hs : p.state <;> simp <;> (exfalso; apply hp; apply hi.dead; simp [hs])
  have href : ∃ c, startRefusal p (res == .badCmd) = some c := by
    rcases hst with hs | hs | hs | hs <;> simp [startRefusal, hs, runningStates] <;> (repeat' split) <;> simp
  obtain ⟨c, hc⟩ := href
  simp only [rpcStart, guard, Option.isSome_none, Bool.false_eq_true, if_false, hc, answer, emit]
  split <;> simp [forks]

/-- **A fork is recorded**: a successful spawn leaves the process STARTING with exactly the pid fork returned -/
theorem fork_registers (cfg : Cfg) (p : Proc) (now pid : Int)
    (hs : p.state = .stopped ∨ p.state = .exited ∨ p.state = .fatal ∨ p.state = .backoff) (hp : p.pid = 0) (hpid : pid ≠ 0) :
    let r := spawn cfg now (.ok pid) { p := p }
    r.p.pid = pid ∧ r.p.state = .starting ∧ forks r.outs = [.fork pid] ∧ r.err = none := by
  rcases hs with hs | hs | hs | hs <;> simp [procdefs, hs, hp, hpid, forks]

theorem finishCore_pid (cfg : Cfg) (e : Proc.Env) (busy : Bool) (p : Proc) (os : List Out) :
    (finishCore cfg e busy { p := p, outs := os }).err = none → (finishCore cfg e busy { p := p, outs := os }).p.pid = 0 := by
  cases hs : p.state <;> cases busy <;> cases hk : p.killing <;> cases ht : e.tooQuickly <;> cases hx : e.exitExpected <;>
    simp [procdefs, hs, hk, ht, hx]

/-- **A reaped child is released**: after `finish()` the process holds no child and is not reported
    in a state that needs one — whatever the exit status, the clock and the state it was in
    (including UNKNOWN, fix F9), and without raising. -/
theorem reap_clears (cfg : Cfg) (p : Proc) (now es : Int) (busy : Bool) (hi : Inv p) (hp : p.pid ≠ 0) (hw : 0 ≤ cfg.startsecs) :
    let r := finish cfg now es busy { p := p }
    r.p.pid = 0 ∧ r.err = none ∧ ¬ (r.p.state = .starting ∨ r.p.state = .running ∨ r.p.state = .stopping) := by
  have hok := finish_ok [] cfg p now es busy hi hp hw
  have hinv := finish_inv cfg now es busy { p := p } hi
  have hpid : (finish cfg now es busy { p := p }).p.pid = 0 := by
    simp only [finish, guard, setP, Option.isSome_none, Bool.false_eq_true, if_false] at hok ⊢
    exact finishCore_pid _ _ _ _ _ hok
  refine ⟨hpid, hok, ?_⟩
  intro hl
  exact hinv.live hl hpid

/-- **Unknown pids are harmless**: a pid `waitpid` returns that supervisord never forked changes no
    process and no bookkeeping; it is only logged -/
theorem foreign_pid_harmless (k : Int) (pid es : Int) (s : Sup) (hk : k ≠ 100) (hp : pid ≠ 0)
    (hun : s.pidhist.lookup pid = none) (he : s.err = none) (hx : s.exited = false) :
    (reapLoop k [(pid, es)] s).procs = s.procs ∧ (reapLoop k [(pid, es)] s).pidhist = s.pidhist ∧
    (reapLoop k [(pid, es)] s).outs = s.outs ++ [.reapedUnknown pid] :=
  reap_unknown_pid k pid es s hk hp hun he hx

/-- **At most 100 per invocation** (the recursion guard), for any number of exited children -/
theorem reap_bound (ws : List (Int × Int)) (s : Sup) :
    reapLoop 0 ws s = reapLoop 0 (ws.take 100) s := by
  simpa using Sv.Sup.reap_bound ws s 0 (by omega)

/-- **An exit is attributed to the process recorded at fork time and to no other**: reaping pid
    changes only the process `pidhistory` maps it to -/
theorem reap_only_owner (pid es : Int) (name : Nat) (s : Sup) (hl : s.pidhist.lookup pid = some name)
    (he : s.err = none) (hx : s.exited = false) (hp : pid ≠ 0) :
    ∀ m, m ≠ name → findPE (reapLoop 0 [(pid, es)] s).procs m = findPE s.procs m := by
  intro m hm
  have h1 := onProc_others name (fun cfg => finish cfg s.env.now es false) s m hm
  simp only [reapLoop, sguard, he, hx, reap_g0, reap_g1, hl]
  simp [hp]
  split
  · exact h1
  · exact h1

-- non-vacuity: the burst case of the quantifier (130 exited children, none known)
example : (reapLoop 0 ((List.range 130).map fun (i : Nat) => (((i : Int) + 1000), (0 : Int))) { procs := [] }).outs.length = 100 := by
  decide +kernel

end Sv.Props.C02
