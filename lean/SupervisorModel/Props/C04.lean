import SupervisorModel.Model.ProcOps
import SupervisorModel.Lemmas.ProcDefs
/-
  C04 — stop requests: right signal, right target, bounded escalation, final.
  All theorems are about `Sv.Proc` (Model/Proc.lean, Model/ProcOps.lean) whose guards, timers,
  asserted state lists and call arguments are regenerated from supervisor/process.py.
-/
set_option linter.unusedSimpArgs false
set_option linter.unusedVariables false
namespace Sv.Props.C04
open Sv Sv.Proc Sv.Gen.Proc

theorem rollback_facts (cfg : Cfg) (now : Int) (p : Proc) (hs : p.state = .stopping) :
    (rollback cfg now p).state = .stopping ∧ (rollback cfg now p).pid = p.pid := by
  simp only [rollback, rollback_g0, rollback_g3, rollback_g5, hs]
  simp
  repeat' split
  all_goals simp_all

/-- the signal target: the child, or its whole process group (negative pid) -/
def target (asgroup : Bool) (pid : Int) : Int := if asgroup then -pid else pid

/-- **Stop request with a live child** (state STARTING or RUNNING, pid ≠ 0), through the RPC or a
    group stop: exactly one signal is delivered, it is the configured stopsignal, to the child or —
    exactly when stopasgroup — to its process group; the process is STOPPING (unless delivery
    failed for another reason than the child being gone) and the SIGKILL deadline is
    now + stopwaitsecs. -/
theorem stop_signals_once (cfg : Cfg) (p : Proc) (now : Int) (kr : KillRes)
    (hst : p.state = .starting ∨ p.state = .running) (hpid : p.pid ≠ 0) :
    let r := stop cfg now kr { p := p }
    r.outs.filter (fun o => match o with | .kill .. => true | _ => false)
        = [.kill (target cfg.stopasgroup p.pid) cfg.stopsignal] ∧
    r.err = none ∧
    (kr ≠ .fail → r.p.state = .stopping ∧ r.p.killing = true ∧ r.p.delay = now + cfg.stopwaitsecs ∧ r.p.pid = p.pid) := by
  rcases hst with hs | hs <;> cases kr <;> cases hg : cfg.stopasgroup <;>
    simp [procdefs, hs, hpid, hg, target, signallableStates]

/-- the same through the RPC front door (mood RUNNING): the answer is a success unless delivery failed -/
theorem rpcStop_signals_once (cfg : Cfg) (p : Proc) (now mood : Int) (kr : KillRes)
    (hm : ¬ mood < moodRUNNING)
    (hst : p.state = .starting ∨ p.state = .running) (hpid : p.pid ≠ 0) :
    let r := rpcStop cfg now mood kr { p := p }
    r.outs.filter (fun o => match o with | .kill .. => true | _ => false)
        = [.kill (target cfg.stopasgroup p.pid) cfg.stopsignal] ∧
    (kr ≠ .fail → r.p.state = .stopping ∧ r.outs.getLast? = some (.answer faultSUCCESS)) := by
  simp only [moodRUNNING] at hm
  rcases hst with hs | hs <;> cases kr <;> cases hg : cfg.stopasgroup <;>
    simp [procdefs, hs, hpid, hg, hm, target, signallableStates, runningStates]

def kills (outs : List Out) : List Out := outs.filter (fun o => match o with | .kill .. => true | _ => false)

/-- the SIGKILL deadline after the clock-rollback adjustment `transition()` applies first -/
def deadline (cfg : Cfg) (now : Int) (p : Proc) : Int := (rollback cfg now p).delay

theorem deadline_eq (cfg : Cfg) (now : Int) (p : Proc) (hs : p.state = .stopping) :
    deadline cfg now p =
      if 0 < p.delay ∧ now < p.delay - cfg.stopwaitsecs then now + cfg.stopwaitsecs else p.delay := by
  simp [deadline, procdefs, hs]
  repeat' split
  all_goals simp_all

/-- **Escalation, exactly.**  A main-loop pass over a STOPPING process with a live child delivers
    SIGKILL — to the process group exactly when killasgroup — if and only if the (adjusted) deadline
    has been reached; it delivers nothing else. -/
theorem sigkill_iff_due (cfg : Cfg) (p : Proc) (now mood : Int) (res : SpawnRes) (kr : KillRes)
    (hs : p.state = .stopping) (hpid : p.pid ≠ 0) :
    kills (transition cfg now mood res kr { p := p }).outs =
      if deadline cfg now p ≤ now then [.kill (target cfg.killasgroup p.pid) sigKILL] else [] := by
  have hr := rollback_facts cfg now p hs
  obtain ⟨h1, h2⟩ := hr
  cases kr <;> cases hg : cfg.killasgroup <;> by_cases hd : (rollback cfg now p).delay ≤ now <;>
    simp [deadline, hd] <;>
    simp [transition, autoStart, toRunning, escalate, kill, changeState, assertIn, emit, setP, guard, kills, target,
      transition_a1, transition_g0, transition_g1, transition_g5, transition_g7, transition_g10, transition_g12, transition_g14,
      transition_g15, transition_c2_0, kill_g0, kill_g1, kill_g2, kill_g4, kill_a7, kill_a8, kill_a11, kill_a12, kill_a13,
      kill_a14, kill_a19, kill_a20, kill_c1, kill_c2_0, kill_c3_0, kill_c3_1, kill_c4_0, change_state_g0, change_state_g1,
      change_state_a0, change_state_a2, announces_all, hs, h1, h2, hpid, hg, hd, sub_le_zero_iff]

/-- never before the deadline: with a positive stopwaitsecs and the deadline still ahead, a pass
    delivers no signal at all -/
theorem sigkill_not_early (cfg : Cfg) (p : Proc) (now mood : Int) (res : SpawnRes) (kr : KillRes)
    (hs : p.state = .stopping) (hpid : p.pid ≠ 0) (hw : 0 < cfg.stopwaitsecs) (hnow : now < p.delay) :
    kills (transition cfg now mood res kr { p := p }).outs = [] := by
  rw [sigkill_iff_due cfg p now mood res kr hs hpid, deadline_eq cfg now p hs]
  repeat' split
  all_goals first | rfl | omega

/-- at or after the deadline the very next pass delivers SIGKILL -/
theorem sigkill_when_due (cfg : Cfg) (p : Proc) (now mood : Int) (res : SpawnRes) (kr : KillRes)
    (hs : p.state = .stopping) (hpid : p.pid ≠ 0) (hw : 0 ≤ cfg.stopwaitsecs) (hnow : p.delay ≤ now) :
    kills (transition cfg now mood res kr { p := p }).outs = [.kill (target cfg.killasgroup p.pid) sigKILL] := by
  rw [sigkill_iff_due cfg p now mood res kr hs hpid, deadline_eq cfg now p hs]
  repeat' split
  all_goals first | rfl | omega

/-- and re-arms the deadline, so consecutive SIGKILLs are stopwaitsecs apart -/
theorem sigkill_rearms (cfg : Cfg) (p : Proc) (now mood : Int) (res : SpawnRes) (kr : KillRes)
    (hs : p.state = .stopping) (hpid : p.pid ≠ 0) (hd : deadline cfg now p ≤ now) (hk : kr ≠ .fail) :
    let r := transition cfg now mood res kr { p := p }
    r.p.state = .stopping ∧ r.p.delay = now + cfg.stopwaitsecs ∧ r.p.pid = p.pid ∧ r.err = none := by
  obtain ⟨h1, h2⟩ := rollback_facts cfg now p hs
  simp only [deadline] at hd
  cases kr <;> simp at hk <;>
    simp [transition, autoStart, toRunning, escalate, kill, changeState, assertIn, emit, setP, guard,
      transition_a1, transition_g0, transition_g1, transition_g5, transition_g7, transition_g10, transition_g12, transition_g14,
      transition_g15, transition_c2_0, kill_g0, kill_g1, kill_g2, kill_g4, kill_a7, kill_a8, kill_a11, kill_a12, kill_a13,
      kill_a14, kill_a19, kill_a20, kill_c1, kill_c2_0, kill_c3_0, kill_c3_1, kill_c4_0, change_state_g0, change_state_g1,
      change_state_a0, change_state_a2, announces_all, hs, h1, h2, hpid, hd, sub_le_zero_iff]

/-- **A backward clock jump never postpones the escalation beyond stopwaitsecs after the jump**:
    whatever the old deadline was, after the adjustment every pass (and every stop_report) makes,
    the deadline is at most now + stopwaitsecs. -/
theorem rollback_bounded (cfg : Cfg) (p : Proc) (now : Int) (hs : p.state = .stopping)
    (hw : 0 ≤ cfg.stopwaitsecs) (hd : 0 < p.delay) :
    deadline cfg now p ≤ now + cfg.stopwaitsecs ∧ deadline cfg now p ≤ p.delay := by
  rw [deadline_eq cfg now p hs]
  split <;> omega

/-- **Final.**  When the child of a process being stopped is reaped the process is STOPPED, whatever
    the exit status, however long it ran. -/
theorem stopped_whatever_status (cfg : Cfg) (p : Proc) (now es : Int) (busy : Bool)
    (hs : p.state = .stopping) (hk : p.killing = true) :
    let r := finish cfg now es busy { p := p }
    r.p.state = .stopped ∧ r.p.pid = 0 ∧ r.p.killing = false ∧ r.err = none := by
  have h1 : (rollback cfg now p).state = .stopping := (rollback_facts cfg now p hs).1
  have h3 : (rollback cfg now p).killing = true := by
    simp only [rollback, rollback_g0, rollback_g3, rollback_g5, hs]; simp
    repeat' split
    all_goals simp_all
  cases busy <;>
    simp [finish, finishCore, changeState, assertIn, emit, setP, guard, finish_g1, finish_g2, finish_a7, finish_a8, finish_a9, finish_a2, finish_a11, finish_a12, finish_a13,
      finish_a24, finish_c0, finish_c1_0, change_state_g0, change_state_g1, change_state_a0, change_state_a2, announces_all,
      h1, h3]

/-- **A stopped process is never restarted on its own**: no pass forks a child for a STOPPED process
    that has been started before, whatever autostart/autorestart say. -/
theorem no_restart_after_stop (cfg : Cfg) (p : Proc) (now mood : Int) (res : SpawnRes) (kr : KillRes)
    (hs : p.state = .stopped) (hl : p.laststart ≠ 0) :
    transition cfg now mood res kr { p := p } = { p := p } := by
  have hr : rollback cfg now p = p := by simp [rollback, rollback_g0, rollback_g3, rollback_g5, rollback_g8, hs]
  simp [transition, autoStart, toRunning, escalate, setP, guard, hr, hs, hl,
      transition_a1, transition_g0, transition_g1, transition_g5, transition_g7, transition_g10, transition_g12, transition_g14]

/-- **Stop during BACKOFF cancels the pending retry immediately**: STOPPED in the same operation,
    no signal. -/
theorem stop_in_backoff_immediate (cfg : Cfg) (p : Proc) (now mood : Int) (kr : KillRes)
    (hm : ¬ mood < moodRUNNING) (hs : p.state = .backoff) :
    let r := rpcStop cfg now mood kr { p := p }
    r.p.state = .stopped ∧ kills r.outs = [] ∧ r.err = none ∧ r.p.laststart = p.laststart := by
  simp only [moodRUNNING] at hm
  cases kr <;> simp [procdefs, hs, hm, kills, runningStates]

/-- a child that exited on its own just before the signal (ESRCH): nothing but the attempt happens;
    the state stays STOPPING until the exit is reaped -/
theorem esrch_is_quiet (cfg : Cfg) (p : Proc) (now : Int) (hst : p.state = .starting ∨ p.state = .running)
    (hpid : p.pid ≠ 0) :
    stop cfg now .esrch { p := p } = stop cfg now .ok { p := p } := by
  rcases hst with hs | hs <;> simp [procdefs, hs, hpid]

/-! ### the stop request of a shutdown: `group.stop_all()`, issued again on every main-loop pass

  While supervisord shuts down or restarts, `runforever()` calls `stop_all()` of the group being stopped
  at the top of *every* pass — so most of these calls find the member already STOPPING.  Which member
  states `stop_all()` acts on is read from the source (`stop_all_g0..g2`: the arms of its `if`/`elif`
  chain, regenerated from process.py on every run). -/

/-- `ProcessGroupBase.stop_all` for one member, written over the arms found in the source -/
def groupStopSrc (cfg : Cfg) (now : Int) (kr : KillRes) : S → S := guard fun s =>
  let e : Env := { now := now }
  if stop_all_g0 s.p cfg e then stop cfg now kr s
  else if stop_all_g1 s.p cfg e then stop cfg now kr s
  else if stop_all_g2 s.p cfg e then giveUp cfg now s
  else s

/-- the arms of `stop_all()` in the source are: RUNNING, STARTING (both `proc.stop()`), BACKOFF (`give_up()`) -/
theorem stop_all_arms (p : Proc) (cfg : Cfg) (e : Env) :
    stop_all_g0 p cfg e = (p.state == .running) ∧ stop_all_g1 p cfg e = (p.state == .starting) ∧
    stop_all_g2 p cfg e = (p.state == .backoff) := by
  cases hs : p.state <;> simp [stop_all_g0, stop_all_g1, stop_all_g2, hs]

/-- the model's group stop (the `groupstop` operation of the correspondence, and what the daemon model
    `Sup.stopAll` applies to every member) is the source's `stop_all()` -/
theorem groupStop_eq_src (cfg : Cfg) (now : Int) (kr : KillRes) (s : S) :
    groupStop cfg now kr s = groupStopSrc cfg now kr s := by
  cases hs : s.p.state <;> simp [groupStop, groupStopSrc, guard, stop_all_g0, stop_all_g1, stop_all_g2, hs]

/-- **A repeated group stop is not a new stop request**: `stop_all()` on a member that is already
    STOPPING does nothing at all — no signal (so the stopsignal is delivered once per request, and never
    to the killasgroup target), and the SIGKILL deadline, `killing` and the stop-report clock stay as
    they are. -/
theorem group_stop_skips_stopping (cfg : Cfg) (now : Int) (kr : KillRes) (s : S) (hs : s.p.state = .stopping) :
    groupStopSrc cfg now kr s = s := by
  simp [groupStopSrc, guard, stop_all_g0, stop_all_g1, stop_all_g2, hs]

/-- **Shutdown passes never postpone the escalation**: a pass of the main loop in a shutdown — the
    group-wide `stop_all()` (at any clock reading, with any delivery result) followed by `transition()` —
    treats a STOPPING member exactly like a pass without the `stop_all()`; hence `sigkill_iff_due`,
    `sigkill_when_due` and `sigkill_not_early` hold for shutdown passes with the deadline of the one
    original request. -/
theorem shutdown_pass_eq_pass (cfg : Cfg) (p : Proc) (now0 now mood : Int) (res : SpawnRes) (kr0 kr : KillRes)
    (hs : p.state = .stopping) :
    transition cfg now mood res kr (groupStop cfg now0 kr0 { p := p }) = transition cfg now mood res kr { p := p } := by
  rw [groupStop_eq_src, group_stop_skips_stopping cfg now0 kr0 { p := p } hs]

/-- any number of group stops while STOPPING, at any clock readings: the process is untouched, nothing is emitted -/
theorem repeated_group_stop_inert (cfg : Cfg) (p : Proc) (hs : p.state = .stopping) (calls : List (Int × KillRes)) :
    calls.foldl (fun s c => groupStop cfg c.1 c.2 s) { p := p } = { p := p } := by
  induction calls with
  | nil => rfl
  | cons c cs ih =>
    simp only [List.foldl_cons]
    rw [groupStop_eq_src, group_stop_skips_stopping cfg c.1 c.2 { p := p } hs]
    exact ih

/-- a group stop of a live member *is* a stop request: same signal, same target, same deadline as `stop()` -/
theorem group_stop_is_stop (cfg : Cfg) (p : Proc) (now : Int) (kr : KillRes)
    (hst : p.state = .starting ∨ p.state = .running) :
    groupStop cfg now kr { p := p } = stop cfg now kr { p := p } := by
  rw [groupStop_eq_src]
  rcases hst with hs | hs <;> simp [groupStopSrc, guard, stop_all_g0, stop_all_g1, stop_all_g2, hs]


-- non-vacuity: a concrete RUNNING process, stopped, not yet due, then due
def cfg0 : Cfg where
  startsecs := 1024
  startretries := 3
  autostart := true
  autorestart := .unexpected
  exitcodes := [0]
  stopsignal := 15
  stopwaitsecs := 10240
  stopasgroup := false
  killasgroup := true
def p0 : Proc := { state := .running, pid := 42, laststart := 1000 }
example : (stop cfg0 5000 .ok { p := p0 }).outs = [.ev .stopping .running 42 0 true, .kill 42 15] := by decide +kernel
example : kills (transition cfg0 6000 1 (.ok 9) .ok { p := (stop cfg0 5000 .ok { p := p0 }).p }).outs = [] := by decide +kernel
example : kills (transition cfg0 15240 1 (.ok 9) .ok { p := (stop cfg0 5000 .ok { p := p0 }).p }).outs = [.kill (-42) 9] := by decide +kernel
-- a shutdown: stop_all at 5000 (the request), again at 6000 and 15240 (ignored), the pass at 15240 escalates
example : kills (groupStop cfg0 5000 .ok { p := p0 }).outs = [.kill 42 15] := by decide +kernel
example : kills (transition cfg0 15240 (-1) (.ok 9) .ok (groupStop cfg0 15240 .ok (groupStop cfg0 6000 .ok { p := (groupStop cfg0 5000 .ok { p := p0 }).p }))).outs
    = [.kill (-42) 9] := by decide +kernel

end Sv.Props.C04
