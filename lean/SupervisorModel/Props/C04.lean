-- stub: replaced by the property author
namespace Sv.Props.C04
end Sv.Props.C04
