import SupervisorModel.Basic.DriverKit
import SupervisorModel.Model.Rotate
import SupervisorModel.Model.LogFan
def main : IO Unit := Sv.driverMain [("rotate", Sv.Rotate.runCase), ("logfan", Sv.LogFan.runCase)]
