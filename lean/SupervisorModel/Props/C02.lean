-- stub: replaced by the property author
namespace Sv.Props.C02
end Sv.Props.C02
