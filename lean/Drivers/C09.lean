import SupervisorModel.Basic.DriverKit
import SupervisorModel.Model.Pool
def main : IO Unit := Sv.driverMain [("pool", Sv.Pool.runCase)]
