import SupervisorModel.Basic.Bytes
import SupervisorModel.Basic.St
import SupervisorModel.Basic.DriverKit
import SupervisorModel.Audit
import SupervisorModel.Model.LogRead
import SupervisorModel.Props.C16
