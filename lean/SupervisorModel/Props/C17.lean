import SupervisorModel.Model.Auth
set_option linter.unusedSimpArgs false
namespace Sv.Props.C17
open Sv Sv.Auth Sv.Gen.Auth

/-- every handler installed on a server is wrapped in `supervisor_auth_handler` when a username is set -/
theorem all_handlers_wrapped : ∀ h ∈ installed, h ∈ wrapped_when_auth := by decide

end Sv.Props.C17
