import SupervisorModel.Lemmas.Ctl
/-
  Specification predicates of C20 (what counts as a refused/failed request, which calls the partial theorem
  excludes) and, per action of Model/Ctl, the proof that the action is `SafeP` for them.
  The predicates are restated in Props/C20.lean (`*_def` theorems, by `rfl`).
-/
set_option linter.unusedSimpArgs false
set_option linter.unusedVariables false
namespace Sv.Ctl.Spec
open Sv Sv.Ctl Sv.Gen.Ctl

def toleratedCode (meth : String) : Option Int :=
  if meth = "startProcess" ∨ meth = "startProcessGroup" ∨ meth = "startAllProcesses" then some Faults_ALREADY_STARTED
  else if meth = "stopProcess" ∨ meth = "stopProcessGroup" ∨ meth = "stopAllProcesses" then some Faults_NOT_RUNNING
  else if meth = "addProcessGroup" then some Faults_ALREADY_ADDED
  else if meth = "shutdown" then some Faults_SHUTDOWN_STATE
  else none

def listMethods : List String :=
  ["startProcessGroup", "startAllProcesses", "stopProcessGroup", "stopAllProcesses", "signalProcessGroup",
   "signalAllProcesses", "clearAllProcessLogs"]

def refused (c : Call) : Bool :=
  match c.ans with
  | .proto _ => true
  | .sock _ => true
  | .fault code _ => code != Faults_SUCCESS && (listMethods.contains c.meth || some code != toleratedCode c.meth)
  | .ok (.results rs) => rs.any fun r => r.status != Faults_SUCCESS && some r.status != toleratedCode c.meth
  | .ok (.str api) => c.meth == "getVersion" && api != API_VERSION
  | .ok (.int _) => c.meth == "GET"
  | .ok _ => false

/-- the call predicate of the theorem: the request was not refused (the action is a parameter only because the
    per-action lemmas were first written for a predicate that depended on it) -/
def okP (_a : Action) (c : Call) : Bool := !refused c

macro "spec_simp" "at" h:ident : tactic =>
  `(tactic| simp [okP, refused, toleratedCode, listMethods] at $h:ident)

/-- a straight-line handler: safe, and dirty when the call is not ok -/
macro "handler" : tactic => `(tactic| (
  refine ⟨fun s hc => ?_, fun hok s hc => ?_⟩
  · revert hc; dsimp only
    repeat' split
    all_goals simp (disch := nz) [clean_setExit]
    all_goals exact fun h => ⟨h, fun _ hc => Or.inl hc⟩
  · revert hc; dsimp only
    simp [okP, refused, toleratedCode, listMethods] at hok
    repeat' split
    all_goals simp (disch := nz) [clean_setExit]
    all_goals simp_all [ctl_gen]))


theorem step_ok {ok : Call → Bool} {c : Call} {k : S → S} (hs : Safe ok k) (hok : ok c = true) : Step ok True c k :=
  ⟨hs, fun h => by simp_all⟩

theorem results_bad {a : Action} {m : String} {args : List String} {ign : Option Int} {rs : List Res}
    (hm : a ≠ .update ∨ m ≠ "stopProcessGroup") (hg : m ≠ "GET")
    (hign : ign = toleratedCode m)
    (h : okP a ⟨m, args, .ok (.results rs)⟩ = false) : ∃ r ∈ rs, onIgn setexit_g0 r.status ign = false := by
  simp [okP, refused] at h
  obtain ⟨r, hr, h1, h2⟩ := h
  refine ⟨r, hr, ?_⟩
  subst hign
  simp [ctl_gen] at h1 ⊢
  exact ⟨h2, h1⟩

/-- the fault continuation of a single-name request: `output(_xresult(error)); set_exitstatus(code, ign)` -/
theorem step_printOne {a : Action} {m : String} {args : List String} {line : LineFn} {ign : Option Int}
    {g : String} {p : Option String} (hl : m ∉ listMethods) (hg : m ≠ "GET")
    (hign : ign = toleratedCode m) (c : Int) (t : String) :
    Step (okP a) True ⟨m, args, .fault c t⟩ (printOne line ign g p c t) := by
  refine ⟨safe_printOne _ _ _ _ _ _ _, fun hok => dirty_printOne ?_⟩
  simp [okP, refused, hl] at hok
  subst hign
  simp [ctl_gen] at hok ⊢
  exact ⟨hok.2, hok.1⟩

/-! ### add / remove -/
theorem safe_addOne (a : Action) (name : String) : Safe (okP a) (addOne name) := by
  unfold addOne
  apply safeP_rpc
  · exact step_unit (safe_out _ _) rfl
  · intro c t; handler
  · intro e; exact step_raiseSock e

theorem safe_removeOne (a : Action) (name : String) : Safe (okP a) (removeOne name) := by
  unfold removeOne
  apply safeP_rpc
  · exact step_unit (safe_out _ _) rfl
  · intro c t; handler
  · intro e; exact step_raiseSock e

/-! ### start / stop / signal / clear -/
theorem safe_startOne (a : Action) (n : String) : Safe (okP a) (startOne n) := by
  unfold startOne; dsimp only
  split
  · apply safeP_rpc
    · exact step_results (fun rs h => results_bad (Or.inr (by decide)) (by decide) (by decide) h)
    · intro c t; handler
    · intro e; exact step_raiseSock e
  · apply safeP_rpc
    · exact step_unit (safe_out _ _) rfl
    · intro c t; exact step_printOne (by decide) (by decide) (by decide) c t
    · intro e; exact step_raiseSock e

theorem safe_startNames (a : Action) (names : List String) : Safe (okP a) (startNames names) := by
  unfold startNames
  split
  · apply safeP_rpc
    · exact step_results (fun rs h => results_bad (Or.inr (by decide)) (by decide) (by decide) h)
    · intro c t; exact step_raiseFault c t
    · intro e; exact step_raiseSock e
  · exact safe_foldl startOne (safe_startOne a) names

theorem safe_stopOne (a : Action) (ha : a ≠ .update) (n : String) : Safe (okP a) (stopOne n) := by
  unfold stopOne; dsimp only
  split
  · apply safeP_rpc
    · exact step_results (fun rs h => results_bad (Or.inl ha) (by decide) (by decide) h)
    · intro c t; handler
    · intro e; exact step_raiseSock e
  · apply safeP_rpc
    · exact step_unit (safe_out _ _) rfl
    · intro c t; exact step_printOne (by decide) (by decide) (by decide) c t
    · intro e; exact step_raiseSock e

theorem safe_stopNames (a : Action) (ha : a ≠ .update) (names : List String) : Safe (okP a) (stopNames names) := by
  unfold stopNames
  split
  · apply safeP_rpc
    · exact step_results (fun rs h => results_bad (Or.inl ha) (by decide) (by decide) h)
    · intro c t; exact step_raiseFault c t
    · intro e; exact step_raiseSock e
  · exact safe_foldl stopOne (safe_stopOne a ha) names

theorem safe_signalOne (a : Action) (sig n : String) : Safe (okP a) (signalOne sig n) := by
  unfold signalOne; dsimp only
  split
  · apply safeP_rpc
    · exact step_results (fun rs h => results_bad (Or.inr (by decide)) (by decide) (by decide) h)
    · intro c t; handler
    · intro e; exact step_raiseSock e
  · apply safeP_rpc
    · exact step_unit (safe_out _ _) rfl
    · intro c t; exact step_printOne (by decide) (by decide) (by decide) c t
    · intro e; exact step_raiseSock e

theorem safe_signalNames (a : Action) (sig : String) (names : List String) : Safe (okP a) (signalNames sig names) := by
  unfold signalNames
  split
  · apply safeP_rpc
    · exact step_results (fun rs h => results_bad (Or.inr (by decide)) (by decide) (by decide) h)
    · intro c t; exact step_raiseFault c t
    · intro e; exact step_raiseSock e
  · exact safe_foldl (signalOne sig) (safe_signalOne a sig) names

theorem safe_clearOne (a : Action) (n : String) : Safe (okP a) (clearOne n) := by
  unfold clearOne; dsimp only
  apply safeP_rpc
  · exact step_unit (safe_out _ _) rfl
  · intro c t; exact step_printOne (by decide) (by decide) (by decide) c t
  · intro e; exact step_raiseSock e

theorem safe_clearNames (a : Action) (names : List String) : Safe (okP a) (clearNames names) := by
  unfold clearNames
  split
  · apply safeP_rpc
    · exact step_results (fun rs h => results_bad (Or.inr (by decide)) (by decide) (by decide) h)
    · intro c t; exact step_raiseFault c t
    · intro e; exact step_raiseSock e
  · exact safe_foldl clearOne (safe_clearOne a) names

theorem okVersion (a : Action) : okP a ⟨"getVersion", [], .ok (.str API_VERSION)⟩ = true := by
  simp [okP, refused]

theorem safe_doStart (a : Action) (arg : String) : SafeP (okP a) (pySplit arg ≠ []) (doStart arg) := by
  unfold doStart
  refine safeP_upcheck (okVersion a) (fun s => ?_) (safe_id _)
  dsimp only
  split
  · exact R_of_dirty (by simp (disch := nz) [clean_setExit])
  · rename_i h
    exact safeP_of (by simpa [ctl_gen] using h) (safe_startNames a _) s

theorem safe_doStop (a : Action) (ha : a ≠ .update) (arg : String) : SafeP (okP a) (pySplit arg ≠ []) (doStop arg) := by
  unfold doStop
  refine safeP_upcheck (okVersion a) (fun s => ?_) (safe_id _)
  dsimp only
  split
  · exact R_of_dirty (by simp (disch := nz) [clean_setExit])
  · rename_i h
    exact safeP_of (by simpa [ctl_gen] using h) (safe_stopNames a ha _) s

theorem safe_doRestart (a : Action) (ha : a ≠ .update) (arg : String) :
    SafeP (okP a) (pySplit arg ≠ []) (doRestart arg) := by
  unfold doRestart
  refine safeP_upcheck (okVersion a) (fun s => ?_) (safe_id _)
  dsimp only
  split
  · exact R_of_dirty (by simp (disch := nz) [clean_setExit])
  · rename_i h
    exact safeP_of (by simpa [ctl_gen] using h)
      (safe_comp (safeP_weaken (safe_doStop a ha arg) (fun _ => trivial))
                 (safeP_weaken (safe_doStart a arg) (fun _ => trivial))) s

theorem safe_doSignal (a : Action) (arg : String) : SafeP (okP a) (2 ≤ (pySplit arg).length) (doSignal arg) := by
  unfold doSignal
  refine safeP_upcheck (okVersion a) (fun s => ?_) (safe_id _)
  dsimp only
  split
  · exact R_of_dirty (by simp (disch := nz) [clean_setExit])
  · rename_i h
    have hp : 2 ≤ (pySplit arg).length := by
      simp [ctl_gen] at h; omega
    split
    · exact safeP_of hp (safe_signalNames a _ _) s
    · exact R_of_dirty (by simp (disch := nz) [clean_setExit])

theorem safe_doClear (a : Action) (arg : String) : SafeP (okP a) (pySplit arg ≠ []) (doClear arg) := by
  unfold doClear
  refine safeP_upcheck (okVersion a) (fun s => ?_) (safe_id _)
  dsimp only
  split
  · exact R_of_dirty (by simp (disch := nz) [clean_setExit])
  · rename_i h
    exact safeP_of (by simpa [ctl_gen] using h) (safe_clearNames a _) s

theorem safe_doAdd (a : Action) (arg : String) : SafeP (okP a) (pySplit arg ≠ []) (doAdd arg) := by
  intro s
  unfold doAdd
  split
  · exact R_of_dirty (by simp (disch := nz) [clean_setExit])
  · rename_i h
    exact safeP_of (by simpa [ctl_gen] using h) (safe_foldl addOne (safe_addOne a) _) s
theorem safe_doRemove (a : Action) (arg : String) : SafeP (okP a) (pySplit arg ≠ []) (doRemove arg) := by
  intro s
  unfold doRemove
  split
  · exact R_of_dirty (by simp (disch := nz) [clean_setExit])
  · rename_i h
    exact safeP_of (by simpa [ctl_gen] using h) (safe_foldl removeOne (safe_removeOne a) _) s

/-! ### shutdown / reload / version / reread / avail -/
macro "argless" : tactic => `(tactic| (
  split
  · exact fun s => R_of_dirty (by simp (disch := nz) [clean_setExit])
  · rename_i h
    have harg : _ = "" := by simpa [ctl_gen] using h))

theorem safe_doShutdown (a : Action) (arg : String) : SafeP (okP a) (arg = "") (doShutdown arg) := by
  unfold doShutdown
  split
  · exact fun s => R_of_dirty (by simp (disch := nz) [clean_setExit])
  · rename_i h
    refine safeP_of (by simpa [ctl_gen] using h) (safeP_rpc ?_ ?_ ?_)
    · exact step_unit (safe_out _ _) rfl
    · intro c t; handler
    · intro e; handler

theorem safe_doReload (a : Action) (arg : String) : SafeP (okP a) (arg = "") (doReload arg) := by
  unfold doReload
  split
  · exact fun s => R_of_dirty (by simp (disch := nz) [clean_setExit])
  · rename_i h
    refine safeP_of (by simpa [ctl_gen] using h) (safeP_rpc ?_ ?_ ?_)
    · exact step_unit (safe_out _ _) rfl
    · intro c t; handler
    · intro e; exact step_raiseSock e

theorem safe_doVersion (a : Action) (arg : String) : SafeP (okP a) (arg = "") (doVersion arg) := by
  unfold doVersion
  split
  · exact fun s => R_of_dirty (by simp (disch := nz) [clean_setExit])
  · rename_i h
    refine safeP_of (by simpa [ctl_gen] using h) (safeP_upcheck (okVersion a) (safeP_rpc ?_ ?_ ?_) (safe_id _))
    · intro v
      cases v <;> first | exact step_dirty dirty_badScript | exact step_ok (safe_out _ _) (by simp [okP, refused])
    · intro c t; exact step_raiseFault c t
    · intro e; exact step_raiseSock e

theorem safe_formatChanges (ok : Call → Bool) (x y z : List String) : Safe ok (formatChanges x y z) := by
  unfold formatChanges; dsimp only
  split
  · exact safe_out _ _
  · exact safe_outs _ _

theorem safe_doReread (a : Action) (arg : String) : SafeP (okP a) (arg = "") (doReread arg) := by
  unfold doReread
  split
  · exact fun s => R_of_dirty (by simp (disch := nz) [clean_setExit])
  · rename_i h
    refine safeP_of (by simpa [ctl_gen] using h) (safeP_rpc ?_ ?_ ?_)
    · intro v
      cases v <;> first | exact step_dirty dirty_badScript | exact step_ok (safe_formatChanges _ _ _ _) rfl
    · intro c t; handler
    · intro e; exact step_raiseSock e

theorem safe_doAvail (a : Action) (arg : String) : SafeP (okP a) (arg = "") (doAvail arg) := by
  unfold doAvail
  split
  · exact fun s => R_of_dirty (by simp (disch := nz) [clean_setExit])
  · rename_i h
    refine safeP_of (by simpa [ctl_gen] using h) (safeP_rpc ?_ ?_ ?_)
    · intro v
      cases v <;> first | exact step_dirty dirty_badScript | exact step_ok (safe_outs _ _) rfl
    · intro c t; handler
    · intro e; exact step_raiseSock e

/-! ### pid / status -/
theorem safe_pidOne (a : Action) (n : String) : Safe (okP a) (pidOne n) := by
  unfold pidOne
  apply safeP_rpc
  · intro v
    cases v <;> first | exact step_dirty dirty_badScript | skip
    refine step_ok (fun s => ?_) rfl
    dsimp only
    split
    · exact R_of_dirty (by simp (disch := nz) [clean_setExit])
    · exact safe_out _ _ s
  · intro c t; handler
  · intro e; exact step_raiseSock e

theorem safe_doPid (a : Action) (arg : String) : Safe (okP a) (doPid arg) := by
  unfold doPid
  refine safeP_upcheck (okVersion a) (fun s => ?_) (safe_id _)
  dsimp only
  split
  · refine safeP_rpc ?_ ?_ ?_ s
    · intro v
      cases v <;> first | exact step_dirty dirty_badScript | exact step_ok (safe_out _ _) (by simp [okP, refused])
    · intro c t; exact step_raiseFault c t
    · intro e; exact step_raiseSock e
  · split
    · refine safeP_rpc ?_ ?_ ?_ s
      · intro v
        cases v <;> first | exact step_dirty dirty_badScript | exact step_ok (safe_outs _ _) rfl
      · intro c t; exact step_raiseFault c t
      · intro e; exact step_raiseSock e
    · exact safe_foldl pidOne (safe_pidOne a) _ s

theorem safe_markStopped (ok : Call → Bool) (infos : List Info) : Safe ok (markStopped infos) := by
  unfold markStopped
  refine safe_foldl (fun i s => if onState do_status_g6 i.state then setExit (K do_status_a14) s else s) (fun i s => ?_) infos
  dsimp only
  split
  · exact R_of_dirty (by simp (disch := nz) [clean_setExit])
  · exact R_refl _ s

theorem safe_showStatuses (ok : Call → Bool) (infos : List Info) : Safe ok (showStatuses infos) := by
  unfold showStatuses; exact safe_outs _ _

theorem R_statusName (ok : Call → Bool) (all : List Info) (n : String) (acc : S × List Info) :
    R ok True acc.1 (statusName all n acc).1 := by
  unfold statusName; dsimp only
  split
  · exact R_of_dirty (by simp (disch := nz) [clean_setExit])
  · exact R_refl _ _

theorem R_statusSelect (ok : Call → Bool) (all : List Info) (names : List String) (acc : S × List Info) :
    R ok True acc.1 (names.foldl (fun acc n => statusName all n acc) acc).1 := by
  induction names generalizing acc with
  | nil => exact R_refl _ _
  | cons n names ih =>
    simp only [List.foldl_cons]
    exact R_mono (R_trans (R_statusName ok all n acc) (ih _)) (fun _ => trivial)

theorem safe_doStatus (a : Action) (arg : String) : Safe (okP a) (doStatus arg) := by
  unfold doStatus
  refine safeP_upcheck (okVersion a) (safeP_rpc ?_ ?_ ?_) (safeP_of_dirty (dirty_setExit (by nz)))
  · intro v
    cases v <;> first | exact step_dirty dirty_badScript | skip
    rename_i all
    refine step_ok (fun s => ?_) rfl
    dsimp only
    split
    · exact safe_comp (safe_showStatuses _ _) (safe_markStopped _ _) s
    · have h2 : R (okP a) True (statusSelect all (pySplit arg) s).1 _ :=
        safe_comp (safe_showStatuses (okP a) (statusSelect all (pySplit arg) s).2)
          (safe_markStopped (okP a) (statusSelect all (pySplit arg) s).2) (statusSelect all (pySplit arg) s).1
      exact R_mono (R_trans (R_statusSelect (okP a) all (pySplit arg) (s, [])) h2) (fun _ => trivial)
  · intro c t; exact step_raiseFault c t
  · intro e; exact step_raiseSock e

/-! ### update (a = .update: the results of stopProcessGroup are not looked at, F36) -/
/-- the client's `stop_failures` test is the specification's "an entry that is neither SUCCESS nor NOT_RUNNING" -/
theorem okStopResults (g : String) (rs : List Res) :
    okP .update ⟨"stopProcessGroup", [g], .ok (.results rs)⟩ = !stopFailed rs := by
  simp only [okP, refused, stopFailed]
  congr 2
  funext r
  simp [toleratedCode, ctl_gen]
  by_cases h1 : r.status = 80 <;> by_cases h2 : r.status = 70 <;> simp [h1, h2, bne]

theorem safe_rpcUnit (a : Action) (m : String) (args : List String) (k : S → S) (hk : Safe (okP a) k)
    (hm : okP a ⟨m, args, .ok .unit⟩ = true) : Safe (okP a) (rpc m args (expectUnit k) raiseFault raiseSock) := by
  apply safeP_rpc
  · exact step_unit hk hm
  · intro c t; exact step_raiseFault c t
  · intro e; exact step_raiseSock e

theorem safe_updRemoved (valid : List String) (g : String) : Safe (okP .update) (updRemoved valid g) := by
  unfold updRemoved
  split
  · exact safe_id _
  · apply safeP_rpc
    · intro v
      cases v <;> first | exact step_dirty dirty_badScript | skip
      rename_i rs
      dsimp only [expectResults]
      cases hf : stopFailed rs
      · refine step_ok (fun s => ?_) (by rw [okStopResults, hf]; rfl)
        rw [if_neg (by decide)]
        exact safe_comp (safe_out _ _) (safe_rpcUnit .update _ _ _ (safe_out _ _) rfl) s
      · exact step_dirty (fun s => by simp (disch := nz) [hf, clean_setExit])
    · intro c t; exact step_raiseFault c t
    · intro e; exact step_raiseSock e

theorem safe_updChanged (valid : List String) (g : String) : Safe (okP .update) (updChanged valid g) := by
  unfold updChanged
  split
  · exact safe_id _
  · apply safeP_rpc
    · intro v
      cases v <;> first | exact step_dirty dirty_badScript | skip
      rename_i rs
      dsimp only [expectResults]
      cases hf : stopFailed rs
      · refine step_ok (fun s => ?_) (by rw [okStopResults, hf]; rfl)
        rw [if_neg (by decide)]
        exact safe_comp (safe_out _ _)
          (safe_rpcUnit .update _ _ _ (safe_rpcUnit .update _ _ _ (safe_out _ _) rfl) rfl) s
      · exact step_dirty (fun s => by simp (disch := nz) [hf, clean_setExit])
    · intro c t; exact step_raiseFault c t
    · intro e; exact step_raiseSock e

theorem safe_updAdded (valid : List String) (g : String) : Safe (okP .update) (updAdded valid g) := by
  unfold updAdded
  split
  · exact safe_id _
  · exact safe_rpcUnit .update _ _ _ (safe_out _ _) rfl

theorem safe_updApply (valid x y z : List String) : Safe (okP .update) (updApply valid x y z) := by
  unfold updApply
  exact safe_comp (safe_comp (safe_foldl (updRemoved valid) (safe_updRemoved valid) z)
    (safe_foldl (updChanged valid) (safe_updChanged valid) y)) (safe_foldl (updAdded valid) (safe_updAdded valid) x)

theorem safe_updNoSuch (groups : List String) (g : String) : Safe (okP .update) (updNoSuch groups g) := by
  intro s
  unfold updNoSuch
  split
  · exact R_refl _ _
  · exact R_of_dirty (by simp (disch := nz) [clean_setExit])

theorem safe_updChecked (valid x y z : List String) : Safe (okP .update) (updChecked valid x y z) := by
  unfold updChecked
  split
  · exact safe_updApply _ _ _ _
  · apply safeP_rpc
    · intro v
      cases v <;> first | exact step_dirty dirty_badScript | skip
      rename_i l
      refine step_ok ?_ rfl
      exact safe_comp (safe_foldl (updNoSuch _) (safe_updNoSuch _) valid) (safe_updApply _ _ _ _)
    · intro c t; exact step_raiseFault c t
    · intro e; exact step_raiseSock e

theorem safe_doUpdate (arg : String) : Safe (okP .update) (doUpdate arg) := by
  unfold doUpdate
  apply safeP_rpc
  · intro v
    cases v <;> first | exact step_dirty dirty_badScript | skip
    exact step_ok (safe_updChecked _ _ _ _) rfl
  · intro c t; handler
  · intro e; exact step_raiseSock e

/-! ### tail / maintail -/
theorem safe_setStderr (ok : Call → Bool) : Safe ok (setP (fun p => { p with stderr := true })) := by
  intro s
  unfold setP guard
  split
  · exact R_refl _ _
  · intro hc
    exact ⟨by unfold Clean at *; simpa using hc, trivial, fun c h => Or.inl (by simpa using h)⟩

theorem safe_tailF (a : Action) (path : String) : Safe (okP a) (tailF path) := by
  unfold tailF
  refine safe_comp (safe_out _ _) (safeP_rpc ?_ ?_ ?_)
  · intro v
    cases v <;> first | exact step_dirty dirty_badScript | skip
    · exact step_ok (safe_id _) (by simp [okP, refused])
    · exact step_dirty (dirty_after (dirty_setExit (by nz)))
  · intro c t; exact step_dirty dirty_badScript
  · intro e; exact step_dirty dirty_badScript

theorem safe_tailRead (a : Action) (name channel : String) (n : Int) : Safe (okP a) (tailRead name channel n) := by
  unfold tailRead
  split
  all_goals
    apply safeP_rpc
    · intro v
      cases v <;> first | exact step_dirty dirty_badScript | exact step_ok (safe_out _ _) (by simp [okP, refused])
    · intro c t; handler
    · intro e; exact step_raiseSock e

theorem safe_tailGo (a : Action) (m : Option String) (name channel : String) : Safe (okP a) (tailGo m name channel) := by
  unfold tailGo
  split
  · exact safe_tailRead _ _ _ _
  · dsimp only
    split
    · exact safe_tailF _ _
    · split
      · exact safe_tailRead _ _ _ _
      · exact fun s => R_of_dirty (by simp (disch := nz) [clean_setExit])

theorem safe_tailArgs (a : Action) (m : Option String) (args : List String) : Safe (okP a) (tailArgs m args) := by
  unfold tailArgs
  split
  · split
    · exact safe_tailGo _ _ _ _
    · exact safeP_of_dirty dirty_badScript
  · split
    · split
      · dsimp only
        split
        · exact fun s => R_of_dirty (by simp (disch := nz) [clean_setExit])
        · exact safe_tailGo _ _ _ _
      · exact safeP_of_dirty dirty_badScript
    · exact fun s => R_of_dirty (by simp (disch := nz) [clean_setExit])

theorem safe_doTail (a : Action) (arg : String) : Safe (okP a) (doTail arg) := by
  unfold doTail
  refine safeP_upcheck (okVersion a) (fun s => ?_) (safe_id _)
  dsimp only
  split
  · exact R_of_dirty (by simp (disch := nz) [clean_setExit])
  · split
    · exact R_of_dirty (by simp (disch := nz) [clean_setExit])
    · split
      · split
        · exact safe_tailArgs _ _ _ s
        · exact safe_tailArgs _ _ _ s
      · exact R_of_dirty (by simp)

theorem safe_mainRead (a : Action) (n : Int) : Safe (okP a) (mainRead n) := by
  unfold mainRead
  apply safeP_rpc
  · intro v
    cases v <;> first | exact step_dirty dirty_badScript | exact step_ok (safe_out _ _) (by simp [okP, refused])
  · intro c t; handler
  · intro e; exact step_raiseSock e

theorem safe_doMaintail (a : Action) (arg : String) : Safe (okP a) (doMaintail arg) := by
  unfold doMaintail
  refine safeP_upcheck (okVersion a) (fun s => ?_) (safe_id _)
  dsimp only
  split
  · exact R_of_dirty (by simp (disch := nz) [clean_setExit])
  · split
    · split
      · split
        · split
          · exact safe_tailF _ _ s
          · split
            · exact safe_mainRead _ _ s
            · exact R_of_dirty (by simp (disch := nz) [clean_setExit])
        · exact R_of_dirty (by simp (disch := nz) [clean_setExit])
      · exact R_of_dirty (by simp)
    · exact safe_mainRead _ _ s

/-! ### the argument forms of tail / maintail -/
def modifierOk (m : String) : Bool :=
  String.ofList (m.toList.drop 1) == "f" || (pyInt (String.ofList (m.toList.drop 1))).isSome
def channelOk (c : String) : Bool := lowerAscii c == "stdout" || lowerAscii c == "stderr"
def tailRestOk : List String → Bool
  | [_] => true
  | [_, c] => channelOk c
  | [_, _, c] => channelOk c
  | _ => false
def modOk : Option String → Bool
  | none => true
  | some m => modifierOk m

theorem safeP_tailGo (a : Action) (m : Option String) (name channel : String) :
    SafeP (okP a) (modOk m = true) (tailGo m name channel) := by
  unfold tailGo
  split
  · exact safeP_of rfl (safe_tailRead _ _ _ _)
  · dsimp only
    split
    · rename_i h; exact safeP_of (by simp only [modOk, modifierOk, h, Bool.true_or]) (safe_tailF _ _)
    · split
      · rename_i h; exact safeP_of (by simp only [modOk, modifierOk, h, Option.isSome_some, Bool.or_true]) (safe_tailRead _ _ _ _)
      · exact fun s => R_of_dirty (by simp (disch := nz) [clean_setExit])

theorem safeP_tailArgs (a : Action) (m : Option String) (args : List String) (hlen : args.length ≤ 3) :
    SafeP (okP a) (modOk m = true ∧ tailRestOk args = true) (tailArgs m args) := by
  have chan : ∀ (x y : String) (s : S), R (okP a) (modOk m = true ∧ channelOk y = true) s
      ((if ¬lowerAscii y = "stderr" ∧ ¬lowerAscii y = "stdout" then fun s =>
          setExit 1 (out ("Error: bad channel '" ++ lowerAscii y ++ "'") s)
        else tailGo m x (lowerAscii y)) s) := by
    intro x y s
    split
    · exact R_of_dirty (by simp (disch := decide) [clean_setExit])
    · rename_i h
      have hc : channelOk y = true := by
        simp only [channelOk, Bool.or_eq_true, beq_iff_eq]
        by_cases h1 : lowerAscii y = "stderr"
        · exact Or.inr h1
        · by_cases h2 : lowerAscii y = "stdout"
          · exact Or.inl h2
          · exact absurd ⟨h1, h2⟩ h
      exact R_mono (safeP_tailGo a m x (lowerAscii y) s) (fun hm => ⟨hm, hc⟩)
  rcases args with _ | ⟨x, _ | ⟨y, _ | ⟨z, _ | ⟨w, r⟩⟩⟩⟩
  · intro s; unfold tailArgs; simp [ctl_gen, tailRestOk]
    exact R_of_dirty (by simp (disch := decide) [clean_setExit])
  · intro s; unfold tailArgs; simp [ctl_gen, tailRestOk]
    exact safeP_tailGo a m x "stdout" s
  · intro s; unfold tailArgs; simp [ctl_gen, tailRestOk]
    exact chan x y s
  · intro s; unfold tailArgs; simp [ctl_gen, tailRestOk]
    exact chan x z s
  · simp at hlen

def tailArgsOk (args : List String) : Bool :=
  match args with
  | [] => false
  | a0 :: rest =>
    decide (args.length ≤ 3) &&
      (if a0.toList.head? == some '-' then modifierOk a0 && tailRestOk rest else tailRestOk args)

def maintailArgsOk : List String → Bool
  | [] => true
  | [a0] => a0.toList.head? == some '-' && modifierOk a0
  | _ => false

theorem safeP_doTail (a : Action) (arg : String) : SafeP (okP a) (tailArgsOk (pySplit arg) = true) (doTail arg) := by
  unfold doTail
  refine safeP_upcheck (okVersion a) (fun s => ?_) (safe_id _)
  dsimp only
  generalize pySplit arg = args
  split
  · exact R_of_dirty (by simp (disch := nz) [clean_setExit])
  · split
    · exact R_of_dirty (by simp (disch := nz) [clean_setExit])
    · rename_i h1 h2
      have hlen : args.length ≤ 3 := by simp [ctl_gen] at h2; omega
      split
      · rename_i a0 rest
        split
        · rename_i hd
          refine R_mono (safeP_tailArgs a (some a0) rest (by simp at hlen; omega) s) (fun h => ?_)
          simp [tailArgsOk, hd, modOk] at h ⊢
          exact ⟨by simpa using hlen, h⟩
        · rename_i hd
          refine R_mono (safeP_tailArgs a none (a0 :: rest) hlen s) (fun h => ?_)
          simp [tailArgsOk, hd, modOk] at h ⊢
          exact ⟨by simpa using hlen, h⟩
      · exact R_of_dirty (by simp)

theorem safeP_doMaintail (a : Action) (arg : String) :
    SafeP (okP a) (maintailArgsOk (pySplit arg) = true) (doMaintail arg) := by
  unfold doMaintail
  refine safeP_upcheck (okVersion a) (fun s => ?_) (safe_id _)
  dsimp only
  generalize pySplit arg = args
  rcases args with _ | ⟨x, _ | ⟨y, r⟩⟩
  · simp [ctl_gen, maintailArgsOk]
    exact safeP_of trivial (safe_mainRead _ _) s
  · simp [ctl_gen, maintailArgsOk]
    split
    · rename_i hd
      split
      · rename_i hf
        exact safeP_of ⟨hd, by simp [modifierOk, hf]⟩ (safe_tailF _ _) s
      · split
        · rename_i n hn
          exact safeP_of ⟨hd, by simp [modifierOk, hn]⟩ (safe_mainRead _ _) s
        · exact R_of_dirty (by simp (disch := decide) [clean_setExit])
    · exact R_of_dirty (by simp (disch := decide) [clean_setExit])
  · simp [ctl_gen, maintailArgsOk]
    have : (1 : Int) < ↑r.length + 1 + 1 := by omega
    rw [if_pos this]
    exact R_of_dirty (by simp (disch := decide) [clean_setExit])


/-- well-formed argument lists, per action (for tail/maintail: exactly the forms the help text gives, plus a
    third word between name and channel, which the client ignores) -/
def argsOk (a : Action) (arg : String) : Prop :=
  match a with
  | .start | .stop | .restart | .clear | .add | .remove => pySplit arg ≠ []
  | .signal => 2 ≤ (pySplit arg).length
  | .shutdown | .reload | .version | .reread | .avail => arg = ""
  | .tail => tailArgsOk (pySplit arg) = true
  | .maintail => maintailArgsOk (pySplit arg) = true
  | .status | .pid | .update => True

/-- every modelled action: ends clean only if its argument list was well-formed and every call it made was not
    refused -/
theorem safe_run (a : Action) (arg : String) : SafeP (okP a) (argsOk a arg) (a.run arg) := by
  cases a
  · exact safe_doStart _ arg
  · exact safe_doStop _ (by decide) arg
  · exact safe_doRestart _ (by decide) arg
  · exact safe_doSignal _ arg
  · exact safe_doStatus _ arg
  · exact safe_doPid _ arg
  · exact safe_doClear _ arg
  · exact safe_doAdd _ arg
  · exact safe_doRemove _ arg
  · exact safe_doUpdate arg
  · exact safe_doReread _ arg
  · exact safe_doAvail _ arg
  · exact safeP_doTail _ arg
  · exact safeP_doMaintail _ arg
  · exact safe_doShutdown _ arg
  · exact safe_doReload _ arg
  · exact safe_doVersion _ arg

end Sv.Ctl.Spec
