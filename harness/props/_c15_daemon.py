"""
C15, daemon population: `supervisorctl update / reread / remove / add` against a daemon that has children.

The UNMODIFIED main loop Supervisor.run()/runforever() runs over harness/simkernel.SimKernel (simulated fork / waitpid /
kill / pipes, virtual clock).  The configuration file is a list of program dicts (as in l2.gen_programs); a *version* of
the file is another such list.  The only seam added here: `options.process_config` of the kernel's real ServerOptions
object installs the config objects of the current file version into options.process_group_configs -- which is what
reading the file does -- so the real SupervisorNamespaceRPCInterface.reloadConfig / Supervisor.diff_to_active (real
Config.__eq__) / addProcessGroup / removeProcessGroup / stopProcessGroup run.

The client is the real supervisorctl DefaultControllerPlugin (do_update, do_reread, do_stop, do_remove, do_add) running
in a second thread under strict hand-over (exactly one of the two threads runs at any time, so a run is deterministic).
Every request of the client is executed INSIDE the main loop by the kernel's RpcDispatcher, i.e. in the dispatch phase
of a main-loop pass; deferred answers (stopProcessGroup) are polled from there in later passes.  The client gets an
answer in the pass after it was produced and issues its next request `latency` passes later (network / scheduling
latency, chosen by the generator per call).

Children follow a script ('exit' actions) and per-program behaviour: `lifetime` = n: every child of that program exits
by itself n passes after it was forked (a batch job kept in a loop by autorestart), with wait status `exit_status`.
No kill/fork faults are injected in this population (a process in UNKNOWN may legitimately keep a child).

Real files (input key `real`): every file version is rendered as a real ini file ([supervisord] directory= / childlogdir=,
one [program:x] per program with command=/sim/x and the options of its description, [group:g] sections; a program's
`ini` dict adds or overrides raw option text, e.g. a relative stdout_logfile or a malformed command) and
options.process_config is the REAL ServerOptions.process_config reading that file: the first time in the directory
supervisord was launched in, later -- Supervisor.run() has called options.daemonize(), represented here by its
os.chdir(options.directory) -- in the directory the daemon changed to.  An unparsable version is a real file the real
parser rejects; whatever it raises travels through the real reloadConfig.

Monitors (observables only: the kernel's child table at every main-loop boundary, the reported states/pids, fork / kill /
wait records in pass order, the RPC requests and answers, what supervisorctl printed / its exit status): see monitor().
"""
import copy, os, signal, threading, traceback

from simkernel import SimKernel, StopSim
import l2

FAULT_NAME = {v: k for k, v in l2.FAULT.items()}
CFG_KEYS = ('prio', 'autostart', 'autorestart', 'startsecs', 'startretries', 'exitcodes', 'stopsignal', 'stopwaitsecs')
CFG_DEFAULT = dict(prio=999, autostart=True, autorestart='unexpected', startsecs=1, startretries=3, exitcodes=[0],
                   stopsignal=int(signal.SIGTERM), stopwaitsecs=10)
BEHAVIOUR_KEYS = ('dies_on', 'die_delay', 'lifetime', 'exit_status', 'leaves_pipes_open')
MAXPASS = 260


class ClientAbort(BaseException):
    pass


class HarnessError(Exception):
    pass


class Ctl(object):
    """what a controller plugin needs of supervisorctl's Controller"""
    def __init__(self, proxy):
        self.proxy, self.lines, self.exitstatus = proxy, [], 0
    def get_supervisor(self):
        return self.proxy
    def output(self, text):
        self.lines.append(str(text))
    def upcheck(self):
        return True
    def set_exitstatus_from_xmlrpc_fault(self, faultcode, ignored_faultcode=None):
        if faultcode not in (l2.FAULT['SUCCESS'], ignored_faultcode):
            self.exitstatus = 1


class Proxy(object):
    def __init__(self, client):
        self._client = client
    def __getattr__(self, name):
        if name.startswith('_'):
            raise AttributeError(name)
        return lambda *args: self._client.call(name, args)


class Client(object):
    """the supervisorctl side.  steps: ['update', arg] ['reread'] ['stop', namespec] ['remove', g] ['add', g]
    ['start', namespec] ['sleep', passes] ['write', version index]"""
    def __init__(self, k, steps, lat):
        self.k, self.steps, self.lat = k, steps, lat or {}
        self.to_client, self.to_main = threading.Semaphore(0), threading.Semaphore(0)
        self.request = None
        self.answer = None
        self.started = self.finished = self.aborted = False
        self.ncalls, self.per_method = 0, {}
        self.error = None
        self.proxy = Proxy(self)
        self.thread = threading.Thread(target=self._main, name='c15-client', daemon=True)

    # ---- client thread ---------------------------------------------------------------------------------
    def _main(self):
        try:
            self.to_client.acquire()
            if not self.aborted:
                self._session()
        except ClientAbort:
            pass
        except BaseException:
            self.error = traceback.format_exc()
        finally:
            self.finished = True
            self.to_main.release()

    def _latency(self, method):
        bym = self.lat.get('by_method', {})
        n = self.per_method.get(method, 0)
        self.per_method[method] = n + 1
        self.ncalls += 1
        if method in bym:
            v = bym[method]
            return v[n % len(v)] if isinstance(v, list) else v
        d = self.lat.get('default') or [0]
        return d[(self.ncalls - 1) % len(d)]

    def _post(self, rq):
        self.request = rq
        self.to_main.release()
        self.to_client.acquire()
        if self.aborted:
            raise ClientAbort()
        ans, self.answer = self.answer, None
        return ans

    def call(self, method, args):
        from supervisor.compat import xmlrpclib
        ans = self._post(dict(kind='rpc', method=method, args=list(args), latency=self._latency(method)))
        if 'fault' in ans:
            raise xmlrpclib.Fault(ans['fault'], '%s: %s' % (FAULT_NAME.get(ans['fault'], 'FAULT'), ' '.join(str(a) for a in args)))
        return ans.get('value')

    def _session(self):
        from supervisor.supervisorctl import DefaultControllerPlugin
        from supervisor.compat import xmlrpclib
        for i, step in enumerate(self.steps):
            ctl = Ctl(self.proxy)
            plugin = DefaultControllerPlugin(ctl)
            kind = step[0]
            self.k.rec('client-step-begin', index=i, step=list(step))
            out = 'ok'
            try:
                if kind == 'sleep':
                    self._post(dict(kind='sleep', n=int(step[1])))
                elif kind == 'write':
                    self.k.file_index = int(step[1])
                elif kind == 'update':
                    plugin.do_update(step[1])
                elif kind == 'reread':
                    plugin.do_reread('')
                elif kind in ('stop', 'start', 'remove', 'add'):
                    getattr(plugin, 'do_' + kind)(step[1])
                else:
                    raise HarnessError('unknown client step %r' % (step,))
            except xmlrpclib.Fault as e:
                out = 'fault:%d' % e.faultCode
            except HarnessError:
                raise
            except Exception as e:
                out = 'exc:%s:%s' % (type(e).__name__, str(e)[:100])
            self.k.rec('client-step-end', index=i, step=list(step), outcome=out, exitstatus=ctl.exitstatus, output=list(ctl.lines))

    # ---- main thread -----------------------------------------------------------------------------------
    def resume(self, answer):
        """hand `answer` to the client and wait until it has posted its next request or finished"""
        self.answer = answer
        self.to_client.release()
        if not self.to_main.acquire(timeout=120):
            raise HarnessError('client thread does not hand over')

    def abort(self):
        if self.thread.ident is None:
            return
        if not self.finished:
            self.aborted = True
            self.to_client.release()
        self.thread.join(30)


def proc_digest(p):
    d = dict(CFG_DEFAULT); d.update({k: p[k] for k in CFG_KEYS if k in p})
    return [p['name']] + [(sorted(d[k]) if k == 'exitcodes' else (int(d[k]) if k in ('stopsignal', 'autostart') else d[k])) for k in CFG_KEYS]


def file_digest(progs):
    """group -> [priority, sorted process digests] as written in a file version (independent of the config classes)"""
    out = {}
    for p in progs:
        g = out.setdefault(p.get('group', p['name']), [p.get('gprio', 999), []])
        g[1].append(proc_digest(p))
    for g in out.values():
        g[1].sort()
    return out


def group_digest(group):
    """the same digest read off an active group (its config object's public attributes)"""
    from supervisor.datatypes import RestartUnconditionally, RestartWhenExitUnexpected
    procs = []
    for pc in group.config.process_configs:
        ar = 'true' if pc.autorestart is RestartUnconditionally else ('unexpected' if pc.autorestart is RestartWhenExitUnexpected else 'false')
        procs.append([pc.name, pc.priority, int(bool(pc.autostart)), ar, pc.startsecs, pc.startretries, sorted(pc.exitcodes), int(pc.stopsignal), pc.stopwaitsecs])
    return [group.config.priority, sorted(procs)]


INI_KEYS = (('prio', 'priority'), ('autostart', 'autostart'), ('autorestart', 'autorestart'), ('startsecs', 'startsecs'), ('startretries', 'startretries'),
            ('exitcodes', 'exitcodes'), ('stopsignal', 'stopsignal'), ('stopwaitsecs', 'stopwaitsecs'))


def programs_of(version):
    return version if isinstance(version, list) else version.get('programs', [])


def render_version(version, rundir, childlogdir):
    """a file version as ini text"""
    if not isinstance(version, list) and 'raw' in version:
        return version['raw']
    progs = programs_of(version)
    out = ['[supervisord]', 'directory=%s' % rundir, 'childlogdir=%s' % childlogdir, 'nodaemon=false']
    out += ['%s=%s' % kv for kv in sorted((version.get('supervisord', {}) if not isinstance(version, list) else {}).items())]
    out.append('')
    groups = {}
    for p in progs:
        groups.setdefault(p.get('group', p['name']), []).append(p)
        d = dict(CFG_DEFAULT); d.update({k: p[k] for k in CFG_KEYS if k in p})
        opts = {'command': '/sim/' + p['name'], 'stdout_logfile': 'NONE', 'stderr_logfile': 'NONE'}
        for k, ik in INI_KEYS:
            v = d[k]
            opts[ik] = ','.join(str(x) for x in v) if isinstance(v, list) else ({True: 'true', False: 'false'}[v] if isinstance(v, bool) else str(int(v) if k == 'stopsignal' else v))
        opts.update(p.get('ini', {}))
        out.append('[program:%s]' % p['name'])
        out += ['%s=%s' % (k, v) for k, v in opts.items() if v is not None]
        out.append('')
    for g, members in groups.items():
        gp = members[0].get('gprio', 999)
        if len(members) == 1 and members[0]['name'] == g and members[0].get('prio', 999) == gp:
            continue
        out += ['[group:%s]' % g, 'programs=%s' % ','.join(m['name'] for m in members), 'priority=%d' % gp, '']
    return '\n'.join(out) + '\n'


class UpdKernel(SimKernel):
    def __init__(self, files, script, steps, start=1, lat=None, fill_dt=1024, tail=6, scratch=None, real=None):
        self.files = files
        self.real = real
        self.file_index = 0
        self.born = {}
        self.answers = {}
        self.nid = 0
        self.start, self.fill_dt, self.tail, self.tail_left = start, fill_dt, tail, 0
        self.client_done_seen = False
        self.stuck = False
        SimKernel.__init__(self, [p for p in files[0]], [(dt, list(acts)) for dt, acts in script], scratch=scratch)
        allp = {}
        for f in files:
            if isinstance(f, list):
                for p in f:
                    allp.setdefault(p['name'], p)
        self.programs = allp
        self.options.process_config = self._process_config
        self.client = Client(self, steps, lat)
        if real:
            base = os.path.join(scratch or '/tmp', 'c15real')
            self.launch = os.path.join(base, 'launch')
            self.rundir = os.path.join(base, 'run') if real.get('chdir', True) else self.launch
            for d in (self.launch, self.rundir):
                for sub in ('logs', 'rel', 'childlogs'):
                    os.makedirs(os.path.join(d, sub), exist_ok=True)
            self.conf_path = os.path.join(base, 'supervisord.conf')
            self.childlogdir = 'childlogs' if real.get('childlogdir') == 'relative' else os.path.join(base, 'launch', 'childlogs')
            self.options.daemonize = self._daemonize
            # system-call seam: the name an AUTO child log gets (mkstemp hands out a real descriptor, os.close here is the simulated one)
            self.options.mktempfile = lambda suffix, prefix, dir: os.path.join(dir, prefix + 'VERIFAUTO' + suffix)
            self.programs = {p['name']: p for f in files for p in programs_of(f)}
            cwd0 = os.getcwd()
            try:
                os.chdir(self.launch)            # supervisord is launched here and reads its file for the first time
                self._process_config(do_usage=False)
            except Exception:
                self.restore()
                raise HarnessError('the first version of the file is rejected: ' + traceback.format_exc()[-400:])
            finally:
                os.chdir(cwd0)

    def _daemonize(self):
        """options.daemonize() as far as this population is concerned: the change of directory"""
        d = self.options.directory
        self.rec('daemonize', directory=d)
        if d:
            os.chdir(d)

    # ---- the file
    def _process_config(self, do_usage=True):
        if self.real:
            # the real thing: the file as it is now on disk, read by ServerOptions.process_config in the current directory
            with open(self.conf_path, 'w', encoding='utf-8') as fh:
                fh.write(render_version(self.files[self.file_index], self.rundir, self.childlogdir))
            self.options.configfile = self.conf_path
            return type(self.options).process_config(self.options, do_usage=do_usage)
        f = self.files[self.file_index]
        if not isinstance(f, list):
            raise ValueError('the file cannot be parsed (version %d)' % self.file_index)
        late = self.late_configs
        try:
            self.options.process_group_configs = self._configs([dict(p, late=False) for p in f])
        finally:
            self.late_configs = late

    # ---- recording
    def rec(self, kind, **kw):
        if kind in ('rpc-answer', 'client-step-end', 'client-step-begin', 'rpc-begin') and getattr(self, 'supervisord', None) is not None:
            sup = self.supervisord
            kw['groups'] = list(sup.process_groups)
            kw['procs_now'] = {'%s:%s' % (g.config.name, n): (p.get_state(), p.pid) for g in sup.process_groups.values() for n, p in g.processes.items()}
            if kind == 'client-step-end':
                kw['digests'] = {n: group_digest(g) for n, g in sup.process_groups.items()}
                kw['file_index'] = self.file_index
        r = SimKernel.rec(self, kind, **kw)
        if kind == 'rpc-answer':
            self.answers[kw['id']] = r
        elif kind == 'rpc-error':
            self.answers[kw['id']] = {'fault': 1, 'internal': kw.get('exc')}
        return r

    def fork(self):
        pid = SimKernel.fork(self)
        self.born[pid] = self.passno
        return pid

    # ---- the scheduling point
    def on_poll(self, rset, wset):
        idx = self.passno                      # index of the pass that starts with this poll
        c = self.client
        if idx >= len(self.script):
            if not c.finished and idx >= MAXPASS:
                self.stuck = True
            elif not c.finished or self.tail_left > 0:
                self.script.append((self.fill_dt, []))
                if c.finished:
                    self.tail_left -= 1
        if idx < len(self.script):
            extra = []
            for pid, ch in self.children.items():
                lt = self.programs.get(ch.name, {}).get('lifetime')
                if ch.state == 'alive' and lt is not None and self.born.get(pid, 0) + lt <= idx + 1:
                    extra.append(('exitpid', pid, self.programs[ch.name].get('exit_status', 0)))
            if extra:
                dt, acts = self.script[idx]
                self.script[idx] = (dt, list(acts) + extra)
        rw = SimKernel.on_poll(self, rset, wset)
        self._client_turn()
        return rw

    def _client_turn(self):
        c, now = self.client, self.passno
        if not c.started:
            if now < self.start:
                return
            c.started = True
            c.resume(None)
        while not c.finished:
            rq = c.request
            if rq is None:
                raise HarnessError('client waits without a request')
            if 'due' not in rq:
                rq['due'] = now + (rq['n'] if rq['kind'] == 'sleep' else rq['latency'])
            if rq['kind'] == 'sleep':
                if now < rq['due']:
                    break
                c.request = None
                c.resume(None)
                continue
            if 'id' not in rq:
                if now >= rq['due']:
                    self.nid += 1
                    rq['id'] = 1000 + self.nid
                    self.rec('client-request', id=rq['id'], method=rq['method'], args=rq['args'], latency=rq['latency'])
                    self.rpcdisp.queue.append((rq['id'], 'supervisor.' + rq['method'], tuple(rq['args'])))
                break
            ans = self.answers.pop(rq['id'], None)
            if ans is None:
                break
            c.request = None
            c.resume(ans)
        if c.finished and not self.client_done_seen:
            self.client_done_seen = True
            self.tail_left = self.tail
            if c.error:
                raise HarnessError('client thread failed: ' + c.error)

    def run(self):
        self.client.thread.start()
        cwd0 = os.getcwd()
        try:
            if self.real:
                os.chdir(self.launch)
            return SimKernel.run(self)
        finally:
            os.chdir(cwd0)
            self.client.abort()


# ------------------------------------------------------------------------------------------------ input <-> run

def make_input(files, script, steps, start, lat, fill_dt=1024, tail=6, label='', real=None):
    inp = {'daemon': True, 'label': label, 'files': files, 'script': [[dt, [list(a) for a in acts]] for dt, acts in script],
           'steps': [list(s) for s in steps], 'start': start, 'lat': lat, 'fill_dt': fill_dt, 'tail': tail}
    if real:
        inp['real'] = real
    return inp


def run_input(inp, scratch=None):
    files = copy.deepcopy(inp['files'])
    script = [(dt, [tuple(a) for a in acts]) for dt, acts in inp['script']]
    k = UpdKernel(files, script, [list(s) for s in inp['steps']], start=inp.get('start', 1), lat=copy.deepcopy(inp.get('lat')),
                  fill_dt=inp.get('fill_dt', 1024), tail=inp.get('tail', 6), scratch=scratch, real=copy.deepcopy(inp.get('real')))
    outcome = k.run()
    return k, outcome


# ------------------------------------------------------------------------------------------------ monitors

class Once(object):
    """report each kind a few times per run of the check, with the first inputs"""
    def __init__(self, ctx, limit=2):
        self.ctx, self.limit, self.n = ctx, limit, {}
    def __call__(self, kind, what, inp):
        self.ctx.count('daemon:violation:' + kind)
        self.n[kind] = self.n.get(kind, 0) + 1
        if self.n[kind] <= self.limit:
            self.ctx.violation(kind, what, inp)


def monitor(ctx, k, inp, report=None):
    """
    fork-for-removed-group            a child is forked for a program of group g after removeProcessGroup(g) answered true
                                      and before a later addProcessGroup(g) answered true
    removed-group-has-surviving-child at a main-loop boundary a live child belongs to a group that was removed and is not active
    child-outside-process-table       at a main-loop boundary a live child's pid is not the pid reported for the process of
                                      that name by an active group (e.g. the old group object's child beside the re-added group's)
    update-does-not-converge:daemon   update answered without error / exit status 0, and the active groups (or, restricted: the
                                      named groups) are not the file's
    updated-group-has-other-options   ... or an active group's options are not the file's
    unreported-group-touched          a group that reread did not list (or update was not asked to handle) was signalled, or one
                                      of its children was replaced although the script did not make it exit, or it vanished
    reread-touched-processes          a fork / kill / state or pid change inside a reloadConfig call, or the group table changed
    cant-reread-changed-something     an unparsable file: update / reread must leave groups, processes and options as they were
    removal-accepted-although-running / removal-refused-although-stopped   removeProcessGroup's answer vs the members' states when it was dispatched
    client-step-aborted:daemon        a supervisorctl command ended with a fault other than STILL_RUNNING / CANT_REREAD or an exception
    update-never-answered             the client is still waiting after MAXPASS main-loop passes
    unparsable-file-not-CANT_REREAD:daemon:<class>   reloadConfig let an exception of that class escape instead of answering
                                      CANT_REREAD (real files only: whatever the real parser raises)
    unparsable-file-not-CANT_REREAD:daemon:supervisorctl-reread   supervisorctl reread did not print ERROR: CANT_REREAD / exit status 0
    unchanged-file-reported:daemon[:after-chdir]    the file is the version the active groups were started from (or the one the
                                      last complete update converged to), yet reread lists a group ([:after-chdir]: real
                                      files, the daemon has changed its directory since it read the file for the first time)
    unchanged-file-update-touched-processes:daemon[:after-chdir]   ... and update signalled, removed or added something
    daemon-died-during-update / update-rpc-internal-error
    """
    V = report or Once(ctx)
    group_of = {}
    for f in inp['files']:
        for p in programs_of(f):
            group_of.setdefault(p['name'], p.get('group', p['name']))
    track = {'conv': 0}      # index of the file version the active groups correspond to (None: unknown)
    if k.outcome is None or k.outcome.startswith('exception') or k.outcome == 'blocked':
        V('daemon-died-during-update', 'the main loop ended with %s: %s' % (k.outcome, getattr(k, 'exc', '')[-300:]), inp)
        return
    if k.stuck:
        V('update-never-answered', 'the client still waits for an answer after %d passes (request %r)' % (MAXPASS, k.client.request), inp)
    calls = {}            # rpc id -> dict(method, args)
    removed = set()       # groups removed by a successful removeProcessGroup and not re-added since
    win = None            # the client step in progress
    pending_end = None    # finished step whose end state is judged at the next boundary
    last_b = None
    killed = set()        # pids that were sent a (real) signal
    waited = set()
    flagged = set()
    for r in k.log:
        kind = r['kind']
        if kind == 'client-step-begin':
            win = dict(step=r['step'], ids=set(), procs0=dict(r['procs_now']), groups0=list(r['groups']), reread=None, kills=[],
                       added_ok=set(), removed_ok=set())
        elif kind == 'client-request':
            calls[r['id']] = dict(method=r['method'], args=r['args'])
            if win is not None:
                win['ids'].add(r['id'])
        elif kind == 'rpc-begin':
            c = calls.get(r['id'])
            if c is not None:
                c['procs0'], c['groups0'] = dict(r['procs_now']), list(r['groups'])
                c['touched'] = []
        elif kind in ('fork', 'kill'):
            if kind == 'kill' and r['sig'] != 0 and r.get('result') == 'ok':
                killed.add(abs(r['pid']))
                if win is not None:
                    win['kills'].append(r)
            c = calls.get(r.get('rpc'))
            if c is not None and 'touched' in c and 'answer' not in c:
                c['touched'].append('%s %s pid %s' % (kind, r.get('name'), r['pid']))
            if kind == 'fork':
                g = group_of.get(r['name'])
                if g in removed:
                    V('fork-for-removed-group', 'pass %d: child %d forked for %s of group %s after removeProcessGroup(%s) had answered true' % (
                        k_pass(r, k), r['pid'], r['name'], g, g), inp)
        elif kind == 'wait' and r.get('pid'):
            waited.add(r['pid'])
        elif kind == 'rpc-error':
            c = calls.get(r.get('id'))
            if c is not None and c['method'] == 'reloadConfig':
                cls = str(r.get('exc', '')).split(':')[0].split('.')[-1] or 'Exception'
                if not isinstance(inp['files'][k_file_index(k, r)], list):
                    V('unparsable-file-not-CANT_REREAD:daemon:' + cls, 'reloadConfig let %s escape for a file that cannot be parsed' % (r.get('exc'),), inp)
                else:
                    V('update-rpc-internal-error', 'reloadConfig raised inside the daemon: %s' % (r.get('exc'),), inp)
        elif kind == 'rpc-answer':
            c = calls.get(r['id'])
            if c is None:
                continue
            c['answer'] = r
            m, ok = c['method'], r.get('value') is True
            if 'internal' in r:
                V('update-rpc-internal-error', '%s%r raised inside the daemon: %s' % (m, tuple(c['args']), r['internal']), inp)
            if m == 'removeProcessGroup' and 'procs0' in c:
                unstopped = sorted(full for full, (st, _) in c['procs0'].items() if full.split(':')[0] == c['args'][0] and st not in l2.STOPPED_STATES)
                if ok and unstopped:
                    V('removal-accepted-although-running', 'removeProcessGroup(%s) answered true while %r were not stopped' % (c['args'][0], unstopped), inp)
                if r.get('fault') == l2.FAULT['STILL_RUNNING'] and not unstopped:
                    V('removal-refused-although-stopped', 'removeProcessGroup(%s) answered STILL_RUNNING while every member was stopped: %r' % (
                        c['args'][0], {f: l2.ST.get(v[0]) for f, v in c['procs0'].items() if f.split(':')[0] == c['args'][0]}), inp)
            if m == 'removeProcessGroup' and ok:
                removed.add(c['args'][0])
                if win is not None:
                    win['removed_ok'].add(c['args'][0])
            elif m == 'addProcessGroup' and ok:
                removed.discard(c['args'][0])
                if win is not None:
                    win['added_ok'].add(c['args'][0])
            elif m == 'reloadConfig':
                if win is not None:
                    win['reread'] = r
                if c.get('touched') or r['procs_now'] != c.get('procs0') or r['groups'] != c.get('groups0'):
                    V('reread-touched-processes', 'reloadConfig by itself: %s; processes %r -> %r; groups %r -> %r' % (
                        c.get('touched'), c.get('procs0'), r['procs_now'], c.get('groups0'), r['groups']), inp)
                ctx.count('daemon:reread:' + ('fault-%s' % FAULT_NAME.get(r['fault'], r['fault']) if 'fault' in r else 'ok'))
        elif kind == 'client-step-end':
            if win is not None:
                win['end'] = r
                pending_end, win = win, None
        elif kind == 'boundary':
            last_b = r
            active = {full.split(':')[0] for full in r['procs']}
            rep = r.get('reported')
            if rep is not None and '__error__' in rep:
                V('update-rpc-internal-error', 'getAllProcessInfo raised %s' % (rep['__error__'][0],), inp)
                rep = None
            for name, kids in r['kernel'].items():
                for pid, state in kids:
                    if state != 'alive':
                        continue
                    g = group_of.get(name)
                    full = '%s:%s' % (g, name)
                    tracked = r['procs'].get(full)
                    ok = tracked is not None and tracked[1] == pid and (rep is None or (full in rep and rep[full][1] == pid))
                    if ok:
                        continue
                    vk = 'removed-group-has-surviving-child' if g not in active else 'child-outside-process-table'
                    if (vk, pid) in flagged:
                        continue
                    flagged.add((vk, pid))
                    if g not in active:
                        V('removed-group-has-surviving-child', 'pass %d: child %d of %s is alive, its group %s %s and is not active (active: %s)' % (
                            r['passno'], pid, name, g, 'was removed' if g in removed else 'is not in the process table', sorted(active)), inp)
                    else:
                        V('child-outside-process-table', 'pass %d: child %d of %s is alive, but the active group %s reports %r for that process' % (
                            r['passno'], pid, name, g, tracked), inp)
            if pending_end is not None:
                judge_step(ctx, V, k, inp, pending_end, r, group_of, killed, waited, track)
                pending_end = None
    if pending_end is not None and last_b is not None:
        judge_step(ctx, V, k, inp, pending_end, last_b, group_of, killed, waited, track)


def k_pass(r, k):
    return next((q['passno'] for q in k.log[k.log.index(r):] if q['kind'] == 'boundary'), -1)


def k_file_index(k, r):
    """the file version on disk when record r was made (the client's 'write' steps before it)"""
    idx = 0
    for q in k.log:
        if q is r:
            break
        if q['kind'] == 'client-step-begin' and q['step'][0] == 'write':
            idx = int(q['step'][1])
    return idx


def judge_step(ctx, V, k, inp, win, b, group_of, killed, waited, track=None):
    """a client step has returned; `b` is the first main-loop boundary after that"""
    step, end = win['step'], win['end']
    kind = step[0]
    track = track if track is not None else {'conv': None}
    if kind in ('remove', 'add', 'stop', 'start') and (win['removed_ok'] or win['added_ok']):
        track['conv'] = None
    oc = end['outcome'].split(':')
    ctx.count('daemon:step:%s:%s' % (kind, FAULT_NAME.get(int(oc[1]), oc[1]) if oc[0] == 'fault' else (oc[0] if end['exitstatus'] == 0 else 'exitstatus-%s' % end['exitstatus'])))
    if oc[0] == 'exc' or (oc[0] == 'fault' and int(oc[1]) not in (l2.FAULT['STILL_RUNNING'], l2.FAULT['CANT_REREAD'])):
        V('client-step-aborted:daemon', 'supervisorctl %s ended with %s after printing %r' % (' '.join(str(x) for x in step), end['outcome'], end['output']), inp)
    if kind == 'update' and oc[0] == 'fault' and int(oc[1]) == l2.FAULT['STILL_RUNNING']:
        # `update` stopped a removed/changed group, a member that was EXITED with a restart pending (not "running", so
        # stopProcessGroup skipped it) was forked again before removeProcessGroup arrived, the removal answered
        # STILL_RUNNING and do_update re-raised it: the groups of the file are not the active ones (open finding F52)
        V('update-aborted-still-running:restart-pending-member',
          'supervisorctl %s ended with STILL_RUNNING after printing %r: the active groups are not those of the file' % (
              ' '.join(str(x) for x in step), end['output']), inp)
    if kind not in ('update', 'reread'):
        return
    files = inp['files']
    f = files[end['file_index']]
    active = sorted({full.split(':')[0] for full in b['procs']})
    rr = win['reread']
    if not isinstance(f, list):
        # unparsable file: everything stays as it was
        bad = []
        if rr is None or rr.get('fault') != l2.FAULT['CANT_REREAD']:
            bad.append('reloadConfig answered %r' % (rr and (rr.get('fault', rr.get('value'))),))
        if sorted(win['groups0']) != active:
            bad.append('active groups %r -> %r' % (sorted(win['groups0']), active))
        if win['kills'] or win['added_ok'] or win['removed_ok']:
            bad.append('signals %r, added %r, removed %r' % ([(x['name'], x['sig']) for x in win['kills']], sorted(win['added_ok']), sorted(win['removed_ok'])))
        if bad:
            V('cant-reread-changed-something', '%s with an unparsable file: %s' % (kind, '; '.join(bad)), inp)
        if kind == 'reread' and rr is not None and (not any('ERROR: CANT_REREAD' in l for l in end['output']) or end['exitstatus'] == 0):
            V('unparsable-file-not-CANT_REREAD:daemon:supervisorctl-reread', 'supervisorctl reread with an unparsable file printed %r, exit status %s' % (end['output'], end['exitstatus']), inp)
        return
    if rr is None or 'fault' in rr or not isinstance(rr.get('value'), list):
        if kind == 'update':
            track['conv'] = None
        return
    added, changed, removed = rr['value'][0]
    reported = set(added) | set(changed) | set(removed)
    # ---- an unchanged file reports nothing, and update then touches nothing
    conv = track['conv']
    if conv is not None and inp['files'][conv] == f:
        sfx = ':after-chdir' if (inp.get('real') or {}).get('chdir', bool(inp.get('real'))) else ''
        if reported:
            V('unchanged-file-reported:daemon' + sfx, 'supervisorctl %s: the file is version %d, the one the active groups were made from, yet reread lists added=%r changed=%r removed=%r' % (
                ' '.join(str(x) for x in step), end['file_index'], added, changed, removed), inp)
        if kind == 'update' and (win['kills'] or win['added_ok'] or win['removed_ok']):
            V('unchanged-file-update-touched-processes:daemon' + sfx, 'supervisorctl %s with an unchanged file: signals %r, added %r, removed %r; pids %r -> %r' % (
                ' '.join(str(x) for x in step), [(x['name'], x['sig']) for x in win['kills']], sorted(win['added_ok']), sorted(win['removed_ok']),
                {n: v[1] for n, v in win['procs0'].items()}, {n: v[1] for n, v in b['procs'].items()}), inp)
    if kind == 'update':
        track['conv'] = end['file_index'] if (end['outcome'] == 'ok' and end['exitstatus'] == 0 and not named_of(step)) else (conv if not (win['added_ok'] or win['removed_ok']) else None)
    want = file_digest(f)
    if kind == 'reread':
        handled = set()
    else:
        named = set(step[1].split())
        if 'all' in named:
            named = set()
        handled = {g for g in reported if not named or g in named}
    # ---- groups that were not reported / not to be handled keep their processes and pids
    for x in win['kills']:
        g = group_of.get(x.get('name'))
        if g not in handled:
            V('unreported-group-touched', '%s %r (reread listed added=%r changed=%r removed=%r): signal %d sent to child %d of %s in group %s' % (
                kind, step[1:] and step[1], added, changed, removed, x['sig'], abs(x['pid']), x.get('name'), g), inp)
            break
    for full, (st0, pid0) in win['procs0'].items():
        g = full.split(':')[0]
        if g in handled:
            continue
        now = b['procs'].get(full)
        if now is None:
            V('unreported-group-touched', '%s: %s was not to be handled (reread listed added=%r changed=%r removed=%r) but is gone; active %r' % (
                kind, full, added, changed, removed, active), inp)
            break
        if pid0 and now[1] != pid0 and (pid0 in killed or pid0 not in waited):
            V('unreported-group-touched', '%s: child %d of %s (group not to be handled) was replaced by %d although the script did not make it exit' % (
                kind, pid0, full, now[1]), inp)
            break
    if kind != 'update':
        return
    if end['outcome'] != 'ok' or end['exitstatus'] != 0:
        return                 # a refused / failed step was reported to the user: convergence is not promised (the invariants above still are)
    digests = end['digests']
    if not named_of(step):
        if active != sorted(want):
            V('update-does-not-converge:daemon', 'update returned without error; active groups %r, the file has %r (reread listed added=%r changed=%r removed=%r; supervisorctl printed %r)' % (
                active, sorted(want), added, changed, removed, end['output']), inp)
        check = [g for g in active if g in want]
    else:
        nm = named_of(step)
        for g in sorted(nm & reported):
            if (g in want) != (g in active):
                V('update-does-not-converge:daemon', 'update %s returned without error; group %s is %sactive, the file %s it (supervisorctl printed %r)' % (
                    step[1], g, '' if g in active else 'not ', 'has' if g in want else 'does not have', end['output']), inp)
        check = [g for g in active if g in want and g in nm]
    for g in check:
        if g in digests and digests[g] != want[g]:
            V('updated-group-has-other-options', 'after update %r group %s runs with [priority, processes] %r, the file says %r' % (step[1], g, digests[g], want[g]), inp)


def named_of(step):
    nm = set(step[1].split())
    return set() if 'all' in nm else nm


# ------------------------------------------------------------------------------------------------ generators

TERM = int(signal.SIGTERM)


def P(name, group, **kw):
    d = dict(name=name, group=group, gprio=999, prio=999, autostart=True, autorestart='unexpected', startsecs=1, startretries=3,
             exitcodes=[0], stopsignal=TERM, stopwaitsecs=2, dies_on='any', die_delay=0)
    d.update(kw)
    return d


def batch(name, group, lifetime=1, **kw):
    """a short job kept in a loop: exits `lifetime` passes after every start and is restarted"""
    kw.setdefault('autorestart', 'true'); kw.setdefault('startsecs', 0); kw.setdefault('exit_status', 0)
    return P(name, group, lifetime=lifetime, **kw)


def worlds():
    """[(label, old file, new file, interesting groups)] small structured worlds; every group keeps the default priority 999
    unless the label says otherwise"""
    W = []
    other = P('other', 'other', startsecs=0)
    # the seeded C15-6 demo: a batch job is dropped from the file, another group of the same priority stays
    W.append(('batch-group-removed', [batch('job', 'job'), other], [other]))
    # ... changed instead (an option of the member differs): stop, remove, add
    W.append(('batch-group-changed', [batch('job', 'job'), other], [batch('job', 'job', startretries=5), other]))
    # a group with a daemon and a batch member is dropped; a third group is changed; one is added
    W.append(('mixed-group-removed-one-changed-one-added',
              [P('web', 'app'), batch('cron', 'app', lifetime=2), other, P('db', 'db', startsecs=0)],
              [other, P('db', 'db', startsecs=0, stopwaitsecs=3), P('new', 'new', startsecs=0)]))
    # restart on unexpected exit only: the job exits with status 1
    W.append(('unexpected-exit-batch-removed', [batch('job', 'job', autorestart='unexpected', exit_status=1, startsecs=0), other, P('idle', 'idle', autostart=False)],
              [other, P('idle', 'idle', autostart=False)]))
    # distinct priorities: the removed group has no neighbour of its priority
    W.append(('batch-group-removed-distinct-priorities', [batch('job', 'job', gprio=5), P('other', 'other', startsecs=0, gprio=10)],
              [P('other', 'other', startsecs=0, gprio=10)]))
    # the changed group gains a member and its priority changes to that of its neighbour
    W.append(('batch-group-gains-member', [batch('job', 'job', gprio=5), other], [batch('job', 'job'), P('side', 'job', startsecs=0), other]))
    # a longer job in a changed group: an old group object's child would still be alive when the group is active again
    W.append(('slow-batch-group-changed', [batch('job', 'job', lifetime=3), other], [batch('job', 'job', lifetime=3, stopwaitsecs=4), other]))
    return W


def exhaustive(ctx):
    """structured worlds x (latency before stopProcessGroup, removeProcessGroup, addProcessGroup) in 0..3 x phase of the batch
    job at the time of the update: the removal is dispatched in every phase of its members, in particular in the pass
    right after a member exited with a restart pending"""
    quick = ctx.tier == 'quick'
    for label, old, new in worlds():
        period = max([p.get('lifetime', 0) for p in old]) + 1
        dold, dnew = file_digest(old), file_digest(new)
        has_add = any(dold.get(g) != d for g, d in dnew.items())
        adds = (0, 1, 2, 3) if (has_add and not quick) else ((0, 1) if has_add else (0,))
        for phase in range(period):
            for ls in range(4):
                for lr in range(4):
                    for la in adds:
                        lat = {'default': [0], 'by_method': {'stopProcessGroup': ls, 'removeProcessGroup': lr, 'addProcessGroup': la}}
                        yield make_input([old, new], [], [['write', 1], ['update', '']], 4 + phase, lat, tail=5,
                                         label='%s/phase%d/lat%d%d%d' % (label, phase, ls, lr, la))


REGRESSION = [
    # seeded C15-6 (runforever's guard decided by == instead of identity): group job = a batch program (autorestart=true,
    # startsecs=0), group other has the same default priority 999 and stays; the file drops job; the removal arrives in the
    # pass right after job exited with its restart pending
    make_input([[batch('job', 'job'), P('other', 'other', startsecs=0)], [P('other', 'other', startsecs=0)]], [], [['write', 1], ['update', '']], 4,
               {'default': [0], 'by_method': {'stopProcessGroup': 0, 'removeProcessGroup': 0}}, label='regression/c15-6-demo-a'),
    make_input([[batch('job', 'job'), P('other', 'other', startsecs=0)], [P('other', 'other', startsecs=0)]], [], [['write', 1], ['update', '']], 5,
               {'default': [0], 'by_method': {'stopProcessGroup': 0, 'removeProcessGroup': 0}}, label='regression/c15-6-demo-b'),
    make_input([[batch('job', 'job'), P('other', 'other', startsecs=0)], [P('other', 'other', startsecs=0)]], [], [['write', 1], ['update', '']], 4,
               {'default': [0], 'by_method': {'stopProcessGroup': 1, 'removeProcessGroup': 2}}, label='regression/c15-6-demo-c'),
    # the same with supervisorctl stop + remove, and a later update that brings the group back
    make_input([[batch('job', 'job'), P('other', 'other', startsecs=0)], [P('other', 'other', startsecs=0)]], [],
               [['stop', 'job:*'], ['remove', 'job'], ['sleep', 3], ['update', '']], 4, {'default': [0, 1]}, label='regression/stop-remove-update'),
]


OPTION_CHANGES = [('startretries', [0, 1, 5]), ('startsecs', [0, 1, 2]), ('autorestart', ['false', 'unexpected', 'true']), ('autostart', [True, False]),
                  ('stopwaitsecs', [1, 2, 3]), ('stopsignal', [TERM, int(signal.SIGINT), int(signal.SIGHUP)]), ('prio', [1, 5, 999]), ('exitcodes', [[0], [0, 2], [1]])]


def gen_random(rng):
    """a random old file, one or two later versions, a script that produces a state mixture, a client session"""
    ng = rng.randrange(2, 5)
    prio_pool = rng.choice([[999], [999, 999, 999, 5], [1, 5, 999], [5, 5, 10]])
    old = []
    for gi in range(ng):
        g = 'g%d' % gi
        gp = rng.choice(prio_pool)
        for pi in range(rng.choice([1, 1, 2, 3])):
            name = '%sp%d' % (g, pi)
            role = rng.choice(['daemon', 'daemon', 'batch', 'batch', 'idle', 'oneshot', 'crasher', 'slowstart', 'stubborn'])
            if role == 'daemon':
                p = P(name, g, startsecs=rng.choice([0, 1]), autorestart=rng.choice(['unexpected', 'true', 'false']))
            elif role == 'batch':
                p = batch(name, g, lifetime=rng.choice([1, 1, 2, 3]), autorestart=rng.choice(['true', 'true', 'unexpected']),
                          exit_status=rng.choice([0, 1, 1]), startsecs=rng.choice([0, 0, 1]))
            elif role == 'idle':
                p = P(name, g, autostart=False)
            elif role == 'oneshot':
                p = P(name, g, startsecs=0, autorestart='false', lifetime=rng.choice([1, 2]), exit_status=rng.choice([0, 1]))
            elif role == 'crasher':
                p = P(name, g, startsecs=rng.choice([1, 2]), startretries=rng.choice([0, 1, 3]), lifetime=1, exit_status=1)
            elif role == 'slowstart':
                p = P(name, g, startsecs=rng.choice([3, 5]))
            else:
                p = P(name, g, startsecs=0, dies_on='kill', stopwaitsecs=rng.choice([1, 2]), die_delay=rng.choice([0, 1]))
            p['gprio'] = gp
            p['prio'] = rng.choice([999, 999, 5])
            old.append(p)
    def mutate(cur, tag):
        groups = sorted({p['group'] for p in cur})
        new = []
        for g in groups:
            members = [dict(p) for p in cur if p['group'] == g]
            r = rng.random()
            if r < 0.3:
                continue                                       # removed
            if r < 0.65:                                       # changed
                how = rng.choice(['option', 'option', 'member-added', 'member-dropped', 'gprio'])
                if how == 'option':
                    m = rng.choice(members)
                    key, vals = rng.choice(OPTION_CHANGES)
                    m[key] = rng.choice([v for v in vals if v != m.get(key, CFG_DEFAULT.get(key))] or vals)
                elif how == 'member-added':
                    members.append(P('%s%sx' % (g, tag), g, gprio=members[0]['gprio'], startsecs=rng.choice([0, 1])))
                elif how == 'member-dropped' and len(members) > 1:
                    members.pop(rng.randrange(len(members)))
                else:
                    gp = rng.choice([x for x in (1, 5, 10, 999) if x != members[0]['gprio']])
                    for m in members:
                        m['gprio'] = gp
            new.extend(members)
        for j in range(rng.choice([0, 0, 1, 2])):
            g = 'n%s%d' % (tag, j)
            new.append(P(g + 'p0', g, gprio=rng.choice(prio_pool), startsecs=rng.choice([0, 1]), autostart=rng.random() < 0.8))
        if not new:
            new = [dict(p) for p in cur[:1]]
        rng.shuffle(new)
        return new
    files = [old, mutate(old, 'a')]
    names = [p['name'] for p in old]
    start = rng.randrange(2, 12)
    script = []
    for i in range(start + rng.randrange(0, 10)):
        acts = []
        if rng.random() < 0.25:
            acts.append(('exit', rng.choice(names), rng.choice([0, 0, 1, 2])))
        script.append((rng.choice([512, 1024, 1024, 1024, 2048]), acts))
    def arg(fi):
        cand = sorted({p['group'] for p in files[fi - 1]} | {p['group'] for p in files[fi]})
        return ' '.join(rng.sample(cand, rng.choice([1, 1, 2]) if len(cand) > 1 else 1))
    story = rng.choice(['update', 'update', 'update', 'update-named', 'reread-update', 'stop-remove', 'two-updates', 'unparsable', 'named-then-all'])
    if story == 'update':
        steps = [['write', 1], ['update', rng.choice(['', '', 'all'])]]
    elif story == 'update-named':
        steps = [['write', 1], ['update', arg(1)]]
    elif story == 'reread-update':
        steps = [['write', 1], ['reread'], ['sleep', rng.randrange(0, 4)], ['update', '']]
    elif story == 'stop-remove':
        g = rng.choice(sorted({p['group'] for p in old}))
        steps = [['stop', g + ':*'], ['remove', g], ['sleep', rng.randrange(0, 4)], ['write', 1], ['update', '']]
    elif story == 'two-updates':
        files.append(mutate(files[1], 'b'))
        steps = [['write', 1], ['update', ''], ['sleep', rng.randrange(0, 6)], ['write', 2], ['reread'], ['update', '']]
    elif story == 'unparsable':
        files.append({'unparsable': True})
        steps = [['write', 2], ['update', ''], ['reread'], ['write', 1], ['update', '']]
    else:
        steps = [['write', 1], ['update', arg(1)], ['sleep', rng.randrange(0, 3)], ['update', 'all']]
    lat = {'default': [rng.randrange(0, 4) for _ in range(rng.randrange(1, 6))]}
    return make_input(files, script, steps, start, lat, fill_dt=rng.choice([512, 1024, 1024, 2048]), tail=rng.choice([3, 6, 10]), label='random/' + story)


# ------------------------------------------------------------------------------------------------ real files

REL_LOGS = {'stdout_logfile': ['web.log', 'logs/web.log', './out.log', 'logs/../o.log', 'rel/%(program_name)s.out'],
            'stderr_logfile': ['web.err', 'logs/web.err', './logs/e.log'],
            'directory': ['rel', '.', './logs']}
# %-expressions `value % expansions` rejects: with a TypeError (the unescaped strftime percent, numeric conversions of
# strings ...) and with a ValueError / KeyError
BAD_FORMATS = ['/sim/%(program_name)s +%d', '/sim/x --stamp=%e', '/sim/x -t %c', '/sim/x +%x', '/sim/x %i', '/sim/x %f', '/sim/x %5d', '/sim/x %(program_name)d',
               '/sim/x %(here)d', '/sim/x %(group_name)x', '/sim/x +%H:%M', '/sim/x +%Y', '/sim/x %(nosuch)s', '/sim/x %']
BAD_OPTIONS = [('startsecs', 'soon'), ('autostart', 'maybe'), ('stopsignal', 'NOSUCH'), ('exitcodes', '0,x'), ('priority', 'high'), ('user', 'no-such-user-verif'),
               ('stdout_logfile', '/nonexistent-verif/x.log'), ('environment', 'A'), ('numprocs', '2'), ('umask', '9')]
BAD_RAW = ['command=/sim/stray\n[supervisord]\n', '', '[program:a]\ncommand=/sim/a\n',
           '[supervisord]\n\n[program:a]\ncommand=/sim/a\nthis is no option line\n', '[supervisord]\n[include]\n']


def relativise(rng, progs, p=0.7):
    out = []
    for q in progs:
        q = dict(q)
        ini = dict(q.get('ini', {}))
        for k, vals in sorted(REL_LOGS.items()):
            if rng.random() < p:
                ini[k] = rng.choice(vals)
        q['ini'] = ini
        out.append(q)
    return out


def unparsable_real(rng, progs):
    """a version of the file that cannot be parsed: one option of one program holds a value that is rejected"""
    r = rng.random()
    if r < 0.15:
        return {'unparsable': True, 'programs': [dict(q) for q in progs], 'raw': rng.choice(BAD_RAW)}
    progs = [dict(q) for q in progs]
    q = rng.choice(progs)
    ini = dict(q.get('ini', {}))
    if r < 0.7:
        bad = rng.choice(BAD_FORMATS)
        k = rng.choice(['command', 'command', 'environment', 'directory', 'stdout_logfile', 'process_name', 'startsecs'])
        ini[k] = bad if k == 'command' else ('STAMP="%s"' % bad.split(' ', 1)[1] if k == 'environment' else bad.split(' ', 1)[1])
    else:
        k, v = rng.choice(BAD_OPTIONS)
        ini[k] = v
    q['ini'] = ini
    ver = {'unparsable': True, 'programs': progs}
    if rng.random() < 0.15:
        ver['supervisord'] = {rng.choice(['identifier', 'environment', 'minfds']): rng.choice(['sv%d', 'A="%c"', '%(here)d'])}
        q['ini'] = dict(q.get('ini', {})); q['ini'].pop(k, None)
    return ver


def real_worlds():
    """[(label, file versions, steps)]: small structured worlds read from real files"""
    W = []
    other = P('other', 'other', startsecs=0)
    web = P('web', 'web', startsecs=0, ini={'stdout_logfile': 'web.log', 'stderr_logfile': 'web.err'})
    job = batch('job', 'job', ini={'stderr_logfile': 'logs/job.err', 'directory': 'rel'})
    absl = P('abs', 'abs', startsecs=0, ini={'stdout_logfile': '/tmp/verif_c15_abs.log', 'stderr_logfile': 'AUTO'})
    v0 = [web, job, absl, other]
    # seeded C15-8: relative child log file names, an unchanged file, the daemon has changed its directory
    W.append(('unchanged-relative-logfiles', [v0], [['reread'], ['update', ''], ['sleep', 2], ['reread'], ['update', 'all']]))
    W.append(('unchanged-relative-logfiles-named', [v0], [['update', 'web'], ['reread']]))
    # a relative name changes (that IS a change), then nothing more
    v1 = [dict(web, ini={'stdout_logfile': 'logs/web.log', 'stderr_logfile': 'web.err'}), job, absl, other]
    W.append(('relative-logfile-renamed', [v0, v1], [['write', 1], ['reread'], ['update', ''], ['sleep', 1], ['reread'], ['update', '']]))
    # seeded C15-7: an unescaped strftime percent; `%(program_name)d`; then the file is repaired
    for i, bad in enumerate(['/sim/stamp +%d', '/sim/stamp %(program_name)d', '/sim/stamp +%Y', '/sim/stamp -t %c']):
        stamp = P('stamp', 'stamp', autostart=False)
        b0 = [stamp, other]
        W.append(('unparsable-format-%d' % i, [b0, {'unparsable': True, 'programs': [dict(stamp, ini={'command': bad}), other]}, [dict(stamp, startsecs=2), other]],
                  [['write', 1], ['reread'], ['update', ''], ['write', 2], ['update', '']]))
    return W


def real_exhaustive(ctx):
    for label, files, steps in real_worlds():
        for chdir in (True, False):
            for start in ((3, 4) if ctx.tier == 'quick' else (3, 4, 5)):
                yield make_input(files, [], steps, start, {'default': [0, 1]}, tail=4, label='real/%s/%s/start%d' % (label, 'chdir' if chdir else 'same-directory', start),
                                 real={'chdir': chdir, 'childlogdir': 'absolute'})


def gen_real(rng):
    """random worlds read from real files: relative paths in the path-valued options, a reread / update in another
    directory than the first parse, unchanged / changed / unparsable versions"""
    inp = gen_random(rng)
    files = [f for f in inp['files'] if isinstance(f, list)]
    files = [relativise(rng, f, p=0.6) for f in files[:1]] + files[1:]
    by_name = {p['name']: p for p in files[0]}
    for f in files[1:]:                      # a program keeps its raw options in the later versions
        for q in f:
            if q['name'] in by_name and 'ini' in by_name[q['name']]:
                q['ini'] = dict(by_name[q['name']]['ini'])
    story = rng.choice(['unchanged', 'unchanged', 'changed', 'unparsable', 'unparsable', 'unparsable-then-changed'])
    if story == 'unchanged':
        steps = rng.choice([[['reread'], ['update', '']], [['update', '']], [['update', ''], ['sleep', 2], ['update', 'all'], ['reread']],
                            [['write', 1], ['update', ''], ['sleep', 1], ['reread'], ['update', '']]])
    elif story == 'changed':
        steps = [['write', 1], ['reread'], ['update', ''], ['reread']]
    elif story == 'unparsable':
        files = files[:2] + [unparsable_real(rng, files[rng.randrange(2)])]
        steps = [['write', 2], rng.choice([['reread'], ['update', '']]), rng.choice([['reread'], ['update', 'all']]), ['write', 0], ['update', '']]
    else:
        files = files[:2] + [unparsable_real(rng, files[0])]
        steps = [['write', 2], ['update', ''], ['write', 1], ['reread'], ['update', '']]
    return make_input(files, inp['script'], steps, inp['start'], inp['lat'], fill_dt=inp['fill_dt'], tail=inp['tail'], label='real/random/' + story,
                      real={'chdir': rng.random() < 0.8, 'childlogdir': rng.choice(['absolute', 'absolute', 'relative'])})


# ------------------------------------------------------------------------------------------------ population

def run_one(ctx, inp, report):
    k, outcome = run_input(inp, scratch=ctx.scratch)
    if outcome == 'exception:HarnessError':
        from framework import Infra
        raise Infra('C15 daemon population: ' + getattr(k, 'exc', '')[-600:])
    ctx.count('daemon:outcome:' + outcome)
    ctx.count('daemon:world:' + inp.get('label', '').split('/')[0] + ('/' + inp['label'].split('/')[1] if inp.get('label', '').startswith('random/') else ''))
    states = set()
    for r in k.log:
        if r['kind'] == 'rpc-begin' and r['method'].endswith(('reloadConfig', 'removeProcessGroup')):
            for full, (st, pid) in r['procs_now'].items():
                states.add(st)
                if r['method'].endswith('removeProcessGroup') and r['args'] and full.split(':')[0] == r['args'][0]:
                    ctx.count('daemon:member-state-at-removal:' + l2.ST.get(st, str(st)))
        elif r['kind'] == 'rpc-answer' and 'fault' in r:
            ctx.count('daemon:fault:' + FAULT_NAME.get(r['fault'], str(r['fault'])))
        elif r['kind'] in ('fork', 'kill'):
            ctx.count('daemon:' + r['kind'])
    for st in states:
        ctx.count('daemon:state-at-reread-or-removal:' + l2.ST.get(st, str(st)))
    if inp.get('real'):
        # a version the generator calls unparsable must be one an independent parse rejects
        import config_l1 as L
        path = os.path.join(ctx.scratch, 'c15real', 'check.conf')
        for i, f in enumerate(inp['files']):
            if not isinstance(f, list):
                with open(path, 'w', encoding='utf-8') as fh:
                    fh.write(render_version(f, k.rundir, k.childlogdir))
                cwd0 = os.getcwd()
                try:
                    os.chdir(k.rundir)
                    st = L.parse_with(L.make_options(L.ENV_VARS), path, reread=True).status
                finally:
                    os.chdir(cwd0)
                if st == 'ok':
                    from framework import Infra
                    raise Infra('C15 daemon population: file version %d of %r is marked unparsable but parses' % (i, inp.get('label')))
    monitor(ctx, k, inp, report)
    ctx.case_done(('daemon', repr(inp['files']), repr(inp['script']), repr(inp['steps']), inp['start'], repr(inp['lat'])), True)
    return k


def run_population(ctx):
    report = Once(ctx)
    for inp in REGRESSION:
        run_one(ctx, inp, report)
    for inp in real_exhaustive(ctx):
        run_one(ctx, inp, report)
        if ctx.searching and ctx.violations:
            return
    for inp in exhaustive(ctx):
        run_one(ctx, inp, report)
        if ctx.searching and ctx.violations:
            return
    for _ in range(ctx.n(40, 400)):
        run_one(ctx, gen_real(ctx.rng), report)
        if ctx.searching and ctx.violations:
            return
    for _ in range(ctx.n(150, 1500)):
        run_one(ctx, gen_random(ctx.rng), report)
        if ctx.searching and ctx.violations:
            return


def replay(ctx, inp):
    run_one(ctx, inp, Once(ctx, limit=1000))
