import SupervisorModel.Basic.DriverKit
import SupervisorModel.Model.SupDriver
def main : IO Unit := Sv.driverMain [("sup", Sv.Sup.runCase)]
