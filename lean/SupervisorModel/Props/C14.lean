import SupervisorModel.Lemmas.Config
/-
  C14 — a configuration file determines exactly the configured process set.
  Property theorems over Model/Config.lean; every table and guard they mention (`Sv.Gen.Config.*`) is
  regenerated from /repo on each run.
-/
set_option linter.unusedSimpArgs false
set_option maxRecDepth 4000
namespace Sv.Props.C14
open Sv Sv.Config Sv.Gen.Config


/-- **env_precedence.**  The child environment is the [supervisord] environment overridden by the program's:
    a variable has the program's value when the program sets it (the last binding, as in a Python dict),
    otherwise the [supervisord] value. -/
theorem env_precedence (sup prog : KV) (k : String) :
    (mergeEnv sup prog).lookup k = (prog.reverse.lookup k <|> sup.lookup k) := by
  simp [mergeEnv, lookup_dupdate]

example : (mergeEnv [("A", "sup"), ("B", "sup")] [("A", "prog")]).lookup "A" = some "prog" := by decide
example : (mergeEnv [("A", "sup"), ("B", "sup")] [("A", "prog")]).lookup "B" = some "sup" := by decide

/-- every process of the result has the merged environment -/
theorem env_merged_everywhere (sup : KV) (g : GConfig) :
    (mergeGroupEnv sup g).procs.map (·.environment) = g.procs.map (fun p => mergeEnv sup p.environment) := by
  simp [mergeGroupEnv, List.map_map, Function.comp_def]

/-! ### documented defaults -/

/-- the value a coded default denotes; a default that names another local (killasgroup ← stopasgroup)
    is that option's own converted default -/
def dfltRaw (scope : String) : Dflt → Option Raw
  | .none => some .none
  | .str s => some (.str s)
  | .int n => some (.int n)
  | .bool b => some (.bool b)
  | .auto => some .auto
  | .required => none
  | .ref r =>
    match findRow scope r with
    | none => none
    | some row =>
      match row.dflt with
      | .str s => match convert row.conv (.str s) with
        | .ok (.bool b) => some (.bool b)
        | .ok (.int n) => some (.int n)
        | .ok (.str t) => some (.str t)
        | _ => none
      | _ => none

/-- converted value of an option as the model computes it (log file names go through `logfile_name`) -/
def effective (row : OptRow) (r : Raw) : Option (CVal ⊕ LogFile) :=
  if strContains "_logfile" row.opt && row.conv == "" then
    match logfileName [] r with
    | .ok l => some (.inr l)
    | .error _ => none
  else
    match convert row.conv r with
    | .ok v => some (.inl v)
    | .error _ => none

/-- does the documented default of one option agree with the coded one? -/
def docAgrees (d : DocRow) : Bool :=
  match findRow d.scope d.opt with
  | none => false
  | some row =>
    if d.kind == "value" then
      match dfltRaw d.scope row.dflt with
      | none => false
      | some r => (effective row (.str d.text)).isSome && effective row (.str d.text) == effective row r
    else if d.kind == "unset" then row.dflt == .none || row.dflt == .str ""
    else true

/-- **defaults_documented.**  For every option of the [program:x], [group:x] and [supervisord] sections that
    docs/configuration.rst documents, the default written in options.py and the documented default denote the
    same value under the option's converter (loglevel excepted: its converter lives in the logging module,
    which is not modelled).  Decided over the two generated tables. -/
theorem defaults_documented :
    ∀ d ∈ docTable, d.scope ∈ ["program", "group", "supervisord"] → d.opt ≠ "loglevel" → docAgrees d = true := by
  decide

/-! ### numprocs law and per-process expansion -/

theorem mkProc_expands (cx : Ctx) (kind : PKind) (sec : Section) (pre : Pre) (E E' : Exps) (num : Int) (p : PConfig)
    (h : mkProc cx kind sec pre E num = .ok (p, E')) :
    ∃ envStr env nameX out err,
      expand (procExps1 cx pre E num) pre.environment_str = .ok envStr ∧
      dictOfKeyValuePairs envStr = .ok env ∧
      E' = envExps (procExps1 cx pre E num) env ∧
      p.environment = env ∧
      expand E' pre.process_name = .ok nameX ∧ processOrGroupName nameX = .ok p.name ∧
      (getField cx.penv "program" sec "command" [] E' >>= asOptStr) = .ok (some p.command) ∧
      logSet cx sec E' "stdout" = .ok out ∧ p.stdout_logfile = out.logfile ∧
      logSet cx sec E' "stderr" = .ok err ∧ p.stderr_logfile = (if pre.redirect_stderr then LogFile.none else err.logfile) ∧
      p.kind = kind := by
  simp only [mkProc, bind, Except.bind, pure, Except.pure] at h
  repeat (split at h <;> try contradiction)
  all_goals
    rename_i _ envStr h1 _ env h2 _ dir h3 _ out h4 _ err h5 _ _ cmd h6 _ nameX h7 _ name h8 hr
    injection h with h
    injection h with hp hE
    subst hp; subst hE
    refine ⟨envStr, env, nameX, out, err, h1, h2, rfl, rfl, h7, h8, ?_, h4, rfl, h5, by simp [hr], rfl⟩
    simpa [bind, Except.bind] using h6

/-- inside round `num` of the loop, `%(process_num)…` and `%(numprocs)…` denote `num` and numprocs
    (provided the ENV_ expansions do not themselves define these two names) -/
theorem loop_expansions_bind (cx : Ctx) (pre : Pre) (E : Exps) (num : Int) (env : KV)
    (hp : ∀ kv ∈ cx.penv, kv.1 ≠ "process_num" ∧ kv.1 ≠ "numprocs") :
    (envExps (procExps1 cx pre E num) env).lookup "process_num" = some (.i num) ∧
    (envExps (procExps1 cx pre E num) env).lookup "numprocs" = some (.i pre.numprocs) := by
  have r1 : cx.penv.reverse.lookup "process_num" = none :=
    lookup_none_of_keys _ _ (fun kv h => (hp kv (List.mem_reverse.mp h)).1)
  have r2 : cx.penv.reverse.lookup "numprocs" = none :=
    lookup_none_of_keys _ _ (fun kv h => (hp kv (List.mem_reverse.mp h)).2)
  constructor
  · rw [envExps_lookup _ _ _ (by decide), procExps1, lookup_dupdate, r1, lookup_dset, lookup_dset]
    simp
  · rw [envExps_lookup _ _ _ (by decide), procExps1, lookup_dupdate, r2, lookup_dset]
    simp

/-- **numprocs_law.**  A section with numprocs = n and numprocs_start = s yields exactly n processes (none when
    n ≤ 0), and the i-th one is built by the loop body for process_num = s + i … -/
theorem numprocs_law (cx : Ctx) (kind : PKind) (sec : Section) (suffix g : String) (ps : List PConfig)
    (h : processesUnsorted cx kind sec suffix g = .ok ps) :
    ∃ pn pre, processOrGroupName suffix = .ok pn ∧ parsePre cx sec (commonExps cx pn g) = .ok pre ∧
      ps.length = pre.numprocs.toNat ∧
      ∀ i (hi : i < ps.length), ∃ Ei Ei', mkProc cx kind sec pre Ei (pre.numprocs_start + i) = .ok (ps[i], Ei') := by
  obtain ⟨pn, pre, h1, h2, _, h4⟩ := processesUnsorted_ok cx kind sec suffix g ps h
  obtain ⟨hl, hall⟩ := procLoop_spec cx kind sec pre _ _ ps h4
  rw [procNums_eq] at hl hall
  rw [rangeFrom_length] at hl
  refine ⟨pn, pre, h1, h2, hl, ?_⟩
  intro i hi
  have hn : i < (rangeFrom pre.numprocs_start pre.numprocs.toNat).length := by rw [rangeFrom_length]; omega
  obtain ⟨Ei, Ei', hm⟩ := hall i hi hn
  rw [rangeFrom_get] at hm
  exact ⟨Ei, Ei', hm⟩

/-- the sorted result is a permutation of the loop's output, so the count and the set of processes are the same -/
theorem processesFromSection_perm (cx : Ctx) (kind : PKind) (sec : Section) (suffix g : String) (ps : List PConfig)
    (h : processesFromSection cx kind sec suffix g = .ok ps) :
    ∃ us, processesUnsorted cx kind sec suffix g = .ok us ∧ ps = sortBy pLt us ∧ ps.Perm us := by
  unfold processesFromSection at h
  cases hu : processesUnsorted cx kind sec suffix g with
  | error e => simp [hu, Except.map] at h
  | ok us =>
    simp only [hu, Except.map] at h
    injection h with h
    exact ⟨us, rfl, h.symm, h ▸ sortBy_perm pLt us⟩

/-- **constraint: numprocs > 1 without %(process_num).** -/
theorem constraint_numprocs_needs_process_num (cx : Ctx) (kind : PKind) (sec : Section) (suffix g pn : String) (pre : Pre)
    (h1 : processOrGroupName suffix = .ok pn) (h2 : parsePre cx sec (commonExps cx pn g) = .ok pre)
    (hn : 1 < pre.numprocs) (hm : strContains processNumMarker pre.process_name = false) :
    ∃ e, processesFromSection cx kind sec suffix g = .error e := by
  have hc : ∃ e, checkPre pre = .error e := by
    simp [checkPre, pfs_g4, hn, hm]
  obtain ⟨e, hc⟩ := hc
  exact ⟨e, by simp [processesFromSection, processesUnsorted, bind, Except.bind, h1, h2, hc, Except.map]⟩

/-- **constraint: stopasgroup without killasgroup.** -/
theorem constraint_stopasgroup_needs_killasgroup (cx : Ctx) (kind : PKind) (sec : Section) (suffix g pn : String) (pre : Pre)
    (h1 : processOrGroupName suffix = .ok pn) (h2 : parsePre cx sec (commonExps cx pn g) = .ok pre)
    (hs : pre.stopasgroup = true) (hk : pre.killasgroup = false) :
    ∃ e, processesFromSection cx kind sec suffix g = .error e := by
  have hc : ∃ e, checkPre pre = .error e := by
    simp only [checkPre, pfs_g4, pfs_g6, hs, hk]
    split <;> simp
  obtain ⟨e, hc⟩ := hc
  exact ⟨e, by simp [processesFromSection, processesUnsorted, bind, Except.bind, h1, h2, hc, Except.map]⟩

/-! ### documented constraints (continued) and converters -/

/-- **constraint: malformed numbers, booleans, signals, sizes, exit codes, autorestart words, expansions.**
    If the typed read of any pre-loop option fails (its value does not convert, or does not expand), the
    section is rejected. -/
theorem constraint_malformed_value (cx : Ctx) (kind : PKind) (sec : Section) (suffix g pn : String)
    (h1 : processOrGroupName suffix = .ok pn)
    (hbad : let gf := fun (opt : String) (locals : List (String × Raw)) =>
              getField cx.penv "program" sec opt locals (commonExps cx pn g)
            (∃ e, (gf "priority" [] >>= asInt) = .error e) ∨ (∃ e, (gf "autostart" [] >>= asBool) = .error e) ∨
            (∃ e, (gf "autorestart" [] >>= asRestart) = .error e) ∨ (∃ e, (gf "startsecs" [] >>= asInt) = .error e) ∨
            (∃ e, (gf "startretries" [] >>= asInt) = .error e) ∨ (∃ e, (gf "stopsignal" [] >>= asInt) = .error e) ∨
            (∃ e, (gf "stopwaitsecs" [] >>= asInt) = .error e) ∨ (∃ e, (gf "stopasgroup" [] >>= asBool) = .error e) ∨
            (∃ e, (gf "exitcodes" [] >>= asInts) = .error e) ∨ (∃ e, (gf "redirect_stderr" [] >>= asBool) = .error e) ∨
            (∃ e, (gf "numprocs" [] >>= asInt) = .error e) ∨ (∃ e, (gf "numprocs_start" [] >>= asInt) = .error e) ∨
            (∃ e, (gf "stdout_capture_maxbytes" [] >>= asInt) = .error e) ∨
            (∃ e, (gf "stdout_events_enabled" [] >>= asBool) = .error e) ∨
            (∃ e, (gf "stderr_capture_maxbytes" [] >>= asInt) = .error e) ∨
            (∃ e, (gf "stderr_events_enabled" [] >>= asBool) = .error e)) :
    ∃ e, processesFromSection cx kind sec suffix g = .error e := by
  have hp : ∃ e, parsePre cx sec (commonExps cx pn g) = .error e := by
    apply isError_of_not_ok
    intro pre hpre
    have hf := parsePre_fields cx sec _ pre hpre
    simp only at hf hbad
    obtain ⟨f1, f2, f3, f4, f5, f6, f7, f8, _, f10, f11, f12, f13, _, f15, f16, f17, f18, _⟩ := hf
    rcases hbad with ⟨e, h⟩ | ⟨e, h⟩ | ⟨e, h⟩ | ⟨e, h⟩ | ⟨e, h⟩ | ⟨e, h⟩ | ⟨e, h⟩ | ⟨e, h⟩ | ⟨e, h⟩ | ⟨e, h⟩ | ⟨e, h⟩ |
      ⟨e, h⟩ | ⟨e, h⟩ | ⟨e, h⟩ | ⟨e, h⟩ | ⟨e, h⟩ <;> simp_all
  obtain ⟨e, hp⟩ := hp
  exact ⟨e, by simp [processesFromSection, processesUnsorted, bind, Except.bind, h1, hp, Except.map]⟩

/-- the converters reject what the documentation calls malformed -/
theorem boolean_rejects (s : String) (h : ¬ (pyLower s ∈ truthy ∨ pyLower s ∈ falsy)) : ∃ e, boolean (.str s) = .error e := by
  simp only [not_or] at h
  simp [boolean, rawStr, h.1, h.2]

theorem boolean_accepts (s : String) (b : Bool) (h : boolean (.str s) = .ok b) :
    (b = true ∧ pyLower s ∈ truthy) ∨ (b = false ∧ pyLower s ∈ falsy) := by
  have h : (if truthy.contains (pyLower s) then Except.ok true
             else if falsy.contains (pyLower s) then Except.ok false
             else Except.error "boolean:not a valid boolean value" : Except String Bool) = .ok b := h
  by_cases ht : truthy.contains (pyLower s) = true
  · rw [if_pos ht] at h; injection h with h
    exact Or.inl ⟨h.symm, List.contains_iff_mem.mp ht⟩
  · rw [if_neg ht] at h
    by_cases hf : falsy.contains (pyLower s) = true
    · rw [if_pos hf] at h; injection h with h
      exact Or.inr ⟨h.symm, List.contains_iff_mem.mp hf⟩
    · rw [if_neg hf] at h; contradiction

theorem integer_rejects (s : String) (h : pyInt s = none) : ∃ e, integer (.str s) = .error e := by
  simp [integer, h]

theorem exitcodes_in_range (s : String) (l : List Int) (h : listOfExitcodes (.str s) = .ok l) :
    ∀ c ∈ l, 0 ≤ c ∧ c ≤ 255 := by
  simp only [listOfExitcodes] at h
  split at h
  · contradiction
  · split at h
    · contradiction
    · rename_i hany
      injection h with h; subst h
      intro c hc
      have : exitcodes_g0 c = false := by
        simp only [List.any_eq_true, not_exists, not_and, Bool.not_eq_true] at hany
        exact hany c hc
      simp [exitcodes_g0] at this
      omega

theorem signal_in_table (r : Raw) (n : Int) (h : signalNumber r = .ok n) : n ∈ sigNums := by
  have key : ∀ (L : List Int) (m : Int),
      (if L.contains m = true then Except.ok m else Except.error "signal:not a valid signal number" : Except String Int) = .ok n →
      n ∈ L := by
    intro L m hm
    by_cases hc : L.contains m = true
    · rw [if_pos hc] at hm; injection hm with hm; subst hm; exact List.contains_iff_mem.mp hc
    · rw [if_neg hc] at hm; contradiction
  cases r with
  | int m => exact key sigNums m h
  | str s =>
    unfold signalNumber at h
    dsimp only at h
    cases hp : pyInt s with
    | some m => rw [hp] at h; exact key sigNums m h
    | none =>
      rw [hp] at h
      dsimp only at h
      generalize (if strStartsWith "SIG" (pyUpper (pyStrip s)) = true then pyUpper (pyStrip s) else "SIG" ++ pyUpper (pyStrip s)) = nm at h
      cases hl : sigNames.lookup nm with
      | none => rw [hl] at h; contradiction
      | some m => rw [hl] at h; exact key sigNums m h
  | none => exact absurd h (by unfold signalNumber; exact fun h => by contradiction)
  | bool b => exact absurd h (by unfold signalNumber; exact fun h => by contradiction)
  | auto => exact absurd h (by unfold signalNumber; exact fun h => by contradiction)

/-- **constraint: forbidden name characters.**  A name is accepted only if, after stripping, it contains none
    of the generated forbidden characters; since fix F17 this test is applied to the *expanded* process name. -/
theorem name_chars (name out : String) (h : processOrGroupName name = .ok out) :
    out = String.ofList (strip name.toList) ∧ ∀ c ∈ forbiddenNameChars, c ∉ strip name.toList := by
  simp only [processOrGroupName] at h
  split at h
  · contradiction
  · rename_i hany
    injection h with h
    refine ⟨h.symm, ?_⟩
    intro c hc hin
    apply hany
    simp only [List.any_eq_true]
    exact ⟨c, hc, by simpa using hin⟩

theorem expanded_name_checked (cx : Ctx) (kind : PKind) (sec : Section) (pre : Pre) (E E' : Exps) (num : Int) (p : PConfig)
    (h : mkProc cx kind sec pre E num = .ok (p, E')) :
    ∀ c ∈ forbiddenNameChars, c ∉ p.name.toList := by
  obtain ⟨_, _, nameX, _, _, _, _, _, _, _, hn, _⟩ := mkProc_expands cx kind sec pre E E' num p h
  obtain ⟨ho, hc⟩ := name_chars nameX p.name hn
  rw [ho]
  simpa using hc


/-! ### ordering -/

/-- `a` is not after `b` in the order of Config.__lt__: smaller priority, or equal priority and name ≤ -/
def cfgLe (pa : Int) (na : String) (pb : Int) (nb : String) : Prop := pa < pb ∨ (pa = pb ∧ na ≤ nb)

theorem cfgLe_of_not_lt (pa pb : Int) (na nb : String) (h : cfgLt pb nb pa na = false) : cfgLe pa na pb nb := by
  rcases (cfgLt_false_iff pb pa nb na).mp h with h | ⟨h1, h2⟩
  · exact Or.inl h
  · exact Or.inr ⟨h1.symm, h2⟩

/-- **ordering (groups).**  The groups of an accepted file are the groups found (in any section order), sorted by
    priority then name; groups equal in both keep their file order. -/
theorem ordering_groups (cx : Ctx) (ini : Ini) (gs : List GConfig) (h : processGroupsFromParser cx ini = .ok gs) :
    ∃ us, groupsUnsorted cx ini = .ok us ∧ gs.Perm us ∧
      gs.Pairwise (fun a b => cfgLe a.priority a.name b.priority b.name) ∧
      ∀ (p : Int) (n : String), gs.filter (fun g => g.priority == p && g.name == n) = us.filter (fun g => g.priority == p && g.name == n) := by
  unfold processGroupsFromParser at h
  cases hu : groupsUnsorted cx ini with
  | error e => simp [hu, Except.map] at h
  | ok us =>
    simp only [hu, Except.map] at h
    injection h with h
    subst h
    refine ⟨us, rfl, sortBy_perm _ _, ?_, ?_⟩
    · have := sortBy_sorted gLt (cfgLt_strictWeak GConfig.priority GConfig.name) us
      exact this.imp (fun {a b} hab => cfgLe_of_not_lt _ _ _ _ hab)
    · intro p n
      apply sortBy_stable
      intro x y hx hy
      simp only [Bool.and_eq_true, beq_iff_eq] at hx hy
      simp only [gLt]
      rw [cfgLt_false_iff]
      right
      exact ⟨by rw [hx.1, hy.1], by rw [hx.2, hy.2]; exact String.le_refl _⟩

/-- **ordering (processes of a section).** -/
theorem ordering_processes (cx : Ctx) (kind : PKind) (sec : Section) (suffix g : String) (ps : List PConfig)
    (h : processesFromSection cx kind sec suffix g = .ok ps) :
    ps.Pairwise (fun a b => cfgLe a.priority a.name b.priority b.name) := by
  obtain ⟨us, _, hs, _⟩ := processesFromSection_perm cx kind sec suffix g ps h
  subst hs
  have := sortBy_sorted pLt (cfgLt_strictWeak PConfig.priority PConfig.name) us
  exact this.imp (fun {a b} hab => cfgLe_of_not_lt _ _ _ _ hab)

example : sortBy gLt [{ kind := .group, name := "b", priority := 5, procs := [] },
                      { kind := .group, name := "a", priority := 5, procs := [] },
                      { kind := .pool, name := "z", priority := -1, procs := [] }]
    = [{ kind := .pool, name := "z", priority := -1, procs := [] },
       { kind := .group, name := "a", priority := 5, procs := [] },
       { kind := .group, name := "b", priority := 5, procs := [] }] := by decide


end Sv.Props.C14
