"""
C02 -- every child is tracked and reaped once; reported state and live child agree.
L2: the unmodified Supervisor.run() over the simulated kernel; the kernel's own child table is the ground truth.
"""
from props import l2common
import l2

ID = 'C02'
LEAN_PROPS = 'SupervisorModel.Props.C02'
DRIVER = 'drv_c02'
GENERATED = ['Proc', 'Sup']
TRUSTED = l2common.TRUSTED
ASSUMPTIONS = ["fork returns a pid that is not currently in use; waitpid returns only exited, not yet waited children (or pids supervisord never forked)"]
RULE = ("scenarios = 1-5 programs in 1-5 groups with random policies x scripts of 10-40 passes (child exits incl. several per pass, "
        "foreign pids, RPC start/stop/signal between passes, fork/pipe/kill/wait/read/write faults, shutdown requests) plus a burst of 120 "
        "simultaneous exits; non-trivial = at least one state change; distinct = distinct event/fork/kill/wait trace")


def run(ctx):
    extra = [l2common.burst_scenario(ctx.rng)]
    l2common.run_all(ctx, l2common.scenarios(ctx, 1000, 20000, extra=extra), [l2.mon_c02, l2.mon_c06])
    l2common.run_all(ctx, [l2.unknown_scenario(ctx.rng) for _ in range(ctx.n(150, 3000))], [l2.mon_c02, l2.mon_c06])


def replay(ctx, data):
    l2common.replay(ctx, data, [l2.mon_c02, l2.mon_c06])


TECHNIQUE = "Lean 4: per-process bookkeeping invariant preserved by every operation (induction over histories), reap-loop lemmas over the daemon model; the daemon model is run against the unmodified runforever() over a simulated kernel"
LEVEL_TEXT = ("state_pid_agree (pid and reported state agree after every history), no_fork_with_child, fork_registers, reap_clears and the reap-loop "
              "theorems (at most 100 per invocation, unknown pids change nothing, an exit goes to the owner recorded at fork time) are proved for all "
              "histories/environments; daemon_bookkeeping (+ held_pid_recorded, no_two_processes_share_a_pid, state_pid_agree_daemon, pidhistory_wellformed): "
              "the process table and pidhistory agree at every main-loop boundary, for every sequence of passes, RPCs (incl. group add/remove) and "
              "environment answers (induction over passes); Model/Sup.lean is checked against the real main loop pass by pass")
LEVEL_NOTE = "trusts Lean's kernel, extract.py, the simulated kernel's fidelity to Linux; fork() is assumed never to return a pid that is still in pidhistory (the kernel's contract; enforced in the model's environment: popSpawn/spawnFresh); what the API reports (getAllProcessInfo) is compared with the process objects by the monitor"
DESIGN_REF = "DESIGN.md section 6, C02"
