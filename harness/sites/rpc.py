"""
XML-RPC dispatch (supervisor/xmlrpc.py, supervisor/rpcinterface.py, docs/api.rst):

tables  -- Faults; every fault name raised anywhere (static `RPCError(Faults.X)` per function and the
           dynamic `getattr(Faults, why)` names coming from readFile's `raise ValueError('X')`);
           for every public attribute of SupervisorNamespaceRPCInterface how it is gated by
           `self._update(...)`; the method lists of docs/api.rst by section; whether the log
           decoders are tolerant (fix F7); multicall's refusal texts.
           the request on its way in, by role (way_in_defs): what the body collector keeps per received piece and hands to
           continue_request, what the channel's header buffer keeps and decodes -- as expressions over as_string / join / +.
guards  -- traverse(), _update().
"""
import ast, os, re
from extract import Site, Tr, REPO, find_func, lean_str

LEAN_MODULE = 'Rpc'
IMPORTS = ['SupervisorModel.Model.RpcText']
OPENS = []


def _parse(rel):
    return ast.parse(open(os.path.join(REPO, rel)).read())


def _fault_names(node):
    """names X of every `RPCError(Faults.X, ...)` constructed under node, in source order"""
    res = []
    for n in ast.walk(node):
        if isinstance(n, ast.Call) and ast.unparse(n.func) == 'RPCError' and n.args:
            a = n.args[0]
            if isinstance(a, ast.Attribute) and ast.unparse(a.value) == 'Faults':
                res.append((n.lineno, a.attr))
            else:
                res.append((n.lineno, '?' + ast.unparse(a)))
    return [x for _, x in sorted(res)]


PURE_CALLS = ('self._getAllProcesses', 'make_allfunc', 'self.supervisord.process_groups.get', 'list', 'split_namespec')


def _gate(func):
    """how a public method is gated:
       first            self._update(...) is the first statement
       afterPure        only side-effect-free assignments precede it
       viaLeaf <name>   before it, the only effectful statement is a call of an allfunc built by
                        make_allfunc(..., self.<name>, ...)   (the wrapper gates through its leaves)
       none             no self._update(...) call, or something unrecognised precedes it"""
    body = list(func.body)
    if body and isinstance(body[0], ast.Expr) and isinstance(body[0].value, ast.Constant) and isinstance(body[0].value.value, str):
        body = body[1:]
    allfuncs = {}     # local name -> leaf method
    leaf = None
    pure_seen = False
    for st in body:
        if isinstance(st, ast.Expr) and isinstance(st.value, ast.Call) and ast.unparse(st.value.func) == 'self._update':
            if leaf:
                return 'viaLeaf', leaf
            return ('afterPure' if pure_seen else 'first'), None
        if isinstance(st, ast.Assign) and len(st.targets) == 1 and isinstance(st.targets[0], ast.Name):
            v = st.value
            calls = [c for c in ast.walk(v) if isinstance(c, ast.Call)]
            names = [ast.unparse(c.func) for c in calls]
            tgt = st.targets[0].id
            if isinstance(v, ast.Call) and ast.unparse(v.func) == 'make_allfunc' and len(v.args) >= 3 \
                    and isinstance(v.args[2], ast.Attribute) and ast.unparse(v.args[2].value) == 'self':
                allfuncs[tgt] = v.args[2].attr
                pure_seen = True
                continue
            if isinstance(v, ast.Call) and isinstance(v.func, ast.Name) and v.func.id in allfuncs and not v.args and len(calls) == 1:
                if leaf is not None and leaf != allfuncs[v.func.id]:
                    return 'none', None
                leaf = allfuncs[v.func.id]
                continue
            if all(n in PURE_CALLS for n in names):
                pure_seen = True
                continue
        return 'none', None
    return 'none', None


def TABLES():
    import importlib
    import supervisor.xmlrpc as xr
    importlib.reload(xr)
    out = []
    faults = [(k, v) for k, v in vars(xr.Faults).items() if not k.startswith('_') and isinstance(v, int)]
    out.append('/-- supervisor.xmlrpc.Faults: (name, code) in definition order -/')
    out.append('def faults : List (String × Int) := [' + ', '.join('(%s, %d)' % (lean_str(k), v) for k, v in faults) + ']')
    import supervisor.states as st
    importlib.reload(st)
    out.append('def moodRunning : Int := %d' % st.SupervisorStates.RUNNING)
    out.append('/-- SupervisorStates: (name, code) -/')
    out.append('def moods : List (String × Int) := [' + ', '.join(
        '(%s, %d)' % (lean_str(k), v) for k, v in sorted(vars(st.SupervisorStates).items(), key=lambda kv: str(kv[1])) if not k.startswith('_') and isinstance(v, int)) + ']')
    out.append('def xmlrpcMaxInt : Int := %d' % xr.xmlrpclib.MAXINT)
    out.append('def xmlrpcMinInt : Int := %d' % xr.xmlrpclib.MININT)

    rpc = _parse('supervisor/rpcinterface.py')
    xml = _parse('supervisor/xmlrpc.py')
    opt = _parse('supervisor/options.py')
    cls = find_func(rpc, 'SupervisorNamespaceRPCInterface')

    # ---- _update: what it raises
    upd = find_func(rpc, 'SupervisorNamespaceRPCInterface._update')
    out.append('/-- the fault `_update` raises when its guard holds -/')
    out.append('def updateRaises : List String := [' + ', '.join(lean_str(x) for x in _fault_names(upd)) + ']')

    # ---- public attributes of the class body: defs and aliases (`readMainLog = readLog`)
    defs, aliases = {}, {}
    for n in cls.body:
        if isinstance(n, ast.FunctionDef):
            defs[n.name] = n
        elif isinstance(n, ast.Assign) and len(n.targets) == 1 and isinstance(n.targets[0], ast.Name) and isinstance(n.value, ast.Name):
            aliases[n.targets[0].id] = n.value.id
    gate_rows, raise_rows, arity_rows = [], [], []
    for name in list(defs) + list(aliases):
        if name.startswith('_'):
            continue
        f = defs.get(aliases.get(name, name))
        if f is None:
            continue
        kind, leaf = _gate(f)
        gate_rows.append('(%s, %s)' % (lean_str(name), {'first': 'Gate.first', 'afterPure': 'Gate.afterPure', 'none': 'Gate.none'}.get(kind) or '(Gate.viaLeaf %s)' % lean_str(leaf)))
        raise_rows.append('(%s, [%s])' % (lean_str(name), ', '.join(lean_str(x) for x in _fault_names(f))))
        nargs = len(f.args.args) - 1
        arity_rows.append('(%s, %d, %d)' % (lean_str(name), nargs - len(f.args.defaults), nargs))
    out.append('inductive Gate | first | afterPure | viaLeaf (leaf : String) | none')
    out.append('deriving DecidableEq, Repr')
    out.append('/-- every public attribute of SupervisorNamespaceRPCInterface (aliases included): how `self._update` gates it -/')
    out.append('def gateTable : List (String × Gate) := [\n  ' + ',\n  '.join(gate_rows) + ']')
    out.append('/-- (method, minimal and maximal number of positional arguments) -/')
    out.append('def arityTable : List (String × Nat × Nat) := [' + ', '.join(arity_rows) + ']')
    out.append('/-- fault names constructed in each public method body (closures included) -/')
    out.append('def raisesTable : List (String × List String) := [\n  ' + ',\n  '.join(raise_rows) + ']')
    helpers = []
    for n in list(cls.body) + list(rpc.body):
        if isinstance(n, ast.FunctionDef) and (n.name.startswith('_') or n in rpc.body):
            helpers.extend(_fault_names(n))
    for n in ast.walk(xml):
        if isinstance(n, ast.FunctionDef) and n.name in ('traverse', 'multicall', 'methodHelp', 'methodSignature'):
            helpers.extend(_fault_names(n))
    out.append('/-- fault names constructed in private helpers, module functions of rpcinterface.py and in xmlrpc.py -/')
    out.append('def helperRaises : List String := [' + ', '.join(lean_str(x) for x in sorted(set(helpers))) + ']')
    # dynamic names: getattr(Faults, why) with why from readFile's ValueError texts
    rf = find_func(opt, 'readFile')
    def verr(nodes):
        res = []
        for top in nodes:
            for n in ast.walk(top):
                if isinstance(n, ast.Raise) and isinstance(n.exc, ast.Call) and ast.unparse(n.exc.func) == 'ValueError' and n.exc.args:
                    a = n.exc.args[0]
                    res.append((n.lineno, a.value if isinstance(a, ast.Constant) and isinstance(a.value, str) else '?' + ast.unparse(a)))
        return [x for _, x in sorted(res)]
    tries = [n for n in ast.walk(rf) if isinstance(n, ast.Try)]
    in_body = verr(tries[0].body) if tries else []
    in_handler = verr([h for t in tries for h in t.handlers])
    out.append('/-- texts of the ValueErrors raised by options.readFile (looked up with getattr(Faults, why) by the callers):')
    out.append('    for the refused sign combinations, and in the OSError handler -/')
    out.append('def readFileRaises : List String := [' + ', '.join(lean_str(x) for x in in_body + in_handler) + ']')
    out.append('def readFileBadArgs : String := %s' % lean_str(in_body[0] if in_body and len(set(in_body)) == 1 else '?'))
    out.append('def readFileFailed : String := %s' % lean_str(in_handler[0] if len(in_handler) == 1 else '?'))

    # ---- tolerant decoding of log windows (fix F7)
    def tolerant(node):
        """every `.decode(...)` call under node passes an errors argument other than 'strict'"""
        calls = [c for c in ast.walk(node) if isinstance(c, ast.Call) and isinstance(c.func, ast.Attribute) and c.func.attr == 'decode']
        if not calls:
            return False
        for c in calls:
            err = c.args[1] if len(c.args) > 1 else next((k.value for k in c.keywords if k.arg == 'errors'), None)
            if not (isinstance(err, ast.Constant) and err.value in ('replace', 'ignore', 'backslashreplace')):
                return False
        return True
    dl = next((n for n in rpc.body if isinstance(n, ast.FunctionDef) and n.name == '_decode_log'), None)
    rl = defs.get('readLog'); rp = defs.get('_readProcessLog')
    uses = lambda f: f is not None and any(isinstance(r, ast.Return) and r.value is not None and ast.unparse(r.value) == '_decode_log(data)' for r in ast.walk(f))
    out.append('/-- readLog and _readProcessLog return `_decode_log(data)` and every decode in `_decode_log` is tolerant (fix F7) -/')
    out.append('def readDecodeTolerant : Bool := %s' % ('true' if dl is not None and tolerant(dl) and uses(rl) and uses(rp) else 'false'))
    out.append('/-- every decode in options.tailFile is tolerant (fix F7) -/')
    out.append('def tailDecodeTolerant : Bool := %s' % ('true' if tolerant(find_func(opt, 'tailFile')) else 'false'))

    # ---- docs/api.rst: automethod lists per section
    doc = open(os.path.join(REPO, 'docs', 'api.rst')).read().split('\n')
    sections, cur = {}, None
    for i, line in enumerate(doc):
        if i + 1 < len(doc) and re.match(r'^-{3,}\s*$', doc[i + 1]) and line.strip():
            cur = line.strip()
            sections[cur] = []
        m = re.match(r'\s*\.\. automethod:: (\w+)', line)
        if m and cur:
            sections[cur].append(m.group(1))
    for title, ident in (('Status and Control', 'docStatusMethods'), ('Process Control', 'docProcessControlMethods'),
                         ('Process Logging', 'docLoggingMethods'), ('System Methods', 'docSystemMethods')):
        out.append('/-- docs/api.rst, section "%s" -/' % title)
        out.append('def %s : List String := [%s]' % (ident, ', '.join(lean_str(x) for x in sections.get(title, []))))

    # ---- multicall: the name it refuses and the fault it answers
    mc = find_func(xml, 'SystemNamespaceRPCInterface.multicall')
    refused = []
    for n in ast.walk(mc):
        if isinstance(n, ast.If) and isinstance(n.test, ast.Compare) and ast.unparse(n.test.left) == 'name' \
                and isinstance(n.test.ops[0], ast.Eq) and isinstance(n.test.comparators[0], ast.Constant):
            refused.append((n.test.comparators[0].value, _fault_names(n)))
    out.append('/-- multicall: method names refused outright, with the fault raised -/')
    out.append('def multicallRefused : List (String × List String) := [' + ', '.join(
        '(%s, [%s])' % (lean_str(a), ', '.join(lean_str(x) for x in b)) for a, b in refused) + ']')
    # the catch-all of multicall / traverse
    tv = find_func(xml, 'traverse')
    out.append('/-- traverse: faults in source order (parts, underscore, namespace, method kind, TypeError) -/')
    out.append('def traverseRaises : List String := [' + ', '.join(lean_str(x) for x in _fault_names(tv)) + ']')
    out.extend(way_in_defs())
    out.extend(add_group_defs(rpc))
    out.extend(wait_defs(rpc))
    out.extend(answer_shape_defs(rpc, opt))
    out.extend(handover_defs(xml))
    out.extend(introspect_defs(xml))
    return out


# ---------------------------------------------------------------------------------------------------------------------
# one connection, several requests: whose request is it?  `deferring_http_channel.found_terminator` hands whatever arrives
# to `self.current_request` when that is set and cracks a new request header otherwise; the two places that finish a
# response -- `deferring_http_request.done()` (answers given at once, error responses) and
# `DeferredXMLRPCResponse.getresponse()` (answers given later) -- reset it.  Extracted by ROLE:
#   <x>Clears (closeIt)   the condition under which `<...>.current_request = None` is executed in the finisher, in terms of
#                         its close flag (= the name tested by the `if` that holds `....close_when_done()`); `true` when the
#                         statement is at the top level of the function; `false` when it is missing
#   chanDispatchStale     the test of the `if` in found_terminator whose true branch calls `self.current_request.found_terminator()`
#   dispatchSetsCurrent   found_terminator assigns `self.current_request = <the new request>` before `<h>.handle_request(...)`
#   rpcErrorAnswers       what `except RPCError as e:` turns the error into, on both paths (constructor, arguments)
# ---------------------------------------------------------------------------------------------------------------------
def _is_current_request(t):
    return isinstance(t, ast.Attribute) and t.attr == 'current_request'


def _clears_cond(func):
    """Lean Bool expression over `closeIt`, or raises Untranslatable"""
    from extract import Untranslatable
    closers = [n for n in ast.walk(func) if isinstance(n, ast.If) and any(
        isinstance(c, ast.Call) and isinstance(c.func, ast.Attribute) and c.func.attr == 'close_when_done' for b in n.body for c in ast.walk(b))]
    flag = None
    for n in closers:
        if isinstance(n.test, ast.Name):
            flag = n.test.id
    terms = []
    def cond_of(test):
        if flag is not None and isinstance(test, ast.Name) and test.id == flag:
            return 'closeIt'
        if flag is not None and isinstance(test, ast.UnaryOp) and isinstance(test.op, ast.Not) and isinstance(test.operand, ast.Name) and test.operand.id == flag:
            return '(!closeIt)'
        raise Untranslatable('condition %s around the reset of current_request' % ast.unparse(test))
    def walk(stmts, conds):
        for st in stmts:
            if isinstance(st, ast.Assign) and any(_is_current_request(t) for t in st.targets) and isinstance(st.value, ast.Constant) and st.value.value is None:
                terms.append(list(conds))
            elif isinstance(st, ast.If):
                c = None
                has = any(isinstance(n, ast.Assign) and any(_is_current_request(t) for t in n.targets) for n in ast.walk(st))
                if has:
                    c = cond_of(st.test)
                    walk(st.body, conds + [c])
                    walk(st.orelse, conds + ['(!%s)' % c])
            elif isinstance(st, (ast.For, ast.While, ast.Try, ast.With)):
                if any(isinstance(n, ast.Assign) and any(_is_current_request(t) for t in n.targets) for n in ast.walk(st)):
                    raise Untranslatable('the reset of current_request sits inside a %s' % type(st).__name__)
    walk(func.body, [])
    if not terms:
        return 'false'
    if any(not t for t in terms):
        return 'true'
    return '(' + ' || '.join('(' + ' && '.join(t) + ')' for t in terms) + ')'


def handover_defs(xml):
    from extract import Untranslatable
    out = ['/-! one connection, several requests: where `channel.current_request` is reset, tested and set -/']
    http = _parse('supervisor/http.py')
    for ident, tree, qual in (('doneClears', http, 'deferring_http_request.done'), ('defRespClears', xml, 'DeferredXMLRPCResponse.getresponse')):
        try:
            f = find_func(tree, qual)
            out.append('/-- %s: when is `<...>.current_request = None` executed, in terms of the close flag -/' % qual)
            out.append('def %s (closeIt : Bool) : Bool := %s' % (ident, _clears_cond(f)))
        except Exception as ex:
            out.append('-- %s  %s  UNTRANSLATED (%s: %s)' % (ident, qual, type(ex).__name__, str(ex).replace('\n', ' ')))
    try:
        ft = find_func(http, 'deferring_http_channel.found_terminator')
        def hands_on(stmts):
            return any(isinstance(c, ast.Call) and ast.unparse(c.func) == 'self.current_request.found_terminator' for b in stmts for c in ast.walk(b))
        ifs = [n for n in ft.body if isinstance(n, ast.If) and (hands_on(n.body) or hands_on(n.orelse))]
        n = _only(ifs, 'the `if` that hands on to self.current_request')
        t = ast.unparse(n.test)
        pos = {'self.current_request': True, 'self.current_request is not None': True, 'not self.current_request': False, 'self.current_request is None': False}
        if t not in pos or pos[t] != hands_on(n.body):
            raise Untranslatable('the test %s does not select the branch that hands on by whether current_request is set' % t)
        out.append('/-- deferring_http_channel.found_terminator:%d  `%s`: is what arrives handed to the request that is current? -/' % (n.lineno, t))
        out.append('def chanDispatchStale (current : Bool) : Bool := current')
        sets = False
        for blk in ast.walk(ft):
            body = getattr(blk, 'body', None)
            if not isinstance(body, list):
                continue
            seen_set = False
            for st in body:
                if isinstance(st, ast.Assign) and any(ast.unparse(tg) == 'self.current_request' for tg in st.targets) and isinstance(st.value, ast.Name):
                    seen_set = True
                if isinstance(st, ast.Expr) and isinstance(st.value, ast.Call) and isinstance(st.value.func, ast.Attribute) and st.value.func.attr == 'handle_request' and seen_set:
                    sets = True
        out.append('/-- deferring_http_channel.found_terminator: `self.current_request = <the new request>` precedes `<handler>.handle_request(...)` -/')
        out.append('def dispatchSetsCurrent : Bool := %s' % ('true' if sets else 'false'))
    except Exception as ex:
        out.append('-- chanDispatchStale  deferring_http_channel.found_terminator  UNTRANSLATED (%s: %s)' % (type(ex).__name__, str(ex).replace('\n', ' ')))
    rows = []
    for key, qual in (('continue_request', 'supervisor_xmlrpc_handler.continue_request'), ('more', 'DeferredXMLRPCResponse.more')):
        try:
            f = find_func(xml, qual)
            hs = [h for t in ast.walk(f) if isinstance(t, ast.Try) for h in t.handlers if h.type is not None and ast.unparse(h.type).split('.')[-1] == 'RPCError']
            h = _only(hs, 'except RPCError in ' + qual)
            asg = _only([st for st in h.body if isinstance(st, ast.Assign)], 'the assignment in the handler')
            v = asg.value
            ev = h.name or 'err'
            def norm(e):
                return ast.unparse(e).replace('\n', ' ').replace(ev + '.', 'err.')
            if isinstance(v, ast.Call) and not v.keywords:
                rows.append('(%s, %s, [%s])' % (lean_str(key), lean_str(ast.unparse(v.func)), ', '.join(lean_str(norm(a)) for a in v.args)))
            else:
                rows.append('(%s, %s, [])' % (lean_str(key), lean_str('expr:' + norm(v))))
        except Exception as ex:
            rows.append('(%s, %s, [])' % (lean_str(key), lean_str('?' + type(ex).__name__)))
    out.append('/-- what `except RPCError as err:` makes of the error: (path, constructor, arguments) -- answers given at once / later -/')
    out.append('def rpcErrorAnswers : List (String × String × List String) := [' + ', '.join(rows) + ']')
    return out


# ---------------------------------------------------------------------------------------------------------------------
# introspection: what `SystemNamespaceRPCInterface._listMethods` keeps per published method.  Extracted by ROLE: the value of
# the one assignment `<table>[<key>] = <value>` in `_listMethods`; `str(<f>.__doc__)` keeps a text whatever the docstring is
# (None for an undocumented method, any object a plugin put there), `<f>.__doc__` keeps the object itself.
# ---------------------------------------------------------------------------------------------------------------------
def introspect_defs(xml):
    out = ['/-! introspection: what `_listMethods` keeps as the help of a published method -/']
    try:
        f = find_func(xml, 'SystemNamespaceRPCInterface._listMethods')
        asg = _only([n for n in ast.walk(f) if isinstance(n, ast.Assign) and len(n.targets) == 1 and isinstance(n.targets[0], ast.Subscript)],
                    'the assignment into the method table')
        v = asg.value
        is_doc = lambda e: isinstance(e, ast.Attribute) and e.attr == '__doc__'
        if isinstance(v, ast.Call) and isinstance(v.func, ast.Name) and v.func.id == 'str' and len(v.args) == 1 and not v.keywords and is_doc(v.args[0]):
            text = 'true'
        elif is_doc(v):
            text = 'false'
        else:
            raise ValueError('neither str(<f>.__doc__) nor <f>.__doc__: ' + ast.unparse(v))
        out.append('/-- SystemNamespaceRPCInterface._listMethods:%d  `%s`: is the help kept as a text (str(...)) rather than the raw `__doc__`? -/'
                   % (asg.lineno, ast.unparse(asg).replace('\n', ' ')))
        out.append('def listMethodsStoresText : Bool := %s' % text)
    except Exception as ex:
        out.append('-- listMethodsStoresText  SystemNamespaceRPCInterface._listMethods  UNTRANSLATED (%s: %s)' % (type(ex).__name__, str(ex).replace('\n', ' ')))
    return out


# ---------------------------------------------------------------------------------------------------------------------
# deferred answers of startProcess / stopProcess (wait=True): the callback the method returns, as a function of what it
# reads of the process at one poll.  Recognised by ROLE: the process is the second target of
# `<g>, <p> = self._getGroupAndProcess(...)`; the callback is the nested `def` whose name the method returns; "defers" is
# the test of the `if` statement that holds that `def`.  The whole body of the callback (if / raise RPCError(Faults.X) /
# return True / return NOT_DONE_YET, single-assignment locals, the report-only call <p>.stop_report()) is translated into one
# Lean expression, so reordering independent tests leaves the function it denotes unchanged while a forgotten state changes it.
# ---------------------------------------------------------------------------------------------------------------------
def _wait_parts(f):
    from extract import Untranslatable
    pvar = None
    for n in ast.walk(f):
        if isinstance(n, ast.Assign) and len(n.targets) == 1 and isinstance(n.targets[0], ast.Tuple) and len(n.targets[0].elts) == 2 \
                and isinstance(n.value, ast.Call) and ast.unparse(n.value.func) == 'self._getGroupAndProcess' \
                and all(isinstance(e, ast.Name) for e in n.targets[0].elts):
            pvar = n.targets[0].elts[1].id
            break
    if pvar is None:
        raise Untranslatable('no `<g>, <p> = self._getGroupAndProcess(...)`')
    found = []
    def walk(stmts, holder):
        for i, st in enumerate(stmts):
            if isinstance(st, ast.FunctionDef):
                if any(isinstance(r, ast.Return) and isinstance(r.value, ast.Name) and r.value.id == st.name for r in stmts[i + 1:]):
                    found.append((st, holder))
                continue
            if isinstance(st, ast.If):
                walk(st.body, st); walk(st.orelse, None)
            elif isinstance(st, (ast.For, ast.While, ast.With)):
                walk(st.body, None)
            elif isinstance(st, ast.Try):
                walk(st.body, None)
                for h in st.handlers: walk(h.body, None)
                walk(st.orelse, None); walk(st.finalbody, None)
    walk(f.body, None)
    cb, holder = _only(found, 'a nested def that the method returns')
    if holder is None:
        raise Untranslatable('the returned callback is not defined under an `if`')
    return pvar, cb, holder


def _wait_block(tr, stmts, pvar, depth=0):
    """the statements of a callback body as one Lean term of type WaitAns"""
    from extract import Untranslatable
    if not stmts:
        return '(WaitAns.other "None")'
    st, rest = stmts[0], stmts[1:]
    if isinstance(st, ast.Expr) and isinstance(st.value, ast.Constant) and isinstance(st.value.value, str):
        return _wait_block(tr, rest, pvar, depth)                    # docstring
    if isinstance(st, ast.If):
        return '(if %s then %s else %s)' % (tr.truth(st.test), _wait_block(tr, list(st.body) + rest, pvar, depth + 1),
                                           _wait_block(tr, list(st.orelse) + rest, pvar, depth + 1))
    if isinstance(st, ast.Raise):
        if isinstance(st.exc, ast.Call) and ast.unparse(st.exc.func) == 'RPCError' and st.exc.args \
                and isinstance(st.exc.args[0], ast.Attribute) and ast.unparse(st.exc.args[0].value) == 'Faults':
            return '(WaitAns.fault %s)' % lean_str(st.exc.args[0].attr)
        return '(WaitAns.other %s)' % lean_str('raise ' + (ast.unparse(st.exc) if st.exc else ''))
    if isinstance(st, ast.Return) and isinstance(st.value, ast.IfExp):
        # `return X if c else Y` is `if c: return X` / `return Y`
        v = st.value
        return _wait_block(tr, [ast.If(test=v.test, body=[ast.Return(value=v.body)], orelse=[ast.Return(value=v.orelse)])] + rest, pvar, depth)
    if isinstance(st, ast.Return):
        if isinstance(st.value, ast.Name) and st.value.id == 'NOT_DONE_YET':
            return 'WaitAns.again'
        if isinstance(st.value, ast.Constant) and st.value.value is True:
            return 'WaitAns.done'
        return '(WaitAns.other %s)' % lean_str('return ' + (ast.unparse(st.value) if st.value else ''))
    if isinstance(st, ast.Assign) and len(st.targets) == 1 and isinstance(st.targets[0], ast.Name) and st.targets[0].id in tr.locals:
        return _wait_block(tr, rest, pvar, depth)                    # a single-assignment local: inlined where it is used
    if isinstance(st, ast.Expr) and isinstance(st.value, ast.Call) and ast.unparse(st.value.func) == pvar + '.stop_report' and not st.value.args:
        return _wait_block(tr, rest, pvar, depth)                    # reports only (logs how long the stop has been pending)
    if isinstance(st, ast.Pass):
        return _wait_block(tr, rest, pvar, depth)
    raise Untranslatable('statement ' + ast.unparse(st).split('\n')[0])


def wait_defs(rpc):
    import importlib
    import supervisor.states as st
    importlib.reload(st)
    out = ['/-! deferred answers of startProcess / stopProcess (wait=True): what the callback answers at one poll -/']
    ps = sorted(((k, v) for k, v in vars(st.ProcessStates).items() if not k.startswith('_') and isinstance(v, int)), key=lambda kv: kv[1])
    out.append('/-- ProcessStates: (name, code) -/')
    out.append('def procStates : List (String × Int) := [' + ', '.join('(%s, %d)' % (lean_str(k), v) for k, v in ps) + ']')
    for ident, name in (('procStoppedStates', 'STOPPED_STATES'), ('procRunningStates', 'RUNNING_STATES'), ('procSignallableStates', 'SIGNALLABLE_STATES')):
        out.append('def %s : List Int := [%s]' % (ident, ', '.join(str(x) for x in getattr(st, name))))
    out.append('/-- one poll of a deferred callback: NOT_DONE_YET, `True`, `raise RPCError(Faults.<name>)`, or anything else -/')
    out.append('inductive WaitAns | again | done | fault (name : String) | other (what : String)')
    out.append('deriving DecidableEq, Repr')
    for ident, meth in (('start', 'startProcess'), ('stop', 'stopProcess')):
        try:
            f = find_func(rpc, 'SupervisorNamespaceRPCInterface.' + meth)
            pvar, cb, holder = _wait_parts(f)
            consts = dict(('ProcessStates.' + k, '(%d : Int)' % v) for k, v in ps)
            consts.update({'STOPPED_STATES': 'procStoppedStates', 'RUNNING_STATES': 'procRunningStates', 'SIGNALLABLE_STATES': 'procSignallableStates'})
            vars_ = {pvar + '.spawnerr': ('spawnerr', 'bool'), pvar + '.get_state()': ('state', 'int'), 'wait': ('wait', 'bool')}
            site = Site('supervisor/rpcinterface.py', meth, ident + 'Wait', '', vars_, consts=consts, const_types={'ProcessStates': 'int'})
            d = Tr(site, holder).truth(holder.test)
            out.append('-- supervisor/rpcinterface.py:%s:%d  if %s: def %s(): ... return %s' % (meth, holder.lineno, ast.unparse(holder.test), cb.name, cb.name))
            out.append('def %sDefers (wait spawnerr : Bool) (state : Int) : Bool := %s' % (ident, d))
            body = _wait_block(Tr(site, cb), list(cb.body), pvar)
            out.append('-- supervisor/rpcinterface.py:%s.%s:%d' % (meth, cb.name, cb.lineno))
            out.append('def %sOnwait (spawnerr : Bool) (state : Int) : WaitAns := %s' % (ident, body))
        except Exception as ex:
            out.append('-- %sOnwait  supervisor/rpcinterface.py:%s  UNTRANSLATED (%s: %s)' % (ident, meth, type(ex).__name__, str(ex).replace('\n', ' ')))
    return out


# ---------------------------------------------------------------------------------------------------------------------
# what reaches xmlrpc_marshal as the answer of a public method: the syntactic shape of every `return` expression, followed
# through `return <call of a method / module function of rpcinterface.py / options.tailFile, readFile>`, through returned
# nested functions (deferred callbacks: what THEY return is the answer) and through make_allfunc.  xmlrpc_marshal takes a
# tuple for the already wrapped parameter tuple, so a method returning `a, b, c` is an HTTP 500 (and a 1-tuple answers its
# element) while the same value inside system.multicall is an array.
# ---------------------------------------------------------------------------------------------------------------------
def answer_shape_defs(rpc, opt):
    out = ['/-! the syntactic shapes of the values public methods return (what xmlrpc_marshal is handed) -/',
           'inductive RetShape | tuple | list | dict | scalar | again | via (f : String) | opaque (src : String)',
           'deriving DecidableEq, Repr']
    try:
        cls = find_func(rpc, 'SupervisorNamespaceRPCInterface')
        methods = dict((n.name, n) for n in cls.body if isinstance(n, ast.FunctionDef))
        aliases = dict((n.targets[0].id, n.value.id) for n in cls.body
                       if isinstance(n, ast.Assign) and len(n.targets) == 1 and isinstance(n.targets[0], ast.Name) and isinstance(n.value, ast.Name))
        modfuncs = dict((n.name, n) for n in rpc.body if isinstance(n, ast.FunctionDef))
        optfuncs = dict((n.name, n) for n in opt.body if isinstance(n, ast.FunctionDef) and n.name in ('tailFile', 'readFile'))
        rows, todo, seen = [], [], set()

        def own_nodes(func):
            """nodes of func's own body, nested defs excluded"""
            stack = [n for n in func.body if not isinstance(n, (ast.FunctionDef, ast.ClassDef))]
            while stack:
                n = stack.pop()
                yield n
                for c in ast.iter_child_nodes(n):
                    if not isinstance(c, (ast.FunctionDef, ast.Lambda, ast.ClassDef)):
                        stack.append(c)

        def set_outers(func):
            stack = list(func.body)
            while stack:
                n = stack.pop()
                if isinstance(n, ast.FunctionDef):
                    n._outer = func
                    set_outers(n)
                    continue
                stack.extend(ast.iter_child_nodes(n))

        def nested_defs(func):
            return dict((n.name, n) for n in ast.walk(func) if isinstance(n, ast.FunctionDef) and n is not func)

        def shape(e, func, qual, depth=0):
            if e is None:
                return ['RetShape.scalar']
            if isinstance(e, ast.Tuple):
                return ['RetShape.tuple']
            if isinstance(e, (ast.List, ast.ListComp)):
                return ['RetShape.list']
            if isinstance(e, (ast.Dict, ast.DictComp)):
                return ['RetShape.dict']
            if isinstance(e, (ast.Constant, ast.JoinedStr, ast.Compare, ast.BoolOp)) or (isinstance(e, ast.UnaryOp) and isinstance(e.op, ast.Not)):
                return ['RetShape.scalar']
            if isinstance(e, ast.IfExp):
                return shape(e.body, func, qual, depth) + shape(e.orelse, func, qual, depth)
            if isinstance(e, ast.Call):
                fn = ast.unparse(e.func)
                if fn.startswith('self.') and fn[5:] in methods or fn.startswith('self.') and aliases.get(fn[5:]) in methods:
                    name = fn[5:] if fn[5:] in methods else aliases[fn[5:]]
                    todo.append((name, methods[name]))
                    return ['(RetShape.via %s)' % lean_str(name)]
                if fn in modfuncs or fn in optfuncs:
                    todo.append((fn, modfuncs.get(fn) or optfuncs[fn]))
                    return ['(RetShape.via %s)' % lean_str(fn)]
                if isinstance(e.func, ast.Name) and depth < 4:
                    # a local bound to make_allfunc(...): calling it is calling the closure
                    binds = [n.value for n in own_nodes(func) if isinstance(n, ast.Assign) and any(isinstance(t, ast.Name) and t.id == fn for t in n.targets)]
                    if binds and all(isinstance(b, ast.Call) and ast.unparse(b.func) == 'make_allfunc' for b in binds) and 'make_allfunc' in modfuncs:
                        inner = [r.value.id for r in ast.walk(modfuncs['make_allfunc']) if isinstance(r, ast.Return) and isinstance(r.value, ast.Name)
                                 and r.value.id in nested_defs(modfuncs['make_allfunc'])]
                        if len(set(inner)) == 1:
                            todo.append(('make_allfunc', modfuncs['make_allfunc']))
                            return ['(RetShape.via %s)' % lean_str('make_allfunc.' + inner[0])]
                if fn in ('tuple',):
                    return ['RetShape.tuple']
                if fn in ('list', 'sorted'):
                    return ['RetShape.list']
                if fn in ('dict',):
                    return ['RetShape.dict']
                if fn in ('str', 'int', 'bool', 'len', 'as_string', 'as_bytes'):
                    return ['RetShape.scalar']
                return ['(RetShape.opaque %s)' % lean_str(ast.unparse(e)[:60])]
            if isinstance(e, ast.Name):
                if e.id == 'NOT_DONE_YET':
                    return ['RetShape.again']
                nd = nested_defs(func)
                if e.id in nd:
                    q = qual + '.' + e.id
                    todo.append((q, nd[e.id]))
                    return ['(RetShape.via %s)' % lean_str(q)]
                if depth < 4:
                    vals = [n.value for n in own_nodes(func) if isinstance(n, ast.Assign) and any(isinstance(t, ast.Name) and t.id == e.id for t in n.targets)]
                    if vals and not any(isinstance(n, (ast.For, ast.AugAssign)) and isinstance(getattr(n, 'target', None), ast.Name) and n.target.id == e.id
                                        for n in own_nodes(func)):
                        res = []
                        for v in vals:
                            for s in shape(v, func, qual, depth + 1):
                                if s not in res:
                                    res.append(s)
                        return res
                    # a parameter with a default value (closures "fooling scoping": results=results)
                    args = func.args.args
                    defaults = dict(zip([a.arg for a in args[len(args) - len(func.args.defaults):]], func.args.defaults))
                    if e.id in defaults and isinstance(defaults[e.id], ast.Name) and getattr(func, '_outer', None) is not None:
                        return shape(defaults[e.id], func._outer, qual.rsplit('.', 1)[0], depth + 1)
                    # a free variable of a closure: bound in the enclosing function
                    if not vals and e.id not in [a.arg for a in args] and getattr(func, '_outer', None) is not None:
                        return shape(e, func._outer, qual.rsplit('.', 1)[0], depth + 1)
            return ['(RetShape.opaque %s)' % lean_str(ast.unparse(e)[:60])]

        def do(qual, func):
            if qual in seen:
                return
            seen.add(qual)
            set_outers(func)
            shapes = []
            for n in own_nodes(func):
                if isinstance(n, ast.Return):
                    for s in shape(n.value, func, qual):
                        if s not in shapes:
                            shapes.append(s)
            rows.append((qual, shapes))

        for name in list(methods) + list(aliases):
            if not name.startswith('_') and aliases.get(name, name) in methods:
                f = methods[aliases.get(name, name)]
                if name in aliases:
                    seen.add(name); rows.append((name, ['(RetShape.via %s)' % lean_str(aliases[name])]))
                    todo.append((aliases[name], f))
                else:
                    do(name, f)
        while todo:
            q, f = todo.pop()
            do(q, f)
        out.append('/-- (function, shapes of the expressions it returns); `via f`: the result of f is handed on (f has its own row) -/')
        out.append('def answerShapes : List (String × List RetShape) := [\n  ' + ',\n  '.join(
            '(%s, [%s])' % (lean_str(q), ', '.join(s)) for q, s in rows) + ']')
    except Exception as ex:
        out.append('-- answerShapes  UNTRANSLATED (%s: %s)' % (type(ex).__name__, str(ex).replace('\n', ' ')))
    return out


class TraverseTr(Tr):
    """expressions of traverse() recognised by their ROLE, not by the names of the locals that hold them, so that a
    rename of `dotted_parts`, `rpcinterface`, `func`, `namespace` ... does not disturb the extraction:
        <s>.split('.')                               -> parts      (list)
        <s>.startswith('_')                          -> underscore (bool)
        getattr(<first parameter>, <x>, None)        -> nsObj      (opt)   the namespace object
        getattr(<anything else>, <x>, None)          -> funcObj    (opt)   the attribute looked up on it
        isinstance(<x>, types.MethodType)            -> isMethod   (bool)"""
    def __init__(self, site, func):
        Tr.__init__(self, site, func)
        self.param0 = func.args.args[0].arg if func.args.args else None

    def role(self, e):
        n = 0
        while isinstance(e, ast.Name) and e.id in self.locals and n < 8:
            e = self.locals[e.id]; n += 1
        if not isinstance(e, ast.Call):
            return None
        f = e.func
        if isinstance(f, ast.Name) and f.id == 'isinstance' and len(e.args) == 2 and ast.unparse(e.args[1]) in ('types.MethodType', 'MethodType'):
            return ('isMethod', 'bool')
        if isinstance(f, ast.Attribute) and f.attr == 'startswith' and len(e.args) == 1 and isinstance(e.args[0], ast.Constant) and e.args[0].value == '_':
            return ('underscore', 'bool')
        if isinstance(f, ast.Attribute) and f.attr == 'split' and len(e.args) == 1 and isinstance(e.args[0], ast.Constant) and e.args[0].value == '.':
            return ('parts', 'list')
        if isinstance(f, ast.Name) and f.id == 'getattr' and len(e.args) == 3 and isinstance(e.args[2], ast.Constant) and e.args[2].value is None:
            first = e.args[0]
            if isinstance(first, ast.Name) and first.id == self.param0:
                return ('nsObj', 'opt')
            return ('funcObj', 'opt')
        return None

    def typ(self, e):
        r = self.role(e)
        return r[1] if r else Tr.typ(self, e)

    def expr(self, e):
        r = self.role(e)
        return r[0] if r else Tr.expr(self, e)


# g0 len(<split>) != 2, g1 <m>.startswith('_'), g2 <namespace object> is None, g3 not isinstance(<attr>, MethodType)
_traverse = Site('supervisor/xmlrpc.py', 'traverse', 'traverse',
                 '(parts : List (List Char)) (underscore : Bool) (nsObj funcObj : Option Unit) (isMethod : Bool)',
                 {}, want={'traverse_g0', 'traverse_g1', 'traverse_g2', 'traverse_g3'})
_traverse.tr_class = TraverseTr

class ResponseTr(Tr):
    """the response builders, by role:  xmlrpc_marshal(<x>) -> the response text `bodyText` (code points),
    as_bytes(<t>) -> its UTF-8 encoding"""
    def role(self, e):
        n = 0
        while isinstance(e, ast.Name) and e.id in self.locals and n < 8:
            e = self.locals[e.id]; n += 1
        if isinstance(e, ast.Call) and isinstance(e.func, ast.Name):
            if e.func.id == 'xmlrpc_marshal' and len(e.args) == 1:
                return ('bodyText', 'lean:List Char')
            if e.func.id == 'as_bytes' and len(e.args) == 1:
                inner = self.role(e.args[0])
                try:
                    x, t = inner if inner else (Tr.expr(self, e.args[0]), Tr.typ(self, e.args[0]))
                except Exception:
                    return None
                if t == 'lean:List Char':
                    return ('(Sv.Rpc.utf8Of %s)' % x, 'bytes')
                if t == 'bytes':
                    return (x, 'bytes')
        return None

    def typ(self, e):
        r = self.role(e)
        return r[1] if r else Tr.typ(self, e)

    def expr(self, e):
        r = self.role(e)
        return r[0] if r else Tr.expr(self, e)


# immediate answers: `body = as_bytes(xmlrpc_marshal(value)); request['Content-Length'] = len(body); request.push(body)`
_immediate = Site('supervisor/xmlrpc.py', 'supervisor_xmlrpc_handler.continue_request', 'contReq', '(bodyText : List Char)', {},
                  want={'contReq_a9', 'contReq_c0_0'}, calls=('request.push',))
_immediate.tr_class = ResponseTr
# deferred answers: more() marshals and hands the body to getresponse(), which sets Content-Length = len(body) and pushes it
_defmore = Site('supervisor/xmlrpc.py', 'DeferredXMLRPCResponse.more', 'defMore', '(bodyText : List Char)', {},
                want={'defMore_c0_0'}, calls=('self.getresponse',))
_defmore.tr_class = ResponseTr
_defresp = Site('supervisor/xmlrpc.py', 'DeferredXMLRPCResponse.getresponse', 'defResp', '(body : List Char)',
                {'body': ('body', 'lean:List Char')}, want={'defResp_a1', 'defResp_c0_0'}, calls=('self.request.push',))
_defresp.tr_class = ResponseTr

class PyStrTr(Tr):
    """expressions over Python 3 str/bytes values, as `Except String Sv.Rpc.PyStr` terms (error = the exception raised):
        <variable typed pystr>                    -> Except.ok v
        as_string(<e>) / as_bytes(<e>)            -> <e> >>= Sv.Rpc.asString / asBytes          (supervisor.compat)
        <e>.decode() / .decode('utf-8')           -> <e> >>= Sv.Rpc.pyDecode
        b''.join(<list typed pylist>)             -> Sv.Rpc.joinBytes l          ''.join(...) -> Sv.Rpc.joinText l
        <e1> + <e2>                               -> Sv.Rpc.pyConcat
       so that WHERE the decode sits relative to the join is part of the generated definition."""
    T = 'lean:Except String Sv.Rpc.PyStr'

    def pexpr(self, e, depth=0):
        src = ast.unparse(e)
        if src in self.site.vars and self.site.vars[src][1] == 'pystr':
            return '(Except.ok %s)' % self.site.vars[src][0]
        if isinstance(e, ast.Name) and e.id in self.locals and depth < 8:
            return self.pexpr(self.locals[e.id], depth + 1)
        if isinstance(e, ast.Call) and isinstance(e.func, ast.Name) and e.func.id in ('as_string', 'as_bytes') and len(e.args) == 1 and not e.keywords:
            return '(Except.bind %s Sv.Rpc.%s)' % (self.pexpr(e.args[0], depth), 'asString' if e.func.id == 'as_string' else 'asBytes')
        if isinstance(e, ast.Call) and isinstance(e.func, ast.Attribute) and e.func.attr == 'decode' and not e.keywords and (
                not e.args or (len(e.args) == 1 and isinstance(e.args[0], ast.Constant) and str(e.args[0].value).lower().replace('-', '') == 'utf8')):
            return '(Except.bind %s Sv.Rpc.pyDecode)' % self.pexpr(e.func.value, depth)
        if isinstance(e, ast.Call) and isinstance(e.func, ast.Attribute) and e.func.attr == 'join' and len(e.args) == 1 and not e.keywords \
                and isinstance(e.func.value, ast.Constant) and e.func.value.value in (b'', ''):
            arg = ast.unparse(e.args[0])
            if arg in self.site.vars and self.site.vars[arg][1] == 'pylist':
                return '(Sv.Rpc.%s %s)' % ('joinBytes' if e.func.value.value == b'' else 'joinText', self.site.vars[arg][0])
        if isinstance(e, ast.BinOp) and isinstance(e.op, ast.Add):
            return '(Except.bind %s fun x => Except.bind %s fun y => Sv.Rpc.pyConcat x y)' % (self.pexpr(e.left, depth), self.pexpr(e.right, depth))
        from extract import Untranslatable
        raise Untranslatable('str/bytes expression ' + src)

    def typ(self, e):
        try:
            self.pexpr(e)
            return self.T
        except Exception:
            return Tr.typ(self, e)

    def expr(self, e):
        try:
            return self.pexpr(e)
        except Exception:
            return Tr.expr(self, e)


def _calls(func, pred):
    return [n for n in ast.walk(func) if isinstance(n, ast.Call) and pred(n)]


def _only(xs, what):
    from extract import Untranslatable
    if len(xs) != 1:
        raise Untranslatable('%d candidates for %s' % (len(xs), what))
    return xs[0]


def _first_stmt_value(func, pred):
    """value of the first assignment (source order) satisfying pred"""
    from extract import Untranslatable
    cands = sorted((n for n in ast.walk(func) if isinstance(n, ast.Assign) and pred(n)), key=lambda n: (n.lineno, n.col_offset))
    if not cands:
        raise Untranslatable('no such assignment')
    return cands[0].value


# The request on its way in, recognised by ROLE (not by statement position or the names of locals), so that a rename or a
# split into several statements does not disturb the extraction while a moved decode changes the definition:
#   collKept    what medusa's body collector keeps per received piece:  the argument of `self.data.append(...)`
#   collHanded  the text it hands on when Content-Length bytes are there: the first argument of `....continue_request(...)`
#   chanKept    what the channel's header buffer becomes per received piece: the value assigned to `self.in_buffer`
#   chanHeader  the header text the deferring channel cracks: the first value computed from `self.in_buffer`
_WAY_IN = [
    ('collKept', 'supervisor/medusa/xmlrpc_handler.py', 'collector.collect_incoming_data', '(data : Sv.Rpc.PyStr)', {'data': ('data', 'pystr')},
     lambda f: _only(_only(_calls(f, lambda c: ast.unparse(c.func) == 'self.data.append'), 'self.data.append(...)').args, 'its argument')),
    ('collHanded', 'supervisor/medusa/xmlrpc_handler.py', 'collector.found_terminator', '(chunks : List Sv.Rpc.PyStr)', {'self.data': ('chunks', 'pylist')},
     lambda f: _only(_calls(f, lambda c: isinstance(c.func, ast.Attribute) and c.func.attr == 'continue_request'), '...continue_request(...)').args[0]),
    ('chanKept', 'supervisor/medusa/http_server.py', 'http_channel.collect_incoming_data', '(buf data : Sv.Rpc.PyStr)',
     {'self.in_buffer': ('buf', 'pystr'), 'data': ('data', 'pystr')},
     lambda f: _first_stmt_value(f, lambda a: len(a.targets) == 1 and ast.unparse(a.targets[0]) == 'self.in_buffer')),
    ('chanHeader', 'supervisor/http.py', 'deferring_http_channel.found_terminator', '(buf : Sv.Rpc.PyStr)', {'self.in_buffer': ('buf', 'pystr')},
     lambda f: _first_stmt_value(f, lambda a: any(ast.unparse(n) == 'self.in_buffer' for n in ast.walk(a.value)))),
]


def add_group_defs(rpc):
    """addProcessGroup, by role: the except clauses around the call of `...add_process_group(...)` (exception classes caught ->
    fault raised in the handler), the fault raised when its result is false, the fault raised when no configured group has
    the name; and Python's own exception hierarchy (what an `except X` clause catches)."""
    import builtins
    out = []
    try:
        f = find_func(rpc, 'SupervisorNamespaceRPCInterface.addProcessGroup')
        call = _only(_calls(f, lambda c: isinstance(c.func, ast.Attribute) and c.func.attr == 'add_process_group'), '...add_process_group(...)')
        tries = [t for t in ast.walk(f) if isinstance(t, ast.Try) and any(n is call for b in t.body for n in ast.walk(b))]
        rows = []
        for t in sorted(tries, key=lambda t: -t.lineno):          # innermost first
            for h in t.handlers:
                if h.type is None:
                    types = ['BaseException']
                elif isinstance(h.type, ast.Tuple):
                    types = [ast.unparse(e).split('.')[-1] for e in h.type.elts]
                else:
                    types = [ast.unparse(h.type).split('.')[-1]]
                types = ['OSError' if x in ('error', 'IOError', 'EnvironmentError') else x for x in types]
                reraises = any(isinstance(n, ast.Raise) and n.exc is None for n in ast.walk(h))
                rows.append('([%s], [%s])' % (', '.join(lean_str(x) for x in types),
                                              ', '.join(lean_str(x) for x in (_fault_names(h) if not reraises else ['?reraise']))))
        out.append('/-- addProcessGroup: the except clauses around `supervisord.add_process_group(config)`, innermost first: (classes caught, faults raised in the handler) -/')
        out.append('def addGroupCatches : List (List String × List String) := [%s]' % ', '.join(rows))
        falsy = [n for n in ast.walk(f) if isinstance(n, ast.If) and isinstance(n.test, ast.UnaryOp) and isinstance(n.test.op, ast.Not)]
        out.append('/-- addProcessGroup: the fault raised when add_process_group answers false (the group is already active) -/')
        out.append('def addGroupAlready : List String := [%s]' % ', '.join(lean_str(x) for n in falsy for x in _fault_names(n)))
        last = [st for st in f.body if isinstance(st, ast.Raise)]
        out.append('/-- addProcessGroup: the fault raised when no configured group has the name -/')
        out.append('def addGroupUnknown : List String := [%s]' % ', '.join(lean_str(x) for st in last for x in _fault_names(st)))
    except Exception as ex:
        out.append('-- addGroupCatches  UNTRANSLATED (%s: %s)' % (type(ex).__name__, str(ex).replace('\n', ' ')))
    excs = sorted((k, v) for k, v in vars(builtins).items() if isinstance(v, type) and issubclass(v, BaseException) and v.__name__ == k)
    out.append('/-- Python: every built-in exception class with its method resolution order (`except X` catches class C iff X is in the MRO of C) -/')
    out.append('def excMro : List (String × List String) := [\n  ' + ',\n  '.join(
        '(%s, [%s])' % (lean_str(k), ', '.join(lean_str(c.__name__) for c in v.__mro__ if c is not object)) for k, v in excs) + ']')
    return out


def way_in_defs():
    out = ['/-! the request on its way in (body collector, header buffer), by role; `Except.error` = the exception raised -/']
    for name, file, qual, params, vars_, pick in _WAY_IN:
        try:
            func = find_func(_parse(file), qual)
            tr = PyStrTr(Site(file, qual, name, params, vars_), func)
            e = pick(func)
            body = tr.pexpr(e)
            out.append('-- %s:%s:%d  %s' % (file, qual, e.lineno, ast.unparse(e).replace('\n', ' ')))
            out.append('def %s %s : Except String Sv.Rpc.PyStr := %s' % (name, params, body))
        except Exception as ex:
            out.append('-- %s  %s:%s  UNTRANSLATED (%s: %s)' % (name, file, qual, type(ex).__name__, str(ex).replace('\n', ' ')))
    return out


def _marshal_site():
    """xmlrpc_marshal(<v>): g0 `ismethodresponse` (= not isinstance(<v>, xmlrpclib.Fault)), g1 `not isinstance(<v>, tuple)`;
    <v> is the function's parameter whatever its name"""
    try:
        v = find_func(_parse('supervisor/xmlrpc.py'), 'xmlrpc_marshal').args.args[0].arg
    except Exception:
        v = 'value'
    return Site('supervisor/xmlrpc.py', 'xmlrpc_marshal', 'marshal', '(isFault isTuple : Bool)',
                {'isinstance(%s, xmlrpclib.Fault)' % v: ('isFault', 'bool'), 'isinstance(%s, tuple)' % v: ('isTuple', 'bool')},
                want={'marshal_g0', 'marshal_g1'})


SITES = [
    _traverse, _immediate, _defmore, _defresp, _marshal_site(),
    # g0: isinstance(mood, int) and mood < SupervisorStates.RUNNING
    Site('supervisor/rpcinterface.py', 'SupervisorNamespaceRPCInterface._update', 'update', '(moodIsInt : Bool) (mood : Int)',
         {'isinstance(self.supervisord.options.mood, int)': ('moodIsInt', 'bool'), 'self.supervisord.options.mood': ('mood', 'int')},
         consts={'SupervisorStates.RUNNING': 'moodRunning'}, want={'update_g0'}),
]
