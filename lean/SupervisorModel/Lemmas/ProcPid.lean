import SupervisorModel.Lemmas.ProcFork
/-
  How the pid a process holds changes: only a successful fork sets it (from 0, to the pid fork
  returned), only `finish()` clears it; every other method leaves it alone.
-/
set_option linter.unusedSimpArgs false
set_option linter.unusedVariables false
namespace Sv.Proc
open Sv Sv.Gen.Proc

/-- `f` leaves the held pid alone -/
def PidSame (f : S → S) : Prop := ∀ s, (f s).p.pid = s.p.pid

theorem pidSame_comp {f g : S → S} (hf : PidSame f) (hg : PidSame g) : PidSame (fun s => g (f s)) := by
  intro s; rw [hg, hf]

theorem kill_pidSame (cfg : Cfg) (now sig : Int) (kr : KillRes) : PidSame (kill cfg now sig kr) := by
  intro ⟨p, os, err⟩
  cases err with
  | some e => simp [kill, guard]
  | none => cases hs : p.state <;> cases kr <;> by_cases hp : p.pid = 0 <;> simp [procdefs, hs, hp, signallableStates]

theorem giveUp_pidSame (cfg : Cfg) (now : Int) : PidSame (giveUp cfg now) := by
  intro ⟨p, os, err⟩
  cases err with
  | some e => simp [giveUp, guard]
  | none => cases hs : p.state <;> simp [procdefs, hs]

theorem signal_pidSame (cfg : Cfg) (now sig : Int) (kr : KillRes) : PidSame (signal cfg now sig kr) := by
  intro ⟨p, os, err⟩
  cases err with
  | some e => simp [signal, guard]
  | none => cases hs : p.state <;> cases kr <;> by_cases hp : p.pid = 0 <;> simp [procdefs, hs, hp, signallableStates]

theorem setP_pidSame (f : Proc → Proc) (hf : ∀ p, (f p).pid = p.pid) : PidSame (setP f) := by
  intro ⟨p, os, err⟩; cases err <;> simp [setP, guard, hf]

theorem emit_pidSame (o : Out) : PidSame (emit o) := by
  intro ⟨p, os, err⟩; cases err <;> simp [emit, guard]

theorem stop_pidSame (cfg : Cfg) (now : Int) (kr : KillRes) : PidSame (stop cfg now kr) := by
  intro s
  rw [stop, guard]
  split
  · rfl
  · dsimp only
    rw [kill_pidSame, setP_pidSame _ (by intro p; rfl)]

theorem toRunning_pidSame (cfg : Cfg) (e : Env) : PidSame (toRunning cfg e) := by
  intro ⟨p, os, err⟩
  cases err with
  | some e => simp [toRunning, guard]
  | none =>
    cases hs : p.state <;> cases h10 : transition_g10 p cfg e <;> cases h11 : transition_g11 p cfg e <;>
      simp [toRunning, changeState, assertIn, emit, setP, guard, hs, h10, h11, transition_a4, transition_a5, transition_c0,
        transition_c1_0, change_state_g0, change_state_g1, change_state_a0, change_state_a2, change_state_a4, change_state_a5, announces_all]

theorem escalate_pidSame (cfg : Cfg) (e : Env) (kr : KillRes) : PidSame (escalate cfg e kr) := by
  intro s
  rw [escalate, guard]
  repeat' split
  all_goals first | rfl | exact giveUp_pidSame _ _ _ | exact kill_pidSame _ _ _ _ _

theorem stopReport_pidSame (cfg : Cfg) (now : Int) : PidSame (stopReport cfg now) := by
  intro s
  rw [stopReport, guard]
  split
  · rfl
  · dsimp only
    split
    · rw [setP_pidSame _ (by intro p; split <;> rfl), setP_pidSame _ (rollback_pid' cfg now)]
    · rfl

theorem answer_pidSame (c : Int) : PidSame (answer c) := emit_pidSame _

/-- what one operation does to the held pid and to the forks announced: nothing, or — only for a
    process without a child, and only when `fork()` returned `pid ≠ 0` — it now holds `pid` and
    announced exactly that fork -/
def PStep (res : SpawnRes) (s r : S) : Prop :=
  (r.p.pid = s.p.pid ∧ forks r.outs = forks s.outs) ∨
  (s.p.pid = 0 ∧ ∃ pid, res = .ok pid ∧ pid ≠ 0 ∧ r.p.pid = pid ∧ forks r.outs = forks s.outs ++ [.fork pid])

theorem pstep_same {res : SpawnRes} {s r t : S} (h : PStep res s r) (hp : t.p.pid = r.p.pid) (hf : forks t.outs = forks r.outs) :
    PStep res s t := by
  rcases h with ⟨h1, h2⟩ | ⟨h0, pid, h1, h2, h3, h4⟩
  · exact Or.inl ⟨by rw [hp, h1], by rw [hf, h2]⟩
  · exact Or.inr ⟨h0, pid, h1, h2, by rw [hp, h3], by rw [hf, h4]⟩

theorem pstep_of_same {res : SpawnRes} {s r t : S} (hp : r.p.pid = s.p.pid) (hf : forks r.outs = forks s.outs) (h : PStep res r t) :
    PStep res s t := by
  rcases h with ⟨h1, h2⟩ | ⟨h0, pid, h1, h2, h3, h4⟩
  · exact Or.inl ⟨by rw [h1, hp], by rw [h2, hf]⟩
  · exact Or.inr ⟨by rw [← hp, h0], pid, h1, h2, h3, by rw [h4, hf]⟩

theorem pstep_refl (res : SpawnRes) (s : S) : PStep res s s := Or.inl ⟨rfl, rfl⟩

theorem spawn_pstep (cfg : Cfg) (now : Int) (res : SpawnRes) (s : S) : PStep res s (spawn cfg now res s) := by
  obtain ⟨p, os, err⟩ := s
  cases err with
  | some e => left; simp [spawn, guard]
  | none =>
    by_cases hp : p.pid = 0
    · cases res with
      | ok pid =>
        by_cases hz : pid = 0
        · left
          cases hs : p.state <;> simp [procdefs, hs, hp, hz, forks]
        · cases hs : p.state
          all_goals first
            | (right; refine ⟨hp, pid, rfl, hz, ?_, ?_⟩ <;> simp [procdefs, hs, hp, hz, forks]; done)
            | (left; simp [procdefs, hs, hp, hz, forks])
      | _ => left; cases hs : p.state <;> simp [procdefs, hs, hp, forks]
    · left
      have := spawn_id_of_pid cfg now res { p := p, outs := os, err := none } hp
      rw [this]; exact ⟨rfl, rfl⟩

theorem transition_pstep (cfg : Cfg) (now mood : Int) (res : SpawnRes) (kr : KillRes) (s : S) :
    PStep res s (transition cfg now mood res kr s) := by
  rw [transition, guard]
  split
  · exact pstep_refl _ _
  · dsimp only
    refine pstep_same ?_ (escalate_pidSame _ _ _ _) (escalate_noFork _ _ _ _)
    refine pstep_same ?_ (toRunning_pidSame _ _ _) (toRunning_noFork _ _ _)
    refine pstep_of_same (setP_pidSame _ (rollback_pid' cfg now) s) (setP_noFork _ s) ?_
    rcases autoStart_cases cfg { now := now, mood := mood, st0 := transition_a1 s.p cfg { now := now } } res
        (setP (rollback cfg now) s) with h | ⟨h, _⟩
    · rw [h]; exact pstep_refl _ _
    · rw [h]; exact spawn_pstep _ _ _ _

theorem groupStop_same (cfg : Cfg) (now : Int) (kr : KillRes) (s : S) :
    (groupStop cfg now kr s).p.pid = s.p.pid ∧ forks (groupStop cfg now kr s).outs = forks s.outs := by
  rw [groupStop, guard]
  split
  · exact ⟨rfl, rfl⟩
  · repeat' split
    all_goals first
      | exact ⟨rfl, rfl⟩
      | exact ⟨stop_pidSame _ _ _ _, stop_noFork _ _ _ _⟩
      | exact ⟨giveUp_pidSame _ _ _, giveUp_noFork _ _ _⟩

theorem rpcStop_same (cfg : Cfg) (now mood : Int) (kr : KillRes) (s : S) :
    (rpcStop cfg now mood kr s).p.pid = s.p.pid ∧ forks (rpcStop cfg now mood kr s).outs = forks s.outs := by
  rw [rpcStop, guard]
  split
  · exact ⟨rfl, rfl⟩
  · dsimp only
    repeat' split
    all_goals first
      | exact ⟨answer_pidSame _ _, answer_noFork _ _⟩
      | exact ⟨by rw [answer_pidSame, stop_pidSame], by rw [answer_noFork, stop_noFork]⟩

theorem rpcSignal_same (cfg : Cfg) (now mood sig : Int) (kr : KillRes) (s : S) :
    (rpcSignal cfg now mood sig kr s).p.pid = s.p.pid ∧ forks (rpcSignal cfg now mood sig kr s).outs = forks s.outs := by
  rw [rpcSignal, guard]
  split
  · exact ⟨rfl, rfl⟩
  · dsimp only
    repeat' split
    all_goals first
      | exact ⟨answer_pidSame _ _, answer_noFork _ _⟩
      | exact ⟨by rw [answer_pidSame, signal_pidSame], by rw [answer_noFork, signal_noFork]⟩

theorem stopReport_same (cfg : Cfg) (now : Int) (s : S) :
    (stopReport cfg now s).p.pid = s.p.pid ∧ forks (stopReport cfg now s).outs = forks s.outs :=
  ⟨stopReport_pidSame _ _ _, stopReport_noFork _ _ _⟩

end Sv.Proc
