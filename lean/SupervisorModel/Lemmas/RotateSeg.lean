import SupervisorModel.Lemmas.Rotate
/-
  Helper lemmas for C19 `segments_ordered`: every handler-created file holds a contiguous
  segment of the write history, and files are age-ordered.  Uses the ghost fields
  `File.start` / `File.own` / `S.hist`.  Core Lean only.
-/
set_option linter.unusedSimpArgs false
namespace Sv.Rotate
open Sv Sv.Gen.Rotate

/-- `f` holds the bytes of the history `W` from offset `f.start` on -/
def IsSeg (W : Bytes) (f : File) : Prop :=
  ∃ pre post : Bytes, W = pre ++ f.data ++ post ∧ pre.length = f.start

/-- the history offset just after the file's last byte -/
def fend (f : File) : Nat := f.start + f.data.length

theorem isSeg_end_le (W : Bytes) (f : File) (h : IsSeg W f) : fend f ≤ W.length := by
  obtain ⟨pre, post, e, hl⟩ := h
  have := congrArg List.length e
  simp only [List.length_append] at this
  unfold fend; omega

theorem isSeg_append (W b : Bytes) (f : File) (h : IsSeg W f) : IsSeg (W ++ b) f := by
  obtain ⟨pre, post, e, hl⟩ := h
  exact ⟨pre, post ++ b, by rw [e]; simp [List.append_assoc], hl⟩

theorem isSeg_extend (W b : Bytes) (f : File) (h : IsSeg W f) (he : fend f = W.length) :
    IsSeg (W ++ b) ⟨f.start, f.own, f.data ++ b⟩ ∧ fend ⟨f.start, f.own, f.data ++ b⟩ = (W ++ b).length := by
  obtain ⟨pre, post, e, hl⟩ := h
  have hlen := congrArg List.length e
  simp only [List.length_append] at hlen
  have hp : post = [] := by
    apply List.eq_nil_of_length_eq_zero
    unfold fend at he; omega
  subst hp
  refine ⟨⟨pre, [], by rw [e]; simp [List.append_assoc], hl⟩, ?_⟩
  unfold fend at *
  simp only [List.length_append] at *
  omega

theorem isSeg_new (W : Bytes) : IsSeg W ⟨W.length, true, []⟩ := ⟨W, [], by simp, rfl⟩

/-- the directory part of the invariant -/
structure SegDir (W : Bytes) (g : Int → Option File) : Prop where
  seg : ∀ n f, g n = some f → f.own = true → IsSeg W f
  nonneg : ∀ n f, g n = some f → f.own = true → 0 ≤ n
  order : ∀ n m f f', g n = some f → g m = some f' → f.own = true → f'.own = true → m < n →
    fend f ≤ f'.start

theorem rollSpec_src (N : Int) (h : Nat) (g : Int → Option File) (n : Int) (f : File)
    (hr : rollSpec N h g n = some f) :
    (n = 0 ∧ f = ⟨h, true, []⟩) ∨
    (n ≠ 0 ∧ ∃ a, g a = some f ∧
      ((a = n - 1 ∧ 1 ≤ n ∧ n ≤ N) ∨ (a = n ∧ (N < n ∨ n < 0 ∨ N ≤ 0 ∨ n = N)))) := by
  unfold rollSpec at hr
  by_cases h0 : n = 0
  · left; simp [h0] at hr; exact ⟨h0, hr.symm⟩
  · right
    refine ⟨h0, ?_⟩
    simp only [h0, if_false] at hr
    by_cases hN : 0 < N
    · simp only [hN, if_true] at hr
      by_cases h1 : n = 1
      · subst h1
        simp only [if_true] at hr
        exact ⟨0, hr, Or.inl ⟨by omega, by omega, by omega⟩⟩
      · simp only [h1, if_false] at hr
        by_cases h2 : 2 ≤ n ∧ n ≤ N
        · simp only [h2, and_self, if_true] at hr
          by_cases hp : (g (n - 1)).isSome = true
          · simp only [hp, if_true] at hr
            exact ⟨n - 1, hr, Or.inl ⟨rfl, by omega, h2.2⟩⟩
          · simp only [hp, if_false] at hr
            by_cases hn : n = N
            · simp only [hn, if_true] at hr
              exact ⟨n, by rw [hn]; exact hr, Or.inr ⟨rfl, Or.inr (Or.inr (Or.inr hn))⟩⟩
            · simp [hn] at hr
        · simp only [h2, if_false] at hr
          exact ⟨n, hr, Or.inr ⟨rfl, by omega⟩⟩
    · simp only [hN, if_false] at hr
      exact ⟨n, hr, Or.inr ⟨rfl, by omega⟩⟩

theorem segDir_roll (W : Bytes) (N : Int) (g : Int → Option File) (I : SegDir W g) :
    SegDir W (rollSpec N W.length g) := by
  refine ⟨?_, ?_, ?_⟩
  · intro n f hf ho
    rcases rollSpec_src _ _ _ _ _ hf with ⟨_, rfl⟩ | ⟨_, a, ha, _⟩
    · exact isSeg_new W
    · exact I.seg a f ha ho
  · intro n f hf ho
    rcases rollSpec_src _ _ _ _ _ hf with ⟨h0, _⟩ | ⟨_, a, ha, hc⟩
    · omega
    · have := I.nonneg a f ha ho
      omega
  · intro n m f f' hf hf' ho ho' hlt
    rcases rollSpec_src _ _ _ _ _ hf with ⟨h0, rfl⟩ | ⟨hn0, a, ha, hc⟩
    · -- n = 0: then m < 0, impossible for an own file
      rcases rollSpec_src _ _ _ _ _ hf' with ⟨h0', _⟩ | ⟨_, a', ha', hc'⟩
      · omega
      · have := I.nonneg a' f' ha' ho'
        omega
    · rcases rollSpec_src _ _ _ _ _ hf' with ⟨h0', rfl⟩ | ⟨hm0, a', ha', hc'⟩
      · exact isSeg_end_le W f (I.seg a f ha ho)
      · have h1 := I.nonneg a f ha ho
        have h2 := I.nonneg a' f' ha' ho'
        exact I.order a a' f f' ha ha' ho ho' (by omega)

theorem segDir_write_base (W b : Bytes) (g : Int → Option File) (I : SegDir W g) (f : File)
    (hf : g 0 = some f) (he : f.own = true → fend f = W.length) :
    SegDir (W ++ b) (fun m => if m = 0 then some ⟨f.start, f.own, f.data ++ b⟩ else g m) := by
  refine ⟨?_, ?_, ?_⟩
  · intro n x hx ho
    by_cases hn : n = 0
    · simp only [hn, if_true, Option.some.injEq] at hx
      subst hx
      exact (isSeg_extend W b f (I.seg 0 f hf ho) (he ho)).1
    · simp only [hn, if_false] at hx
      exact isSeg_append W b x (I.seg n x hx ho)
  · intro n x hx ho
    by_cases hn : n = 0
    · omega
    · simp only [hn, if_false] at hx
      exact I.nonneg n x hx ho
  · intro n m x y hx hy hox hoy hlt
    by_cases hn : n = 0
    · by_cases hm : m = 0
      · omega
      · simp only [hm, if_false] at hy
        have := I.nonneg m y hy hoy
        omega
    · simp only [hn, if_false] at hx
      by_cases hm : m = 0
      · simp only [hm, if_true, Option.some.injEq] at hy
        subst hy
        exact I.order n 0 x f hx hf hox hoy (by omega)
      · simp only [hm, if_false] at hy
        exact I.order n m x y hx hy hox hoy hlt

theorem segDir_append (W b : Bytes) (g : Int → Option File) (I : SegDir W g) : SegDir (W ++ b) g :=
  ⟨fun n f hf ho => isSeg_append W b f (I.seg n f hf ho), I.nonneg, I.order⟩

theorem segDir_new0 (W : Bytes) (g : Int → Option File) (I : SegDir W g) :
    SegDir W (fun m => if m = 0 then some ⟨W.length, true, []⟩ else g m) := by
  refine ⟨?_, ?_, ?_⟩
  · intro n x hx ho
    by_cases hn : n = 0
    · simp only [hn, if_true, Option.some.injEq] at hx
      subst hx; exact isSeg_new W
    · simp only [hn, if_false] at hx
      exact I.seg n x hx ho
  · intro n x hx ho
    by_cases hn : n = 0
    · omega
    · simp only [hn, if_false] at hx
      exact I.nonneg n x hx ho
  · intro n m x y hx hy hox hoy hlt
    by_cases hn : n = 0
    · by_cases hm : m = 0
      · omega
      · simp only [hm, if_false] at hy
        have := I.nonneg m y hy hoy
        omega
    · simp only [hn, if_false] at hx
      by_cases hm : m = 0
      · simp only [hm, if_true, Option.some.injEq] at hy
        subst hy
        exact isSeg_end_le W x (I.seg n x hx hox)
      · simp only [hm, if_false] at hy
        exact I.order n m x y hx hy hox hoy hlt

theorem segDir_remove (W : Bytes) (g : Int → Option File) (I : SegDir W g) (k : Int) :
    SegDir W (fun m => if m = k then none else g m) := by
  refine ⟨?_, ?_, ?_⟩
  · intro n x hx ho
    by_cases hn : n = k
    · simp [hn] at hx
    · simp only [hn, if_false] at hx; exact I.seg n x hx ho
  · intro n x hx ho
    by_cases hn : n = k
    · simp [hn] at hx
    · simp only [hn, if_false] at hx; exact I.nonneg n x hx ho
  · intro n m x y hx hy hox hoy hlt
    by_cases hn : n = k
    · simp [hn] at hx
    · by_cases hm : m = k
      · simp [hm] at hy
      · simp only [hn, hm, if_false] at hx hy
        exact I.order n m x y hx hy hox hoy hlt

theorem segDir_foreign (W : Bytes) (g : Int → Option File) (I : SegDir W g) (k : Int) (d : Bytes) :
    SegDir W (fun m => if m = k then some ⟨0, false, d⟩ else g m) := by
  refine ⟨?_, ?_, ?_⟩
  · intro n x hx ho
    by_cases hn : n = k
    · simp only [hn, if_true, Option.some.injEq] at hx; subst hx; simp at ho
    · simp only [hn, if_false] at hx; exact I.seg n x hx ho
  · intro n x hx ho
    by_cases hn : n = k
    · simp only [hn, if_true, Option.some.injEq] at hx; subst hx; simp at ho
    · simp only [hn, if_false] at hx; exact I.nonneg n x hx ho
  · intro n m x y hx hy hox hoy hlt
    by_cases hn : n = k
    · simp only [hn, if_true, Option.some.injEq] at hx; subst hx; simp at hox
    · by_cases hm : m = k
      · simp only [hm, if_true, Option.some.injEq] at hy; subst hy; simp at hoy
      · simp only [hn, hm, if_false] at hx hy
        exact I.order n m x y hx hy hox hoy hlt

theorem segDir_congr (W : Bytes) (g g' : Int → Option File) (h : ∀ n, g' n = g n) (I : SegDir W g) :
    SegDir W g' := by
  have : g' = g := funext h
  rw [this]; exact I

/-! ### "every file was created by the handler" (histories without external replacement) -/

def AllOwn (g : Int → Option File) : Prop := ∀ n f, g n = some f → f.own = true

theorem allOwn_roll (N : Int) (h : Nat) (g : Int → Option File) (I : AllOwn g) : AllOwn (rollSpec N h g) := by
  intro n f hf
  rcases rollSpec_src _ _ _ _ _ hf with ⟨_, rfl⟩ | ⟨_, a, ha, _⟩
  · rfl
  · exact I a f ha

theorem allOwn_write_base (g : Int → Option File) (I : AllOwn g) (f : File) (hf : g 0 = some f) (b : Bytes) :
    AllOwn (fun m => if m = 0 then some ⟨f.start, f.own, f.data ++ b⟩ else g m) := by
  intro n x hx
  by_cases hn : n = 0
  · simp only [hn, if_true, Option.some.injEq] at hx; subst hx; exact I 0 f hf
  · simp only [hn, if_false] at hx; exact I n x hx

theorem allOwn_new0 (g : Int → Option File) (I : AllOwn g) (h : Nat) :
    AllOwn (fun m => if m = 0 then some ⟨h, true, []⟩ else g m) := by
  intro n x hx
  by_cases hn : n = 0
  · simp only [hn, if_true, Option.some.injEq] at hx; subst hx; rfl
  · simp only [hn, if_false] at hx; exact I n x hx

theorem allOwn_remove (g : Int → Option File) (I : AllOwn g) (k : Int) :
    AllOwn (fun m => if m = k then none else g m) := by
  intro n x hx
  by_cases hn : n = k
  · simp [hn] at hx
  · simp only [hn, if_false] at hx; exact I n x hx

/-! ### the state invariant and its preservation by every operation -/

structure SegInv (W : Bytes) (s : S) : Prop where
  ok : s.err = none
  hist : s.hist = W.length
  dir : SegDir W s.dir.get
  live : (s.stream = .attached 0 ∧ ∃ f, s.dir.get 0 = some f ∧ (f.own = true → fend f = W.length)) ∨
         (∃ f, s.stream = .detached f ∧ ∀ g, s.dir.get 0 = some g → g.own = false)

theorem SegInv.wf {W : Bytes} {s : S} (I : SegInv W s) : WF s := by
  refine ⟨I.ok, ?_⟩
  rcases I.live with ⟨ha, f, hf, _⟩ | ⟨f, hd, _⟩
  · exact Or.inl ⟨ha, by rw [hf]; rfl⟩
  · exact Or.inr ⟨f, hd⟩

/-- precise effect of an external removal / replacement of name `n` -/
theorem ext_spec2 (n : Int) (s : S) (I : WF s) (upd : Dir → Dir)
    (op : S → S) (hop : op = okThen fun s => okThen (fun s1 => { s1 with dir := upd s1.dir }) (detachAt n s)) :
    (op s).err = none ∧ (op s).hist = s.hist ∧ (op s).dir = upd s.dir ∧
    ((s.stream = .attached 0 ∧ n ≠ 0 ∧ (op s).stream = .attached 0) ∨
     (s.stream = .attached 0 ∧ n = 0 ∧ ∃ f, s.dir.get 0 = some f ∧ (op s).stream = .detached f) ∨
     (∃ f, s.stream = .detached f ∧ (op s).stream = .detached f)) := by
  subst hop
  rw [okThen_ok _ _ I.ok]
  rcases I.open_ with ⟨ha, hp⟩ | ⟨f, hd⟩
  · by_cases hn : n = 0
    · subst hn
      cases h0 : s.dir.get 0 with
      | none => rw [h0] at hp; simp at hp
      | some f =>
        have : detachAt 0 s = { s with stream := .detached f } := by simp [detachAt, ha, h0]
        rw [this, okThen_ok _ _ (by exact I.ok)]
        exact ⟨I.ok, rfl, rfl, Or.inr (Or.inl ⟨ha, rfl, f, rfl, rfl⟩)⟩
    · have hn' : ¬ (0 : Int) = n := fun h => hn h.symm
      have : detachAt n s = s := by simp [detachAt, ha, hn']
      rw [this, okThen_ok _ _ I.ok]
      exact ⟨I.ok, rfl, rfl, Or.inl ⟨ha, hn, ha⟩⟩
  · have : detachAt n s = s := by simp [detachAt, hd]
    rw [this, okThen_ok _ _ I.ok]
    exact ⟨I.ok, rfl, rfl, Or.inr (Or.inr ⟨f, hd, hd⟩)⟩

theorem segInv_write (c : Cfg) (hr : c.rotating = true) (hm : 0 < c.maxBytes) (W : Bytes) (s : S)
    (I : SegInv W s) (b : Bytes) :
    SegInv (W ++ b) (emit c b s) ∧ (AllOwn s.dir.get → AllOwn (emit c b s).dir.get) := by
  have hW : (W ++ b).length = s.hist + b.length := by rw [I.hist]; simp
  rcases I.live with ⟨ha, f, hf, he⟩ | ⟨f0, hd, hforeign⟩
  · obtain ⟨e, st, hi, g⟩ := emit_attached_gen c hr hm s I.ok ha f hf b
    have hg := funext g
    have d1 := segDir_write_base W b s.dir.get I.dir f hf he
    by_cases hl : ((f.data ++ b).length : Int) < c.maxBytes
    · simp only [if_pos hl] at hg
      refine ⟨⟨e, by rw [hi, hW], by rw [hg]; exact d1, Or.inl ⟨st, ⟨f.start, f.own, f.data ++ b⟩, by rw [hg]; simp, ?_⟩⟩, ?_⟩
      · intro ho
        exact (isSeg_extend W b f (I.dir.seg 0 f hf ho) (he ho)).2
      · intro ao; rw [hg]; exact allOwn_write_base _ ao f hf b
    · simp only [if_neg hl] at hg
      rw [← hW] at hg
      refine ⟨⟨e, by rw [hi, hW], by rw [hg]; exact segDir_roll _ _ _ d1,
        Or.inl ⟨st, ⟨(W ++ b).length, true, []⟩, by rw [hg]; simp [rollSpec], ?_⟩⟩, ?_⟩
      · intro _; simp [fend]
      · intro ao; rw [hg]; exact allOwn_roll _ _ _ (allOwn_write_base _ ao f hf b)
  · obtain ⟨e, hi, g⟩ := emit_detached_gen c hr hm s I.ok f0 hd b
    have d1 := segDir_append W b s.dir.get I.dir
    by_cases hl : ((f0.data ++ b).length : Int) < c.maxBytes
    · rw [if_pos hl] at g
      have hg := funext g.2
      refine ⟨⟨e, by rw [hi, hW], by rw [hg]; exact d1, Or.inr ⟨_, g.1, ?_⟩⟩, ?_⟩
      · intro x hx; rw [hg] at hx; exact hforeign x hx
      · intro ao; rw [hg]; exact ao
    · rw [if_neg hl] at g
      have hg := funext g.2
      rw [← hW] at hg
      refine ⟨⟨e, by rw [hi, hW], by rw [hg]; exact segDir_roll _ _ _ d1,
        Or.inl ⟨g.1, ⟨(W ++ b).length, true, []⟩, by rw [hg]; simp [rollSpec], ?_⟩⟩, ?_⟩
      · intro _; simp [fend]
      · intro ao; rw [hg]; exact allOwn_roll _ _ _ ao

theorem segInv_clear (c : Cfg) (W : Bytes) (s : S) (I : SegInv W s) :
    SegInv W (fhReopen c (fhRemove s)) ∧ (AllOwn s.dir.get → AllOwn (fhReopen c (fhRemove s)).dir.get) := by
  obtain ⟨e, st, hi, g⟩ := clear_spec c s I.ok
  have hg := funext g
  rw [I.hist] at hg
  refine ⟨⟨e, by rw [hi, I.hist], by rw [hg]; exact segDir_new0 W _ I.dir,
    Or.inl ⟨st, ⟨W.length, true, []⟩, by rw [hg]; simp, by intro _; simp [fend]⟩⟩, ?_⟩
  intro ao; rw [hg]; exact allOwn_new0 _ ao _

theorem segInv_reopen (c : Cfg) (W : Bytes) (s : S) (I : SegInv W s) :
    SegInv W (fhReopen c s) ∧ (AllOwn s.dir.get → AllOwn (fhReopen c s).dir.get) := by
  obtain ⟨e, st, hi, g⟩ := fhReopen_spec c s I.ok
  cases h0 : s.dir.get 0 with
  | none =>
    have hg : (fhReopen c s).dir.get = fun m => if m = 0 then some ⟨W.length, true, []⟩ else s.dir.get m := by
      funext n
      rw [g n, h0, I.hist]
      by_cases hn : n = 0 <;> simp [hn]
    refine ⟨⟨e, by rw [hi, I.hist], by rw [hg]; exact segDir_new0 W _ I.dir,
      Or.inl ⟨st, ⟨W.length, true, []⟩, by rw [hg]; simp, by intro _; simp [fend]⟩⟩, ?_⟩
    intro ao; rw [hg]; exact allOwn_new0 _ ao _
  | some x =>
    have hg : (fhReopen c s).dir.get = s.dir.get := by
      funext n
      rw [g n, h0]; simp
    refine ⟨⟨e, by rw [hi, I.hist], by rw [hg]; exact I.dir, Or.inl ⟨st, x, by rw [hg]; exact h0, ?_⟩⟩, ?_⟩
    · intro ho
      rcases I.live with ⟨_, f, hf, he⟩ | ⟨f0, _, hforeign⟩
      · rw [h0] at hf; injection hf with hf; subst hf; exact he ho
      · have := hforeign x h0; rw [this] at ho; simp at ho
    · intro ao; rw [hg]; exact ao

theorem segInv_ext (W : Bytes) (s : S) (I : SegInv W s) (k : Int) (upd : Dir → Dir) (op : S → S)
    (hop : op = okThen fun s => okThen (fun s1 => { s1 with dir := upd s1.dir }) (detachAt k s))
    (g' : Int → Option File) (hupd : (upd s.dir).get = g') (hd : SegDir W g')
    (h0 : k = 0 → ∀ x, g' 0 = some x → x.own = false) (hk : k ≠ 0 → g' 0 = s.dir.get 0) :
    SegInv W (op s) := by
  obtain ⟨e, hi, hdir, hs⟩ := ext_spec2 k s I.wf upd op hop
  have hg : (op s).dir.get = g' := by rw [hdir, hupd]
  refine ⟨e, by rw [hi, I.hist], by rw [hg]; exact hd, ?_⟩
  rcases hs with ⟨ha, hk0, hs'⟩ | ⟨ha, hk0, f, hf, hs'⟩ | ⟨f, hdet, hs'⟩
  · rcases I.live with ⟨_, f, hf, he⟩ | ⟨f0, hdd, _⟩
    · exact Or.inl ⟨hs', f, by rw [hg, hk hk0]; exact hf, he⟩
    · rw [hdd] at ha; simp at ha
  · refine Or.inr ⟨f, hs', ?_⟩
    intro x hx; rw [hg] at hx; exact h0 hk0 x hx
  · refine Or.inr ⟨f, hs', ?_⟩
    intro x hx
    rw [hg] at hx
    by_cases hk0 : k = 0
    · exact h0 hk0 x hx
    · rw [hk hk0] at hx
      rcases I.live with ⟨ha, _⟩ | ⟨f0, _, hforeign⟩
      · rw [hdet] at ha; simp at ha
      · exact hforeign x hx

end Sv.Rotate
