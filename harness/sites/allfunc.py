"""
make_allfunc (supervisor/rpcinterface.py): the closure behind start/stop/signal-ProcessGroup and -AllProcesses.

guards  -- every test of the closure (`not callbacks`, `predicate(process)`, `isinstance(callback, FunctionType)`,
           `value is not NOT_DONE_YET`, `callbacks`) and the three predicates isRunning / isNotRunning / isSignallable.
tables  -- the statement-level facts the model depends on and the translator does not carry as expressions:
           what the poll loop iterates over (`callbacks[:]`, a copy), how a finished callback is taken out of the pending
           list (`callbacks.remove(struct)`), that the tuple packed into `callbacks` is unpacked in the same order, the
           status / description expressions of the four `results.append({...})` sites, where the name / group fields
           of an entry come from, and for each of the six public callers which predicate and which single-process
           method it hands to make_allfunc.

Locals of the closure are recognised by ROLE (position of the closure's parameters, loop targets, the assignment from
`func(...)`, the unpacking of the loop variable, the assignment from the callback call, the `except ... as` names) and
renamed to the names used in the source today before anything is matched, so that renaming a local in /repo changes
nothing here.
"""
import ast, copy, os
from extract import Site, Tr, REPO, find_func, lean_str

LEAN_MODULE = 'AllFunc'
IMPORTS = ['SupervisorModel.Generated.Proc']
OPENS = ['Sv.Proc', 'Sv.Gen.Proc']

PARAM_ROLES = ['processes', 'predicate', 'func', 'extra_kwargs', 'callbacks', 'results']


def _is_call_of(node, fname):
    return isinstance(node, ast.Call) and isinstance(node.func, ast.Name) and node.func.id == fname


def role_map(inner):
    """{name used in /repo now: canonical name} for the closure `allfunc`"""
    m = {}
    args = [a.arg for a in inner.args.args]
    if len(args) == len(PARAM_ROLES):
        m.update(zip(args, PARAM_ROLES))
    rev = lambda canon: next((k for k, v in m.items() if v == canon), canon)
    fors = [n for n in ast.walk(inner) if isinstance(n, ast.For)]
    fors.sort(key=lambda n: n.lineno)
    for f in fors:
        it = f.iter
        base = it.value if isinstance(it, ast.Subscript) else (it.args[0] if isinstance(it, ast.Call) and it.args else
                                                             (it.func.value if isinstance(it, ast.Call) and isinstance(it.func, ast.Attribute) else it))
        bname = base.id if isinstance(base, ast.Name) else None
        if bname == rev('processes') and isinstance(f.target, ast.Tuple) and len(f.target.elts) == 2:
            for t, canon in zip(f.target.elts, ('group', 'process')):
                if isinstance(t, ast.Name):
                    m[t.id] = canon
            for n in ast.walk(f):
                if isinstance(n, ast.Assign) and len(n.targets) == 1 and isinstance(n.targets[0], ast.Name):
                    if _is_call_of(n.value, 'make_namespec'):
                        m[n.targets[0].id] = 'name'
                    elif _is_call_of(n.value, rev('func')):
                        m[n.targets[0].id] = 'callback'
                if isinstance(n, ast.ExceptHandler) and n.name:
                    m[n.name] = 'e'
        elif bname == rev('callbacks') and isinstance(f.target, ast.Name):
            m[f.target.id] = 'struct'
            cbname = None
            for n in ast.walk(f):
                if isinstance(n, ast.Assign) and len(n.targets) == 1:
                    t = n.targets[0]
                    if isinstance(t, ast.Tuple) and len(t.elts) == 3 and isinstance(n.value, ast.Name) and n.value.id == f.target.id:
                        for x, canon in zip(t.elts, ('group', 'process', 'cb')):
                            if isinstance(x, ast.Name):
                                m[x.id] = canon
                        if isinstance(t.elts[2], ast.Name):
                            cbname = t.elts[2].id
            for n in ast.walk(f):
                if isinstance(n, ast.Assign) and len(n.targets) == 1 and isinstance(n.targets[0], ast.Name) \
                        and cbname and _is_call_of(n.value, cbname) and not n.value.args:
                    m[n.targets[0].id] = 'value'
                if isinstance(n, ast.ExceptHandler) and n.name:
                    m[n.name] = 'e'
    return m


class _Rename(ast.NodeTransformer):
    def __init__(self, m):
        self.m = m

    def visit_Name(self, n):
        return ast.copy_location(ast.Name(id=self.m.get(n.id, n.id), ctx=n.ctx), n)

    def visit_arg(self, n):
        n.arg = self.m.get(n.arg, n.arg)
        return n

    def visit_ExceptHandler(self, n):
        self.generic_visit(n)
        if n.name:
            n.name = self.m.get(n.name, n.name)
        return n


def canonical(node, m):
    return ast.fix_missing_locations(_Rename(m).visit(copy.deepcopy(node)))


class AllfuncTr(Tr):
    """translates the closure's tests after renaming its locals to their canonical names"""
    def __init__(self, site, func):
        self.m = role_map(func)
        Tr.__init__(self, site, canonical(func, self.m))

    def _c(self, e):
        return canonical(e, self.m)

    def typ(self, e):
        return Tr.typ(self, self._c(e))

    def expr(self, e):
        return Tr.expr(self, self._c(e))

    def truth(self, e):
        return Tr.truth(self, self._c(e))


# ---------------------------------------------------------------------------------------------- tables

def _entry_expr(e, faults):
    """an entry field's expression over (errCode : Int) (errText procName groupName : String)"""
    s = ast.unparse(e)
    if s == 'e.code':
        return 'errCode', 'Int'
    if s == 'e.text':
        return 'errText', 'String'
    if s == 'process.config.name':
        return 'procName', 'String'
    if s == 'group.config.name':
        return 'groupName', 'String'
    if isinstance(e, ast.Attribute) and isinstance(e.value, ast.Name) and e.value.id == 'Faults' and isinstance(faults.get(e.attr), int):
        return '(%d : Int)' % faults[e.attr], 'Int'
    if isinstance(e, ast.Constant) and isinstance(e.value, str):
        return lean_str(e.value), 'String'
    if isinstance(e, ast.Constant) and isinstance(e.value, int) and not isinstance(e.value, bool):
        return '(%d : Int)' % e.value, 'Int'
    return None, None


ENTRY_PARAMS = '(errCode : Int) (errText procName groupName : String)'
FIELD_TYPES = {'name': 'String', 'group': 'String', 'status': 'Int', 'description': 'String'}


def _appends(stmts, loop, in_handler, acc):
    """results.append({...}) sites under stmts, labelled <loop>Err inside an except handler and <loop>Ok elsewhere"""
    for st in stmts:
        if isinstance(st, ast.Expr) and isinstance(st.value, ast.Call) and ast.unparse(st.value.func) == 'results.append':
            acc.append((loop + ('Err' if in_handler else 'Ok'), st.value))
        elif isinstance(st, ast.Try):
            _appends(st.body, loop, in_handler, acc)
            for h in st.handlers:
                _appends(h.body, loop, True, acc)
            _appends(st.orelse, loop, in_handler, acc)
            _appends(st.finalbody, loop, in_handler, acc)
        elif isinstance(st, ast.If):
            _appends(st.body, loop, in_handler, acc)
            _appends(st.orelse, loop, in_handler, acc)
        elif isinstance(st, (ast.For, ast.While, ast.With)):
            _appends(st.body, loop, in_handler, acc)


def _placements(stmts, loop, in_handler, guards, acc):
    """every operation on `results` / `callbacks` under stmts with the branch it sits in: (<loop>Err|<loop>Ok, operation, guards),
    guards = the tests of the enclosing ifs inside the loop, '+' for the then-branch, '-' for the else-branch"""
    for st in stmts:
        if isinstance(st, ast.Expr) and isinstance(st.value, ast.Call) and isinstance(st.value.func, ast.Attribute) \
                and ast.unparse(st.value.func.value) in ('results', 'callbacks'):
            f = ast.unparse(st.value.func)
            acc.append((loop + ('Err' if in_handler else 'Ok'), f if f == 'results.append' else ast.unparse(st.value), list(guards)))
        elif isinstance(st, (ast.Assign, ast.AugAssign, ast.Delete)) and any(x in ast.unparse(st).split('=')[0] for x in ('results', 'callbacks')):
            acc.append((loop + ('Err' if in_handler else 'Ok'), ast.unparse(st), list(guards)))
        elif isinstance(st, ast.Try):
            _placements(st.body, loop, in_handler, guards, acc)
            for h in st.handlers:
                _placements(h.body, loop, True, guards, acc)
            _placements(st.orelse, loop, in_handler, guards, acc)
            _placements(st.finalbody, loop, in_handler, guards, acc)
        elif isinstance(st, ast.If):
            t = ast.unparse(st.test)
            _placements(st.body, loop, in_handler, guards + ['+' + t], acc)
            _placements(st.orelse, loop, in_handler, guards + ['-' + t], acc)
        elif isinstance(st, (ast.For, ast.While, ast.With)):
            _placements(st.body, loop, in_handler, guards, acc)


def TABLES():
    import importlib
    import supervisor.xmlrpc as xr
    importlib.reload(xr)
    faults = {k: v for k, v in vars(xr.Faults).items() if not k.startswith('_')}
    out = []
    out.append('/-- what a polled callback hands back: the NOT_DONE_YET sentinel or anything else -/')
    out.append('inductive CbValue | notDoneYet | plain')
    out.append('deriving DecidableEq, Repr')
    tree = ast.parse(open(os.path.join(REPO, 'supervisor/rpcinterface.py')).read())
    inner0 = find_func(tree, 'make_allfunc.allfunc')
    inner = canonical(inner0, role_map(inner0))

    top_fors = []
    def fors(stmts):
        for st in stmts:
            if isinstance(st, ast.For):
                top_fors.append(st)
            elif isinstance(st, ast.If):
                fors(st.body); fors(st.orelse)
    fors(inner.body)
    walk = next((f for f in top_fors if ast.unparse(f.iter) == 'processes'), None)
    poll = next((f for f in top_fors if f is not walk and 'callbacks' in ast.unparse(f.iter)), None)

    # ---- what the poll loop iterates over
    it = ast.unparse(poll.iter) if poll is not None else '?'
    out.append('/-- the poll loop iterates over a copy of the pending list (`%s`), so removing from `callbacks` inside the loop' % it)
    out.append('    does not disturb the iteration -/')
    out.append('def pollLoopOverCopy : Bool := %s' % ('true' if it in ('callbacks[:]', 'list(callbacks)', 'callbacks.copy()', 'tuple(callbacks)') else 'false'))
    out.append('def pollLoopTargetIsStruct : Bool := %s' % ('true' if poll is not None and ast.unparse(poll.target) == 'struct' else 'false'))

    # ---- how a finished callback leaves the pending list
    removals = []
    if poll is not None:
        for n in ast.walk(poll):
            if isinstance(n, ast.Call) and isinstance(n.func, ast.Attribute) and ast.unparse(n.func.value) == 'callbacks':
                removals.append(ast.unparse(n))
            if isinstance(n, (ast.Delete, ast.Assign, ast.AugAssign)) and 'callbacks' in ast.unparse(n).split('=')[0]:
                removals.append(ast.unparse(n))
    out.append('/-- every operation on `callbacks` inside the poll loop, in source order -/')
    out.append('def pollListOps : List String := [' + ', '.join(lean_str(x) for x in removals) + ']')
    # one removal in the except branch and one under `value is not NOT_DONE_YET`, both `callbacks.remove(struct)`
    placed = False
    if poll is not None:
        trys = [s for s in poll.body if isinstance(s, ast.Try)]
        if len(trys) == 1 and len(trys[0].handlers) == 1:
            t = trys[0]
            in_exc = [ast.unparse(s) for s in t.handlers[0].body if isinstance(s, ast.Expr) and 'callbacks' in ast.unparse(s)]
            ifs = [s for s in t.orelse if isinstance(s, ast.If)]
            in_else = [ast.unparse(s) for i in ifs for s in i.body if isinstance(s, ast.Expr) and 'callbacks' in ast.unparse(s)]
            other = [ast.unparse(s) for i in ifs for s in i.orelse if 'callbacks' in ast.unparse(s)]
            placed = in_exc == ['callbacks.remove(struct)'] and in_else == ['callbacks.remove(struct)'] and not other \
                and ast.unparse(t.handlers[0].type) == 'RPCError'
    out.append('/-- a callback that raised RPCError, and one that returned something other than NOT_DONE_YET, is taken out of the')
    out.append('    pending list by `callbacks.remove(struct)` (removal of that very tuple), and nothing else touches the list there -/')
    out.append('def pollRemovesStruct : Bool := %s' % ('true' if placed and removals == ['callbacks.remove(struct)'] * 2 else 'false'))

    # ---- tuple packed into callbacks / unpacked from the loop variable
    packs = [ast.unparse(n.args[0]) for n in ast.walk(walk) if isinstance(n, ast.Call) and ast.unparse(n.func) == 'callbacks.append' and n.args] if walk is not None else []
    unpacks = [ast.unparse(n.targets[0]) for n in ast.walk(poll) if isinstance(n, ast.Assign) and ast.unparse(n.value) == 'struct'] if poll is not None else []
    out.append('/-- `callbacks.append((group, process, callback))` in the walk, `group, process, cb = struct` in the poll loop -/')
    out.append('def structPackedAsUnpacked : Bool := %s' % ('true' if packs == ['(group, process, callback)'] and unpacks in (['(group, process, cb)'], ['group, process, cb']) else 'false'))
    # the walk calls func once per loop iteration, with the namespec, inside the predicate test
    calls = [ast.unparse(n) for n in ast.walk(walk) if isinstance(n, ast.Call) and isinstance(n.func, ast.Name) and n.func.id == 'func'] if walk is not None else []
    out.append('/-- the walk calls `func` exactly at one place, as -/')
    out.append('def walkFuncCalls : List String := [' + ', '.join(lean_str(x) for x in calls) + ']')
    nm = [ast.unparse(n.value) for n in ast.walk(walk) if isinstance(n, ast.Assign) and ast.unparse(n.targets[0]) == 'name'] if walk is not None else []
    out.append('def walkNamespec : List String := [' + ', '.join(lean_str(x) for x in nm) + ']')
    out.append('/-- `func` is not called anywhere else in the closure (in particular not in the poll loop) -/')
    allcalls = [n for n in ast.walk(inner) if isinstance(n, ast.Call) and isinstance(n.func, ast.Name) and n.func.id == 'func']
    out.append('def funcCalledOnlyInWalk : Bool := %s' % ('true' if len(allcalls) == len(calls) == 1 else 'false'))

    # ---- where the two lists are touched
    pl = []
    if walk is not None:
        _placements(walk.body, 'walk', False, [], pl)
    if poll is not None:
        _placements(poll.body, 'poll', False, [], pl)
    out.append('/-- every operation on `results` and `callbacks` inside the two loops, in source order: (branch, operation, tests of the')
    out.append('    enclosing ifs: + then-branch, - else-branch) -/')
    out.append('def listOpPlacement : List (String × String × List String) := [\n  ' + ',\n  '.join(
        '(%s, %s, [%s])' % (lean_str(a), lean_str(b), ', '.join(lean_str(g) for g in c)) for a, b, c in pl) + ']')

    # ---- the four result entries
    sites = []
    if walk is not None:
        _appends(walk.body, 'walk', False, sites)
    if poll is not None:
        _appends(poll.body, 'poll', False, sites)
    labels = [w for w, _ in sites]
    out.append('/-- the branches in which an entry is appended to `results`, in source order -/')
    out.append('def appendSites : List String := [' + ', '.join(lean_str(x) for x in labels) + ']')
    for want in ('walkErr', 'walkOk', 'pollErr', 'pollOk'):
        cands = [c for w, c in sites if w == want]
        d = cands[0].args[0] if len(cands) == 1 and cands[0].args and isinstance(cands[0].args[0], ast.Dict) else None
        fields = {}
        if d is not None and all(isinstance(k, ast.Constant) for k in d.keys):
            fields = {k.value: v for k, v in zip(d.keys, d.values)}
        for fld in ('name', 'group', 'status', 'description'):
            ident = '%s_%s' % (want, fld)
            e = fields.get(fld)
            x, t = _entry_expr(e, faults) if e is not None and set(fields) == set(FIELD_TYPES) else (None, None)
            if x is None or t != FIELD_TYPES[fld]:
                out.append('-- %s  UNTRANSLATED  %s' % (ident, ast.unparse(e) if e is not None else '(no single results.append({...}) with the four fields in this branch)'))
            else:
                out.append('-- make_allfunc.allfunc:%d  %r: %s\ndef %s %s : %s := %s' % (e.lineno, fld, ast.unparse(e), ident, ENTRY_PARAMS, t, x))

    # ---- the six callers
    cls = find_func(tree, 'SupervisorNamespaceRPCInterface')
    rows = []
    for f in cls.body:
        if not isinstance(f, ast.FunctionDef):
            continue
        for n in ast.walk(f):
            if _is_call_of(n, 'make_allfunc') and len(n.args) >= 3:
                src = 'all' if 'self._getAllProcesses' in ast.unparse(f) else ('group' if 'group.processes.values()' in ast.unparse(f) else '?')
                leaf = n.args[2].attr if isinstance(n.args[2], ast.Attribute) and ast.unparse(n.args[2].value) == 'self' else '?' + ast.unparse(n.args[2])
                rows.append('(%s, %s, %s, %s, [%s])' % (lean_str(f.name), lean_str(src), lean_str(ast.unparse(n.args[1])), lean_str(leaf),
                                                     ', '.join(lean_str(k.arg or '**') for k in n.keywords)))
    out.append('/-- every public method that builds its answer with make_allfunc: (method, scope of the process list, predicate, the')
    out.append('    single-process method applied to each eligible process, keyword arguments passed through) -/')
    out.append('def callers : List (String × String × String × String × List String) := [\n  ' + ',\n  '.join(rows) + ']')

    # ---- the three single-process methods hand `group:*` / `group:` over to the group form: which parameter of the group method
    #      receives what ("group" = the group part of the namespec, otherwise the caller's own parameter of that name)
    methods = {f.name: f for f in cls.body if isinstance(f, ast.FunctionDef)}
    drows = []
    for single in ('startProcess', 'stopProcess', 'signalProcess'):
        f = methods.get(single)
        own = [a.arg for a in f.args.args[1:]] if f is not None else []
        found = []
        for n in (ast.walk(f) if f is not None else []):
            if isinstance(n, ast.If) and ast.unparse(n.test) == 'process is None':
                for r in ast.walk(n):
                    if isinstance(r, ast.Return) and isinstance(r.value, ast.Call) and isinstance(r.value.func, ast.Attribute) \
                            and ast.unparse(r.value.func.value) == 'self':
                        found.append(r.value)
        if len(found) != 1 or found[0].func.attr not in methods:
            drows.append('(%s, "?", [])' % lean_str(single))
            continue
        call = found[0]
        params = [a.arg for a in methods[call.func.attr].args.args[1:]]
        bound = [(params[i] if i < len(params) else '?%d' % i, a) for i, a in enumerate(call.args)] + [(k.arg or '**', k.value) for k in call.keywords]
        def what(e):
            u = ast.unparse(e)
            if u in ('group_name', 'group.config.name', 'split_namespec(name)[0]'):
                return 'group'
            return u if isinstance(e, ast.Name) and u in own else '?' + u
        drows.append('(%s, %s, [%s])' % (lean_str(single), lean_str(call.func.attr),
                                         ', '.join('(%s, %s)' % (lean_str(pn), lean_str(what(e))) for pn, e in bound)))
    out.append('/-- how startProcess / stopProcess / signalProcess pass a `group:*` or `group:` namespec on (the branch `process is None`):')
    out.append('    (method, group method called, (parameter of the group method, what it receives: "group" = the group part of the namespec,')
    out.append('    otherwise the caller\'s own parameter of that name); a parameter that is not listed keeps its default -/')
    out.append('def delegations : List (String × String × List (String × String)) := [\n  ' + ',\n  '.join(drows) + ']')
    return out


_vars = {
    'callbacks': ('callbacks', 'list'),
    'predicate(process)': ('eligible', 'bool'),
    'isinstance(callback, types.FunctionType)': ('isFn', 'bool'),
    'isinstance(callback, FunctionType)': ('isFn', 'bool'),
    'value': ('value', 'other'),
    'results': ('CbValue.plain', 'lean:CbValue'),      # what the closure hands back itself: the list (a plain value) or the sentinel
}
_allfunc = Site('supervisor/rpcinterface.py', 'make_allfunc.allfunc', 'allfunc',
                '(callbacks : List Nat) (eligible isFn : Bool) (value : CbValue)', _vars,
                consts={'NOT_DONE_YET': 'CbValue.notDoneYet'}, const_types={'NOT_DONE_YET': 'lean:CbValue'},
                want={'allfunc_g0', 'allfunc_g1', 'allfunc_g2', 'allfunc_g3', 'allfunc_g4', 'allfunc_g5', 'allfunc_a2', 'allfunc_a5', 'allfunc_a6'})
_allfunc.tr_class = AllfuncTr

_pvars = {'process.get_state()': ('st', 'state'), 'isRunning(process)': ('running', 'bool')}
_pconsts = {'RUNNING_STATES': 'runningStates', 'SIGNALLABLE_STATES': 'signallableStates'}

SITES = [
    _allfunc,
    Site('supervisor/rpcinterface.py', 'isRunning', 'isRunning', '(st : PS) (running : Bool)', _pvars, consts=_pconsts),
    Site('supervisor/rpcinterface.py', 'isNotRunning', 'isNotRunning', '(st : PS) (running : Bool)', _pvars, consts=_pconsts),
    Site('supervisor/rpcinterface.py', 'isSignallable', 'isSignallable', '(st : PS) (running : Bool)', _pvars, consts=_pconsts),
]
