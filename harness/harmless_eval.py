#!/venv/bin/python
"""
Evaluate harmless (semantics-preserving) refactorings: apply each to /repo, run every quick check, undo.
A check that stays silent is right; `VIOLATION … no-failing-input-found` is the prescribed answer to a rewrite the
translator/model cannot follow (counted separately); a VIOLATION with a failing input would be a false alarm of a monitor.
usage: harmless_eval.py <dir with H*/patch.diff> [check ids...]
Results: /verif/seeded/harmless/<Hn>/{patch.diff,README.md,meta.json}
"""
import json, os, shutil, subprocess, sys, time, glob

def sh(cmd, cwd=None, timeout=3000):
    p = subprocess.run(cmd, shell=True, cwd=cwd, capture_output=True, text=True, timeout=timeout)
    return p.returncode, (p.stdout + p.stderr)

def main():
    src = sys.argv[1]
    checks = sys.argv[2:] or ['C%02d' % i for i in range(1, 21)]
    saved = {c: open('/verif/evidence/%s.json' % c).read() for c in checks if os.path.exists('/verif/evidence/%s.json' % c)}
    for d in sorted(glob.glob(os.path.join(src, 'H*')), key=lambda x: int(os.path.basename(x)[1:])):
        name = os.path.basename(d)
        patch = os.path.join(d, 'patch.diff')
        meta = {'name': name, 'when': time.strftime('%Y-%m-%d %H:%M'), 'readme': open(os.path.join(d, 'README.md')).read()[:400]}
        rc, out = sh('git -C /repo apply %s' % patch)
        if rc != 0:
            rc, out = sh('patch -p1 -F3 --no-backup-if-mismatch < %s' % patch, '/repo')
        if rc != 0:
            sh('git -C /repo checkout -- .'); sh('git -C /repo clean -fdq -- supervisor')
            meta['applied'] = False; meta['why'] = out[-300:]
        else:
            meta['applied'] = True
            res = {}
            try:
                rct, outt = sh('/venv/bin/python -m pytest -q -p no:cacheprovider -x 2>&1 | tail -1', '/repo', 900)
                meta['suite'] = outt.strip()
                for c in checks:
                    t0 = time.time()
                    rc, out = sh('./check %s --tier quick' % c, '/verif', 3000)
                    lines = [l for l in out.split('\n') if l.startswith(('VIOLATION', 'OK', 'INFRA', 'TIMEOUT'))]
                    kinds = []
                    for l in lines:
                        if l.startswith('VIOLATION') and 'replay=' in l:
                            try:
                                dd = json.load(open(l.split('replay=')[1].split()[0]))
                                kinds.append({'kind': dd.get('violation_kind') or dd.get('kind'), 'found_failing_input': dd.get('found_failing_input'),
                                              'what': str(dd.get('what'))[:300]})
                            except Exception as e:
                                kinds.append({'error': str(e)})
                    res[c] = {'exit': rc, 'violations': kinds, 'wall_s': round(time.time() - t0, 1)}
            finally:
                sh('git -C /repo checkout -- .'); sh('git -C /repo clean -fdq -- supervisor')
            meta['results'] = res
            meta['silent'] = [c for c, v in res.items() if v['exit'] == 0]
            meta['broken_no_input'] = [c for c, v in res.items() if v['exit'] == 1 and not any(x.get('found_failing_input') for x in v['violations'])]
            meta['false_alarm_with_input'] = [c for c, v in res.items() if any(x.get('found_failing_input') for x in v['violations'])]
            meta['infra'] = [c for c, v in res.items() if v['exit'] not in (0, 1)]
        dst = os.path.join('/verif/seeded/harmless', name)
        os.makedirs(dst, exist_ok=True)
        for f in ('patch.diff', 'README.md'):
            shutil.copy(os.path.join(d, f), os.path.join(dst, f))
        json.dump(meta, open(os.path.join(dst, 'meta.json'), 'w'), indent=1)
        print(name, 'silent=%d' % len(meta.get('silent', [])), 'broken=%s' % meta.get('broken_no_input'), 'FALSE-ALARM=%s' % meta.get('false_alarm_with_input'), 'infra=%s' % meta.get('infra'), flush=True)
    sh('/venv/bin/python harness/extract.py', '/verif')
    for c, txt in saved.items():
        open('/verif/evidence/%s.json' % c, 'w').write(txt)

main()
