import SupervisorModel.Model.Pool
import SupervisorModel.Lemmas.Listener
/-
  Helper lemmas about the pool model (Model/Pool.lean): how the list of pools evolves under every
  operation (`Evolves`, `Good`), and which pools an operation can touch.
-/
set_option linter.unusedSimpArgs false
set_option linter.unusedVariables false
namespace Sv.Pool
open Sv.Gen.Pool Sv.Gen.Events Sv.Events Sv.Listener

/-! ### how the pool list changes -/

theorem getElem?_setPool (w : W) (i j : Nat) (f : PoolSt → PoolSt) :
    (setPool w i f).pools[j]? = if i = j then (w.pools[j]?).map f else w.pools[j]? := by
  simp only [setPool, List.getElem?_modify]
  split <;> simp [*]

@[simp] theorem setEv_pools (w : W) (e : Nat) (f : Ev → Ev) : (setEv w e f).pools = w.pools := rfl

/-- `Good p p'`: the pool kept its configuration and, if it respected its bound, still does -/
def PoolOK (p : PoolSt) : Prop := (p.buffer.length : Int) ≤ p.bufSize
def Good (p p' : PoolSt) : Prop :=
  p'.bufSize = p.bufSize ∧ p'.name = p.name ∧ (1 ≤ p.bufSize → PoolOK p → PoolOK p')

theorem Good.refl (p : PoolSt) : Good p p := ⟨rfl, rfl, fun _ h => h⟩
theorem Good.trans {a b c : PoolSt} (h1 : Good a b) (h2 : Good b c) : Good a c :=
  ⟨h2.1.trans h1.1, h2.2.1.trans h1.2.1, fun hs ha => h2.2.2 (h1.1 ▸ hs) (h1.2.2 hs ha)⟩

/-- every pool of `w'` is a `Good` successor of the pool at the same index of `w` -/
def Evolves (w w' : W) : Prop :=
  w'.pools.length = w.pools.length ∧ ∀ (j : Nat) (p' : PoolSt), w'.pools[j]? = some p' → ∃ p, w.pools[j]? = some p ∧ Good p p'

theorem Evolves.refl (w : W) : Evolves w w := ⟨rfl, fun j p' h => ⟨p', h, Good.refl _⟩⟩
theorem Evolves.trans {a b c : W} (h1 : Evolves a b) (h2 : Evolves b c) : Evolves a c := by
  refine ⟨h2.1.trans h1.1, fun j p' h => ?_⟩
  obtain ⟨q, hq, g2⟩ := h2.2 j p' h
  obtain ⟨p, hp, g1⟩ := h1.2 j q hq
  exact ⟨p, hp, g1.trans g2⟩

theorem Evolves.of_pools_eq {w w' : W} (h : w'.pools = w.pools) : Evolves w w' := by
  refine ⟨by rw [h], fun j p' hp => ⟨p', by rw [← h]; exact hp, Good.refl _⟩⟩

theorem Evolves.setPool (w : W) (i : Nat) (f : PoolSt → PoolSt) (hf : ∀ p, Good p (f p)) : Evolves w (setPool w i f) := by
  refine ⟨by simp [Pool.setPool], fun j p' h => ?_⟩
  rw [getElem?_setPool] at h
  split at h
  · cases hq : w.pools[j]? with
    | none => simp [hq] at h
    | some q => simp [hq] at h; exact ⟨q, rfl, h ▸ hf q⟩
  · exact ⟨p', h, Good.refl _⟩


theorem insBuf_fields (e : Nat) (head : Bool) (p : PoolSt) :
    (insBuf e head p).bufSize = p.bufSize ∧ (insBuf e head p).name = p.name ∧ (insBuf e head p).serial = p.serial ∧
    (insBuf e head p).procs = p.procs ∧ (insBuf e head p).subs = p.subs ∧
    (insBuf e head p).buffer =
      if head then e :: (if overflowed p then p.buffer.drop 1 else p.buffer)
      else (if overflowed p then p.buffer.drop 1 else p.buffer) ++ [e] := by
  unfold insBuf
  simp only [accept_g6]
  cases head <;> simp

theorem overflowed_iff (p : PoolSt) : overflowed p = true ↔ p.bufSize ≤ (p.buffer.length : Int) ∧ p.buffer ≠ [] := by
  simp [overflowed, accept_g4, accept_g5]

theorem good_insBuf (e : Nat) (head : Bool) (p : PoolSt) : Good p (insBuf e head p) := by
  obtain ⟨h1, h2, _, _, _, h6⟩ := insBuf_fields e head p
  refine ⟨h1, h2, ?_⟩
  intro hs hp
  unfold PoolOK at *
  rw [h1, h6]
  by_cases hov : overflowed p = true
  · have := (overflowed_iff p).mp hov
    have hl : 0 < p.buffer.length := List.length_pos_iff.mpr this.2
    simp only [hov, if_true]
    split <;> simp <;> omega
  · have hlt : (p.buffer.length : Int) < p.bufSize := by
      by_cases hb : p.buffer = []
      · simp [hb]; omega
      · have : ¬ p.bufSize ≤ (p.buffer.length : Int) := fun hh => hov ((overflowed_iff p).mpr ⟨hh, hb⟩)
        omega
    simp only [hov, if_false]
    split <;> simp <;> omega

theorem good_serial (p : PoolSt) (n : Int) : Good p { p with serial := n } := ⟨rfl, rfl, fun _ h => h⟩
theorem good_procs (p : PoolSt) (ls : List Lst) : Good p { p with procs := ls } := ⟨rfl, rfl, fun _ h => h⟩
theorem good_drop1 (p : PoolSt) : Good p { p with buffer := p.buffer.drop 1 } :=
  ⟨rfl, rfl, fun _ h => by unfold PoolOK at *; simp only [List.length_drop]; omega⟩

theorem evolves_insertEv (i e : Nat) (head : Bool) (w : W) : Evolves w (insertEv i e head w) := by
  unfold insertEv
  split
  · exact Evolves.refl w
  · refine Evolves.trans (b := _) ?_ (Evolves.setPool _ i _ (good_insBuf e head))
    split
    · split <;> first | exact Evolves.refl w | exact Evolves.of_pools_eq rfl
    · exact Evolves.refl w

theorem evolves_acceptEvent (i e : Nat) (head : Bool) (w : W) : Evolves w (acceptEvent i e head w) := by
  unfold acceptEvent
  split
  · have h1 : ∀ (ev : Ev), Evolves w (if ev.serial.isNone then
        { setEv w e (fun x => { x with serial := some (newSerial w.gserial) }) with gserial := newSerial w.gserial }
      else w) := by
      intro ev; split
      · exact Evolves.of_pools_eq rfl
      · exact Evolves.refl w
    rename_i pool ev _ _
    simp only []
    split
    · refine Evolves.trans (h1 ev) (Evolves.trans (b := _) ?_ (evolves_insertEv i e head _))
      exact Evolves.trans (Evolves.of_pools_eq rfl) (Evolves.setPool _ i _ (fun p => good_serial p _))
    · split
      · exact h1 ev
      · exact Evolves.trans (h1 ev) (evolves_insertEv i e head _)
  · exact Evolves.refl w

theorem evolves_foldl {α : Type} (f : W → α → W) (hf : ∀ w a, Evolves w (f w a)) :
    ∀ (l : List α) (w : W), Evolves w (l.foldl f w)
  | [], w => Evolves.refl w
  | a :: l, w => Evolves.trans (hf w a) (evolves_foldl f hf l (f w a))

theorem evolves_notify (c : Cls) (payload : Bytes) (w : W) : Evolves w (notify c payload w) := by
  unfold notify
  split
  · exact Evolves.refl w
  · exact Evolves.trans (Evolves.of_pools_eq (w := w) rfl)
      (evolves_foldl _ (fun w i => evolves_acceptEvent i _ false w) _ _)

theorem evolves_rejected (who : Option Nat) (e : Nat) (w : W) : Evolves w (rejected who e w) := by
  unfold rejected
  apply evolves_foldl
  intro w i
  split
  · split
    · exact evolves_acceptEvent i e true w
    · exact Evolves.refl w
  · exact Evolves.refl w

theorem evolves_absorb (pi li : Nat) (os : List Listener.Out) (w : W) : Evolves w (absorb pi li os w) := by
  unfold absorb
  apply evolves_foldl
  intro w o
  simp only []
  split
  · exact Evolves.trans (Evolves.of_pools_eq (w := w) rfl) (evolves_rejected _ _ _)
  · exact Evolves.of_pools_eq rfl

theorem evolves_onListener (pi li : Nat) (f : Listener.S → Listener.S) (w : W) : Evolves w (onListener pi li f w) := by
  unfold onListener
  split
  · exact Evolves.refl w
  · split
    · exact Evolves.refl w
    · split
      · exact Evolves.refl w
      · split
        · exact Evolves.refl w
        · rename_i l _
          exact Evolves.trans (Evolves.setPool w pi (fun p => { p with procs := p.procs.set li (f { p := l }).p })
              (fun p => ⟨rfl, rfl, fun _ h => h⟩))
            (Evolves.trans (evolves_absorb pi li _ _) (Evolves.of_pools_eq rfl))


theorem evolves_go (pi e : Nat) (env : Bytes) : ∀ (fuel li : Nat) (w : W), Evolves w (dispatchEvent.go pi e env fuel li w).1
  | 0, li, w => Evolves.refl w
  | fuel + 1, li, w => by
    unfold dispatchEvent.go
    split
    · exact Evolves.refl w
    · rename_i l _
      have hstep : Evolves w (absorb pi li (trySend e env { p := l }).1.outs
          (setPool w pi (fun p => { p with procs := p.procs.set li (trySend e env { p := l }).1.p }))) :=
        Evolves.trans (Evolves.setPool w pi (fun p => { p with procs := p.procs.set li (trySend e env { p := l }).1.p })
          (fun p => ⟨rfl, rfl, fun _ h => h⟩)) (evolves_absorb pi li _ _)
      simp only []
      split
      · exact Evolves.trans hstep (Evolves.of_pools_eq rfl)
      · split
        · exact hstep
        · exact Evolves.trans hstep (evolves_go pi e env fuel (li + 1) _)

theorem evolves_dispatchEvent (pi e : Nat) (w : W) : Evolves w (dispatchEvent pi e w).1 := by
  unfold dispatchEvent
  split
  · exact evolves_go pi e _ _ 0 w
  · exact Evolves.refl w

theorem evolves_dispatch (pi : Nat) : ∀ (fuel : Nat) (w : W), Evolves w (dispatch pi fuel w)
  | 0, w => Evolves.refl w
  | fuel + 1, w => by
    unfold dispatch
    split
    · exact Evolves.refl w
    · split
      · exact Evolves.refl w
      · rename_i e _ _
        have h1 : Evolves w (setPool w pi (fun p => { p with buffer := p.buffer.drop 1 })) :=
          Evolves.setPool w pi _ good_drop1
        have h2 := Evolves.trans h1 (evolves_dispatchEvent pi e _)
        simp only []
        split
        · exact h2
        · split
          · exact Evolves.trans h2 (evolves_dispatch pi fuel _)
          · exact Evolves.trans h2 (evolves_acceptEvent pi e true _)

theorem evolves_transition (pi : Nat) (w : W) : Evolves w (transition pi w) := by
  unfold transition
  split
  · exact Evolves.refl w
  · split
    · exact Evolves.refl w
    · simp only []
      split
      · exact evolves_dispatch pi _ w
      · exact Evolves.refl w

theorem evolves_dieOp (h : Bytes → HRes) (pi li : Nat) (data payload : Bytes) (w : W) :
    Evolves w (dieOp h pi li data payload w) := by
  unfold dieOp
  split
  · exact Evolves.refl w
  · split
    · exact Evolves.refl w
    · simp only []
      split
      · exact evolves_onListener pi li _ w
      · exact Evolves.trans (evolves_onListener pi li _ w)
          (Evolves.trans (evolves_notify _ payload _) (evolves_onListener pi li _ _))

theorem evolves_spawnOp (pi li : Nat) (pid : Int) (payload : Bytes) (w : W) : Evolves w (spawnOp pi li pid payload w) := by
  unfold spawnOp
  split
  · exact Evolves.refl w
  · split
    · exact Evolves.refl w
    · split
      · exact Evolves.refl w
      · exact Evolves.trans (evolves_notify _ payload w) (evolves_onListener pi li _ _)


theorem good_flags (p : PoolSt) (a u : Bool) : Good p { p with active := a, used := u } := ⟨rfl, rfl, fun _ h => h⟩
theorem good_active (p : PoolSt) (a : Bool) : Good p { p with active := a } := ⟨rfl, rfl, fun _ h => h⟩

theorem evolves_gstep (pi : Nat) (s : W × Option Bool) (st : GStep) : Evolves s.1 (gstep pi s st).1 := by
  unfold gstep
  split
  · exact Evolves.refl _
  · split
    · exact Evolves.refl _
    · split
      · split
        · exact Evolves.of_pools_eq rfl
        · exact Evolves.refl _
      · exact Evolves.refl _
    · split
      · exact Evolves.trans (Evolves.setPool _ pi _ (fun p => good_flags p true true)) (Evolves.of_pools_eq rfl)
      · exact Evolves.refl _
    · exact Evolves.setPool _ pi _ (fun p => good_active p false)
    · split
      · exact evolves_notify _ _ _
      · exact Evolves.refl _
    · split
      · split
        · exact Evolves.refl _
        · exact Evolves.refl _
      · exact Evolves.refl _

theorem evolves_runGroup (pi : Nat) : ∀ (steps : List GStep) (s : W × Option Bool),
    Evolves s.1 (steps.foldl (gstep pi) s).1
  | [], s => Evolves.refl _
  | st :: r, s => Evolves.trans (evolves_gstep pi s st) (evolves_runGroup pi r _)

theorem evolves_removeOp (pi : Nat) (w : W) : Evolves w (removeOp pi w) := by
  unfold removeOp removeRun runGroup
  split
  · exact Evolves.refl w
  · split
    · exact Evolves.refl w
    · exact evolves_runGroup pi _ (w, none)

theorem evolves_addOp (pi : Nat) (w : W) : Evolves w (addOp pi w) := by
  unfold addOp addRun runGroup
  split
  · exact Evolves.refl w
  · split
    · exact Evolves.refl w
    · exact evolves_runGroup pi _ (w, none)

theorem evolves_applyOp (h : Bytes → HRes) (w : W) (op : Op) : Evolves w (applyOp h w op) := by
  cases op <;> simp only [applyOp]
  · exact evolves_notify _ _ w
  · exact evolves_transition _ w
  all_goals first
    | exact evolves_onListener _ _ _ w
    | exact evolves_dieOp h _ _ _ _ w
    | exact evolves_spawnOp _ _ _ _ w
    | exact evolves_removeOp _ w
    | exact evolves_addOp _ w

theorem evolves_step (h : Bytes → HRes) (w : W) (op : Op) : Evolves w (step h w op) := by
  unfold step
  split
  · exact Evolves.of_pools_eq rfl
  · exact Evolves.trans (Evolves.of_pools_eq (w := w) rfl) (evolves_applyOp h _ op)

theorem evolves_exec (h : Bytes → HRes) (w : W) (ops : List Op) : Evolves w (exec h w ops) :=
  evolves_foldl _ (evolves_step h) ops w

/-! ### pools other than `i` -/

theorem acceptEvent_other (i e : Nat) (head : Bool) (w : W) (j : Nat) (hj : j ≠ i) :
    (acceptEvent i e head w).pools[j]? = w.pools[j]? := by
  have hins : ∀ w' : W, (insertEv i e head w').pools[j]? = w'.pools[j]? := by
    intro w'
    unfold insertEv
    split
    · rfl
    · rw [getElem?_setPool, if_neg (Ne.symm hj)]
      split
      · split <;> rfl
      · rfl
  unfold acceptEvent
  split
  · simp only []
    split
    · rw [hins, getElem?_setPool, if_neg (Ne.symm hj)]
      simp only [setEv_pools]
      split <;> rfl
    · split
      · split <;> rfl
      · rw [hins]; split <;> rfl
  · rfl

/-- a pool that does not own the rejecting process object is left exactly as it was -/
theorem rejected_other (who : Option Nat) (e : Nat) (w : W) (j : Nat)
    (hj : ∀ p, w.pools[j]? = some p → owns p who = false) :
    (rejected who e w).pools[j]? = w.pools[j]? := by
  unfold rejected
  generalize rejecters w.reg = l
  induction l generalizing w with
  | nil => rfl
  | cons i l ih =>
    simp only [List.foldl_cons]
    have hstep : (match w.pools[i]? with
        | some p => if owns p who then acceptEvent i e true w else w
        | none => w).pools[j]? = w.pools[j]? := by
      split
      · rename_i p hp
        split
        · rename_i ho
          by_cases hij : j = i
          · subst hij; rw [hj p hp] at ho; cases ho
          · exact acceptEvent_other i e true w j hij
        · rfl
      · rfl
    exact (ih _ (fun p hp => hj p (hstep.symm.trans hp))).trans hstep

/-! ### the event table only grows; offering an event twice -/

theorem getElem?_setEv (w : W) (e k : Nat) (f : Ev → Ev) :
    (setEv w e f).events[k]? = if e = k then (w.events[k]?).map f else w.events[k]? := by
  simp only [setEv, List.getElem?_modify]
  split <;> simp [*]

@[simp] theorem setPool_events (w : W) (i : Nat) (f : PoolSt → PoolSt) : (setPool w i f).events = w.events := rfl

/-- an event record only gains attributes: a serial once, pool serials appended -/
def EvLe (a b : Ev) : Prop :=
  (a.serial.isSome = true → b.serial = a.serial) ∧ (∃ t, b.poolSerials = a.poolSerials ++ t) ∧ b.cls = a.cls ∧ b.payload = a.payload

theorem EvLe.refl (a : Ev) : EvLe a a := ⟨fun _ => rfl, ⟨[], by simp⟩, rfl, rfl⟩
theorem EvLe.trans {a b c : Ev} (h1 : EvLe a b) (h2 : EvLe b c) : EvLe a c := by
  obtain ⟨s1, ⟨t1, p1⟩, c1, y1⟩ := h1
  obtain ⟨s2, ⟨t2, p2⟩, c2, y2⟩ := h2
  refine ⟨fun ha => ?_, ⟨t1 ++ t2, by rw [p2, p1, List.append_assoc]⟩, c2.trans c1, y2.trans y1⟩
  have hb := s1 ha
  rw [s2 (by rw [hb]; exact ha), hb]

/-- every event record of `w` is still there in `w'`, possibly with more attributes -/
def EvsLe (w w' : W) : Prop :=
  w'.events.length = w.events.length ∧ ∀ (k : Nat) (ev : Ev), w.events[k]? = some ev → ∃ ev', w'.events[k]? = some ev' ∧ EvLe ev ev'

theorem EvsLe.refl (w : W) : EvsLe w w := ⟨rfl, fun k ev h => ⟨ev, h, EvLe.refl ev⟩⟩
theorem EvsLe.trans {a b c : W} (h1 : EvsLe a b) (h2 : EvsLe b c) : EvsLe a c := by
  refine ⟨h2.1.trans h1.1, fun k ev h => ?_⟩
  obtain ⟨e1, he1, l1⟩ := h1.2 k ev h
  obtain ⟨e2, he2, l2⟩ := h2.2 k e1 he1
  exact ⟨e2, he2, l1.trans l2⟩
theorem EvsLe.of_events_eq {w w' : W} (h : w'.events = w.events) : EvsLe w w' :=
  ⟨by rw [h], fun k ev hk => ⟨ev, by rw [h]; exact hk, EvLe.refl ev⟩⟩
theorem EvsLe.setEv (w : W) (e : Nat) (f : Ev → Ev) (hf : ∀ ev, EvLe ev (f ev)) : EvsLe w (setEv w e f) := by
  refine ⟨by simp [Pool.setEv], fun k ev hk => ?_⟩
  rw [getElem?_setEv]
  split
  · exact ⟨f ev, by simp [hk], hf ev⟩
  · exact ⟨ev, hk, EvLe.refl ev⟩

theorem evsLe_insertEv (i e : Nat) (head : Bool) (w : W) : EvsLe w (insertEv i e head w) := by
  unfold insertEv
  split
  · exact EvsLe.refl w
  · apply EvsLe.of_events_eq
    simp only [setPool_events]
    split
    · split <;> rfl
    · rfl

theorem evsLe_acceptEvent (i e : Nat) (head : Bool) (w : W) : EvsLe w (acceptEvent i e head w) := by
  unfold acceptEvent
  split
  · rename_i pool ev _ _
    have h1 : EvsLe w (if ev.serial.isNone then
        { setEv w e (fun x => { x with serial := some (newSerial w.gserial) }) with gserial := newSerial w.gserial }
      else w) := by
      split
      · rename_i hn
        refine ⟨by simp [setEv], fun k ev0 hk => ?_⟩
        show ∃ ev', (setEv w e _).events[k]? = some ev' ∧ _
        rw [getElem?_setEv]
        split
        · rename_i hek
          subst hek
          rename_i he
          rw [he] at hk; cases hk
          refine ⟨{ ev with serial := some (newSerial w.gserial) }, by simp [he], ⟨fun hs => ?_, ⟨[], by simp⟩, rfl, rfl⟩⟩
          simp [Option.isNone_iff_eq_none.mp hn] at hs
        · exact ⟨ev0, hk, EvLe.refl _⟩
      · exact EvsLe.refl w
    simp only []
    split
    · refine EvsLe.trans h1 (EvsLe.trans (b := _) ?_ (evsLe_insertEv i e head _))
      exact EvsLe.trans (EvsLe.setEv _ e (fun x => { x with poolSerials := x.poolSerials ++ [(pool.name, newSerial pool.serial)] })
        (fun x => ⟨fun _ => rfl, ⟨_, rfl⟩, rfl, rfl⟩)) (EvsLe.of_events_eq (setPool_events _ i _))
    · split
      · exact h1
      · exact EvsLe.trans h1 (evsLe_insertEv i e head _)
  · exact EvsLe.refl w


theorem insertEv_events (i e : Nat) (head : Bool) (w : W) : (insertEv i e head w).events = w.events := by
  unfold insertEv
  split
  · rfl
  · simp only [setPool_events]
    split
    · split <;> rfl
    · rfl

theorem Evolves.forward {w w' : W} (h : Evolves w w') (j : Nat) (p : PoolSt) (hp : w.pools[j]? = some p) :
    ∃ p', w'.pools[j]? = some p' ∧ Good p p' := by
  have hj : j < w.pools.length := (List.getElem?_eq_some_iff.mp hp).1
  have hj' : j < w'.pools.length := by rw [h.1]; exact hj
  obtain ⟨q, hq, g⟩ := h.2 j _ (List.getElem?_eq_getElem hj')
  rw [hp] at hq; cases hq
  exact ⟨_, List.getElem?_eq_getElem hj', g⟩

/-- pool `i` has accepted event `e`: the event carries a serial and pool `i`'s poolserial -/
def Acc (w : W) (i e : Nat) : Prop :=
  ∃ p ev, w.pools[i]? = some p ∧ w.events[e]? = some ev ∧ (ev.poolSerials.lookup p.name).isSome = true ∧
    ev.serial.isSome = true

/-- from now on `_acceptEvent(e)` (not at the head) is the identity for pool `i` -/
def Skip (w : W) (i e : Nat) : Prop := Acc w i e ∨ w.pools[i]? = none ∨ w.events[e]? = none

theorem lookup_append_isSome (l t : List (String × Int)) (k : String) (h : (l.lookup k).isSome = true) :
    ((l ++ t).lookup k).isSome = true := by
  induction l with
  | nil => simp at h
  | cons a l ih =>
    obtain ⟨k', v⟩ := a
    simp only [List.cons_append, List.lookup_cons] at h ⊢
    split
    · simp
    · rename_i hne; simp only [hne] at h; exact ih h

theorem lookup_snoc_isSome (l : List (String × Int)) (k : String) (v : Int) :
    ((l ++ [(k, v)]).lookup k).isSome = true := by
  induction l with
  | nil => simp [List.lookup]
  | cons a l ih =>
    obtain ⟨k', v'⟩ := a
    simp only [List.cons_append, List.lookup_cons]
    split <;> simp_all

theorem acceptEvent_skip_id (i e : Nat) (w : W) (h : Skip w i e) : acceptEvent i e false w = w := by
  rcases h with ⟨p, ev, hp, hev, hl, hs⟩ | hn | hn
  · unfold acceptEvent
    simp only [hp, hev]
    have : ev.serial.isNone = false := by cases hsv : ev.serial <;> simp_all
    simp [this, accept_g2, accept_g3, hl]
  · unfold acceptEvent; simp [hn]
  · unfold acceptEvent; rw [hn]; cases w.pools[i]? <;> rfl

theorem acc_preserved (i e j e' : Nat) (hd : Bool) (w : W) (h : Acc w i e) : Acc (acceptEvent j e' hd w) i e := by
  obtain ⟨p, ev, hp, hev, hl, hs⟩ := h
  obtain ⟨p', hp', g⟩ := (evolves_acceptEvent j e' hd w).forward i p hp
  obtain ⟨ev', hev', ⟨hser, ⟨t, hps⟩, _, _⟩⟩ := (evsLe_acceptEvent j e' hd w).2 e ev hev
  refine ⟨p', ev', hp', hev', ?_, ?_⟩
  · rw [g.2.1, hps]; exact lookup_append_isSome _ _ _ hl
  · rw [hser hs]; exact hs

theorem skip_preserved (i e j e' : Nat) (hd : Bool) (w : W) (h : Skip w i e) : Skip (acceptEvent j e' hd w) i e := by
  rcases h with h | hn | hn
  · exact Or.inl (acc_preserved i e j e' hd w h)
  · refine Or.inr (Or.inl ?_)
    have hlen := (evolves_acceptEvent j e' hd w).1
    rw [List.getElem?_eq_none_iff] at hn ⊢; omega
  · refine Or.inr (Or.inr ?_)
    have hlen := (evsLe_acceptEvent j e' hd w).1
    rw [List.getElem?_eq_none_iff] at hn ⊢; omega

theorem skip_after (i e : Nat) (head : Bool) (w : W) : Skip (acceptEvent i e head w) i e := by
  rcases hpo : w.pools[i]? with _ | p
  · exact skip_preserved i e i e head w (Or.inr (Or.inl hpo))
  rcases heo : w.events[e]? with _ | ev
  · exact skip_preserved i e i e head w (Or.inr (Or.inr heo))
  left
  obtain ⟨p', hp', g⟩ := (evolves_acceptEvent i e head w).forward i p hpo
  -- the event record after the call
  suffices hsuf : ∃ ev', (acceptEvent i e head w).events[e]? = some ev' ∧ ev'.serial.isSome = true ∧
      (ev'.poolSerials.lookup p.name).isSome = true by
    obtain ⟨ev', h1, h2, h3⟩ := hsuf
    exact ⟨p', ev', hp', h1, by rw [g.2.1]; exact h3, h2⟩
  unfold acceptEvent
  simp only [hpo, heo]
  -- after the serial step
  have h1 : ∃ ev1, (if ev.serial.isNone then
        { setEv w e (fun x => { x with serial := some (evSerial w p) }) with gserial := evSerial w p }
      else w).events[e]? = some ev1 ∧ ev1.serial.isSome = true ∧ ev1.poolSerials = ev.poolSerials := by
    split
    · refine ⟨{ ev with serial := some (evSerial w p) }, ?_, rfl, rfl⟩
      show (setEv w e _).events[e]? = _
      rw [getElem?_setEv]; simp [heo]
    · rename_i hn
      exact ⟨ev, heo, by cases hsv : ev.serial <;> simp_all, rfl⟩
  obtain ⟨ev1, he1, hs1, hp1⟩ := h1
  split
  · rw [insertEv_events, setPool_events, getElem?_setEv]
    simp only [if_true, he1, Option.map_some]
    exact ⟨_, rfl, hs1, lookup_snoc_isSome _ _ _⟩
  · rename_i hg2
    have hin : (ev.poolSerials.lookup p.name).isSome = true := by simpa [accept_g2] using hg2
    split
    · exact ⟨ev1, he1, hs1, by rw [hp1]; exact hin⟩
    · rw [insertEv_events]; exact ⟨ev1, he1, hs1, by rw [hp1]; exact hin⟩


/-- offering event `e` to the pools in `l`, in order (`notify`'s loop over the matching callbacks) -/
def offer (e : Nat) (l : List Nat) (w : W) : W := l.foldl (fun acc i => acceptEvent i e false acc) w

theorem offer_skip (e i : Nat) : ∀ (l : List Nat) (w : W), Skip w i e → offer e l w = offer e (l.filter (· ≠ i)) w
  | [], w, _ => rfl
  | j :: l, w, h => by
    by_cases hj : j = i
    · subst hj
      have : (j :: l).filter (· ≠ j) = l.filter (· ≠ j) := by simp
      rw [this]
      show offer e l (acceptEvent j e false w) = _
      rw [acceptEvent_skip_id j e w h]
      exact offer_skip e j l w h
    · have : (j :: l).filter (· ≠ i) = j :: l.filter (· ≠ i) := by simp [hj]
      rw [this]
      show offer e l (acceptEvent j e false w) = offer e (l.filter (· ≠ i)) (acceptEvent j e false w)
      exact offer_skip e i l _ (skip_preserved i e j e false w h)

/-- the list with every later repetition removed (`n` bounds the length) -/
def keepFirstN : Nat → List Nat → List Nat
  | 0, _ => []
  | _ + 1, [] => []
  | n + 1, a :: l => a :: keepFirstN n (l.filter (· ≠ a))
def keepFirst (l : List Nat) : List Nat := keepFirstN l.length l

theorem offer_keepFirstN (e : Nat) : ∀ (n : Nat) (l : List Nat) (w : W), l.length ≤ n → offer e l w = offer e (keepFirstN n l) w
  | 0, [], w, _ => rfl
  | _ + 1, [], w, _ => rfl
  | 0, a :: l, w, h => by simp at h
  | n + 1, a :: l, w, h => by
    rw [keepFirstN]
    show offer e l (acceptEvent a e false w) = offer e (keepFirstN n (l.filter (· ≠ a))) (acceptEvent a e false w)
    rw [offer_skip e a l _ (skip_after a e false w)]
    exact offer_keepFirstN e n _ _ (Nat.le_trans (List.length_filter_le _ _) (by simpa using h))

theorem mem_keepFirstN (a : Nat) : ∀ (n : Nat) (l : List Nat), l.length ≤ n → (a ∈ keepFirstN n l ↔ a ∈ l)
  | 0, [], _ => by simp [keepFirstN]
  | _ + 1, [], _ => by simp [keepFirstN]
  | 0, b :: l, h => by simp at h
  | n + 1, b :: l, h => by
    rw [keepFirstN]
    have ih := mem_keepFirstN a n (l.filter (· ≠ b)) (Nat.le_trans (List.length_filter_le _ _) (by simpa using h))
    simp only [List.mem_cons, ih, List.mem_filter]
    by_cases hab : a = b <;> simp [hab]

theorem nodup_keepFirstN : ∀ (n : Nat) (l : List Nat), l.length ≤ n → (keepFirstN n l).Nodup
  | 0, [], _ => by simp [keepFirstN]
  | _ + 1, [], _ => by simp [keepFirstN]
  | 0, b :: l, h => by simp at h
  | n + 1, b :: l, h => by
    rw [keepFirstN]
    have hl : (l.filter (· ≠ b)).length ≤ n := Nat.le_trans (List.length_filter_le _ _) (by simpa using h)
    refine List.nodup_cons.mpr ⟨?_, nodup_keepFirstN n _ hl⟩
    rw [mem_keepFirstN b n _ hl]
    simp

theorem notify_eq_offer (c : Cls) (payload : Bytes) (w : W) (he : w.err = none) :
    notify c payload w = offer w.events.length (acceptors w.reg c)
      { w with events := w.events ++ [{ cls := c, payload := payload }] } := by
  simp [notify, he, offer]


/-! ### the overflow rule and re-buffering -/

/-- the error-log entries `_acceptEvent` writes for pool `i` in state `p` -/
def discardOuts (w : W) (i : Nat) (p : PoolSt) : List POut :=
  if overflowed p then
    match p.buffer with
    | d :: _ => [.discard i d (((w.events[d]?).bind (·.serial)).getD (-1))]
    | [] => []
  else []

theorem insertEv_spec (i e : Nat) (head : Bool) (w : W) (p : PoolSt) (hp : w.pools[i]? = some p) :
    (insertEv i e head w).pools[i]? = some (insBuf e head p) ∧
    (insertEv i e head w).outs = w.outs ++ discardOuts w i p ∧
    (insertEv i e head w).events = w.events ∧ (insertEv i e head w).err = w.err ∧
    (insertEv i e head w).gserial = w.gserial := by
  unfold insertEv discardOuts
  simp only [hp]
  refine ⟨?_, ?_, ?_, ?_, ?_⟩
  · rw [getElem?_setPool]; simp only [if_true]
    split
    · split <;> simp [hp]
    · simp [hp]
  · split
    · split <;> simp_all [setPool]
    · simp [setPool]
  · split
    · split <;> rfl
    · rfl
  · split
    · split <;> rfl
    · rfl
  · split
    · split <;> rfl
    · rfl

theorem rebuffer_eq_insertEv (i e : Nat) (w : W) (h : Acc w i e) : acceptEvent i e true w = insertEv i e true w := by
  obtain ⟨p, ev, hp, hev, hl, hs⟩ := h
  unfold acceptEvent
  simp only [hp, hev]
  have : ev.serial.isNone = false := by cases hsv : ev.serial <;> simp_all
  simp [this, accept_g2, accept_g3, hl]

theorem foldl_range_single (n pi : Nat) (f : Nat → W → W) (w : W) (hpi : pi < n) :
    (List.range n).foldl (fun acc i => if i == pi then f i acc else acc) w = f pi w := by
  induction n generalizing w with
  | zero => omega
  | succ n ih =>
    rw [List.range_succ, List.foldl_append]
    simp only [List.foldl_cons, List.foldl_nil]
    by_cases hn : pi = n
    · subst hn
      have : ∀ (l : List Nat) (w : W), (∀ i ∈ l, i ≠ pi) → l.foldl (fun acc i => if i == pi then f i acc else acc) w = w := by
        intro l
        induction l with
        | nil => intro w _; rfl
        | cons a l ihl =>
          intro w ha
          simp only [List.foldl_cons]
          have hne : (a == pi) = false := by simpa using ha a (by simp)
          rw [hne]; exact ihl w (fun i hi => ha i (by simp [hi]))
      rw [this _ w (by intro i hi; have := List.mem_range.mp hi; omega)]
      simp
    · have hne : (n == pi) = false := by simpa using (fun hh => hn hh.symm)
      rw [ih w (by omega), hne]; rfl

theorem rejected_skip (who : Option Nat) (e : Nat) : ∀ (l : List Nat) (w : W),
    (∀ i ∈ l, ∀ q, w.pools[i]? = some q → owns q who = false) →
    l.foldl (fun acc i => match acc.pools[i]? with
      | some p => if owns p who then acceptEvent i e true acc else acc
      | none => acc) w = w
  | [], w, _ => rfl
  | i :: l, w, h => by
    simp only [List.foldl_cons]
    have : (match w.pools[i]? with
        | some p => if owns p who then acceptEvent i e true w else w
        | none => w) = w := by
      split
      · rename_i p hp; rw [h i (by simp) p hp]; rfl
      · rfl
    rw [this]
    exact rejected_skip who e l w (fun k hk => h k (by simp [hk]))

theorem rejected_single (who : Option Nat) (e pi : Nat) (p : PoolSt) : ∀ (l : List Nat) (w : W), l.Nodup → pi ∈ l →
    w.pools[pi]? = some p → owns p who = true →
    (∀ i ∈ l, i ≠ pi → ∀ q, w.pools[i]? = some q → owns q who = false) →
    l.foldl (fun acc i => match acc.pools[i]? with
      | some p => if owns p who then acceptEvent i e true acc else acc
      | none => acc) w = acceptEvent pi e true w
  | [], w, _, hm, _, _, _ => by simp at hm
  | i :: l, w, hnd, hm, hp, ho, hothers => by
    simp only [List.foldl_cons]
    have hnd' := List.nodup_cons.mp hnd
    by_cases hi : i = pi
    · subst hi
      simp only [hp, ho, if_true]
      apply rejected_skip
      intro k hk q hq
      have hne : k ≠ i := fun hh => hnd'.1 (hh ▸ hk)
      rw [acceptEvent_other i e true w k hne] at hq
      exact hothers k (by simp [hk]) hne q hq
    · have : (match w.pools[i]? with
          | some p => if owns p who then acceptEvent i e true w else w
          | none => w) = w := by
        split
        · rename_i q hq; rw [hothers i (by simp) hi q hq]; rfl
        · rfl
      rw [this]
      have hm' : pi ∈ l := by
        rcases List.mem_cons.mp hm with h | h
        · exact absurd h.symm hi
        · exact h
      exact rejected_single who e pi p l w hnd'.2 hm' hp ho (fun k hk => hothers k (by simp [hk]))

/-- when exactly pool `pi` owns the rejecting process, the whole `EventRejectedEvent` notification is pool `pi`'s
    `_acceptEvent(event, head=True)` -/
theorem rejected_eq (who : Option Nat) (pi e : Nat) (w : W) (p : PoolSt) (hp : w.pools[pi]? = some p)
    (hnd : (rejecters w.reg).Nodup) (hsub : pi ∈ rejecters w.reg)
    (ho : owns p who = true) (hothers : ∀ i, i ≠ pi → ∀ q, w.pools[i]? = some q → owns q who = false) :
    rejected who e w = acceptEvent pi e true w := by
  unfold rejected
  exact rejected_single who e pi p _ w hnd hsub hp ho (fun i _ hne => hothers i hne)

/-- a pool whose `handle_rejected` is not subscribed (it was removed: `before_remove()`) does not get the event back --
    and nobody else does -/
theorem rejected_unsubscribed (who : Option Nat) (e : Nat) (w : W)
    (h : ∀ i ∈ rejecters w.reg, ∀ q, w.pools[i]? = some q → owns q who = false) : rejected who e w = w := by
  unfold rejected
  exact rejected_skip who e _ w h

/-! ### dispatch order -/

/-- the events pool `pi` handed to listeners, in trace order -/
def sentBy (pi : Nat) : List POut → List Nat
  | [] => []
  | .lis p _ (.sent e) :: r => if p = pi then e :: sentBy pi r else sentBy pi r
  | _ :: r => sentBy pi r

theorem sentBy_append (pi : Nat) (a b : List POut) : sentBy pi (a ++ b) = sentBy pi a ++ sentBy pi b := by
  induction a with
  | nil => rfl
  | cons o a ih =>
    cases o with
    | discard _ _ _ => simpa [sentBy] using ih
    | lis p l o =>
      cases o <;> simp [sentBy, ih]
      split <;> simp

theorem sentBy_lis (pi li : Nat) (os : List Listener.Out) :
    sentBy pi (os.map (POut.lis pi li)) = (os.filter isSent).filterMap (fun o => match o with | .sent e => some e | _ => none) := by
  induction os with
  | nil => rfl
  | cons o os ih => cases o <;> simp [sentBy, isSent, ih, List.filter_cons, List.filterMap_cons]

theorem absorb_plain (pi li : Nat) : ∀ (os : List Listener.Out) (w : W), (∀ o ∈ os, clears o = false) →
    absorb pi li os w = { w with outs := w.outs ++ os.map (POut.lis pi li) }
  | [], w, _ => by simp [absorb]
  | o :: os, w, h => by
    have ho : clears o = false := h o (by simp)
    have ih := absorb_plain pi li os { w with outs := w.outs ++ [POut.lis pi li o] } (fun x hx => h x (by simp [hx]))
    have hstep : absorb pi li (o :: os) w = absorb pi li os { w with outs := w.outs ++ [POut.lis pi li o] } := by
      cases o <;> first | rfl | (simp [clears] at ho)
    rw [hstep, ih]
    simp [List.append_assoc]

/-- only listeners changed -/
def ProcsOnly (w w' : W) : Prop :=
  w'.events = w.events ∧ w'.pools.length = w.pools.length ∧
  ∀ (j : Nat) (p : PoolSt), w.pools[j]? = some p →
    ∃ p', w'.pools[j]? = some p' ∧ p'.buffer = p.buffer ∧ p'.bufSize = p.bufSize ∧ p'.name = p.name ∧ p'.serial = p.serial

theorem ProcsOnly.refl (w : W) : ProcsOnly w w := ⟨rfl, rfl, fun j p h => ⟨p, h, rfl, rfl, rfl, rfl⟩⟩
theorem ProcsOnly.trans {a b c : W} (h1 : ProcsOnly a b) (h2 : ProcsOnly b c) : ProcsOnly a c := by
  refine ⟨h2.1.trans h1.1, h2.2.1.trans h1.2.1, fun j p hp => ?_⟩
  obtain ⟨q, hq, q1, q2, q3, q4⟩ := h1.2.2 j p hp
  obtain ⟨r, hr, r1, r2, r3, r4⟩ := h2.2.2 j q hq
  exact ⟨r, hr, r1.trans q1, r2.trans q2, r3.trans q3, r4.trans q4⟩

theorem procsOnly_setProcs (w : W) (pi : Nat) (f : PoolSt → List Lst) :
    ProcsOnly w (setPool w pi (fun p => { p with procs := f p })) := by
  refine ⟨rfl, by simp [setPool], fun j p hp => ?_⟩
  rw [getElem?_setPool]
  split
  · exact ⟨{ p with procs := f p }, by simp [hp], rfl, rfl, rfl, rfl⟩
  · exact ⟨p, hp, rfl, rfl, rfl, rfl⟩

def NoDiscard (l : List POut) : Prop := ∀ o ∈ l, ∀ q d s, o ≠ POut.discard q d s

/-- what `_dispatchEvent` may do: only listeners change, no exception, at most the one hand-over of `e` -/
def GoPost (pi e : Nat) (w : W) (r : W × Bool) : Prop :=
  ProcsOnly w r.1 ∧ r.1.err = none ∧
  ∃ l, r.1.outs = w.outs ++ l ∧ sentBy pi l = (if r.2 then [e] else []) ∧ NoDiscard l

theorem goPost_compose (pi e : Nat) (w X : W) (r : W × Bool) (m : List POut) (h1 : ProcsOnly w X)
    (h2 : X.outs = w.outs ++ m) (h3 : sentBy pi m = []) (h4 : NoDiscard m) (h5 : GoPost pi e X r) : GoPost pi e w r := by
  obtain ⟨g1, g2, l2, g3, g4, g5⟩ := h5
  refine ⟨h1.trans g1, g2, m ++ l2, by rw [g3, h2, List.append_assoc], by rw [sentBy_append, h3, g4]; simp, ?_⟩
  intro o ho; rcases List.mem_append.mp ho with ho | ho
  · exact h4 o ho
  · exact g5 o ho

theorem go_spec (pi e : Nat) (env : Bytes) : ∀ (fuel li : Nat) (w : W), w.err = none →
    GoPost pi e w (dispatchEvent.go pi e env fuel li w)
  | 0, li, w, he => ⟨ProcsOnly.refl w, he, [], by simp [dispatchEvent.go], by simp [dispatchEvent.go, sentBy], by intro o ho; simp at ho⟩
  | fuel + 1, li, w, he => by
    unfold dispatchEvent.go
    split
    · exact ⟨ProcsOnly.refl w, he, [], by simp, by simp [sentBy], by intro o ho; simp at ho⟩
    · rename_i l _
      obtain ⟨herr, tl, houts, hcl, hsent⟩ := trySend_trace e env { p := l } rfl
      simp only [List.nil_append] at houts
      have hab := absorb_plain pi li (trySend e env { p := l }).1.outs
        (setPool w pi (fun p => { p with procs := p.procs.set li (trySend e env { p := l }).1.p })) (by rw [houts]; exact hcl)
      simp only [hab, herr, Option.isSome_none, Bool.false_eq_true, if_false]
      have hsb : sentBy pi ((trySend e env { p := l }).1.outs.map (POut.lis pi li)) =
          if (trySend e env { p := l }).2 = .sent then [e] else [] := by
        rw [sentBy_lis, houts, hsent]; split <;> simp
      have hnd : NoDiscard ((trySend e env { p := l }).1.outs.map (POut.lis pi li)) := by
        intro o ho q d s; simp at ho; obtain ⟨x, _, rfl⟩ := ho; simp
      have hpo := procsOnly_setProcs w pi (fun p => p.procs.set li (trySend e env { p := l }).1.p)
      cases hr : (trySend e env { p := l }).2 with
      | sent =>
        simp only []
        exact ⟨⟨hpo.1, hpo.2.1, hpo.2.2⟩, he, _, rfl, by rw [hsb, hr]; simp, hnd⟩
      | skipped =>
        simp only []
        refine goPost_compose pi e w _ _ _ ?_ rfl ?_ hnd (go_spec pi e env fuel (li + 1) _ ?_)
        · exact ⟨hpo.1, hpo.2.1, hpo.2.2⟩
        · rw [hsb, hr]; simp
        · exact he
      | epipe =>
        simp only []
        refine goPost_compose pi e w _ _ _ ?_ rfl ?_ hnd (go_spec pi e env fuel (li + 1) _ ?_)
        · exact ⟨hpo.1, hpo.2.1, hpo.2.2⟩
        · rw [hsb, hr]; simp
        · exact he


theorem dispatchEvent_spec (pi e : Nat) (w : W) (he : w.err = none) : GoPost pi e w (dispatchEvent pi e w) := by
  unfold dispatchEvent
  split
  · exact go_spec pi e _ _ 0 w he
  · exact ⟨ProcsOnly.refl w, he, [], by simp, by simp [sentBy], by intro o ho; simp at ho⟩

theorem overflowed_congr (p q : PoolSt) (h1 : q.buffer = p.buffer) (h2 : q.bufSize = p.bufSize) :
    overflowed q = overflowed p := by
  simp [overflowed, h1, h2]

/-- re-buffering when there is room: the event goes to the head, nothing is dropped, nothing is logged -/
theorem acceptEvent_head_spec (pi e : Nat) (w : W) (q : PoolSt) (ev : Ev) (hq : w.pools[pi]? = some q)
    (hev : w.events[e]? = some ev) (hno : overflowed q = false) :
    ∃ q', (acceptEvent pi e true w).pools[pi]? = some q' ∧ q'.buffer = e :: q.buffer ∧ q'.bufSize = q.bufSize ∧
      (acceptEvent pi e true w).outs = w.outs := by
  have key : ∀ (w' : W) (q0 : PoolSt), w'.pools[pi]? = some q0 → q0.buffer = q.buffer → q0.bufSize = q.bufSize →
      ∃ q', (insertEv pi e true w').pools[pi]? = some q' ∧ q'.buffer = e :: q.buffer ∧ q'.bufSize = q.bufSize ∧
        (insertEv pi e true w').outs = w'.outs := by
    intro w' q0 h0 hb hs
    obtain ⟨h1, h2, _⟩ := insertEv_spec pi e true w' q0 h0
    have hov : overflowed q0 = false := by rw [overflowed_congr q q0 hb hs]; exact hno
    obtain ⟨f1, _, _, _, _, f6⟩ := insBuf_fields e true q0
    refine ⟨_, h1, by rw [f6]; simp [hov, hb], by rw [f1, hs], ?_⟩
    rw [h2]; simp [discardOuts, hov]
  unfold acceptEvent
  simp only [hq, hev]
  split
  · -- a pool serial is assigned first
    have key2 : ∀ (w1 : W), w1.pools[pi]? = some q → w1.outs = w.outs →
        ∃ q', (insertEv pi e true (setPool (setEv w1 e
            (fun x => { x with poolSerials := x.poolSerials ++ [(q.name, poolSerial w1 q)] })) pi
            (fun p => { p with serial := poolSerial w1 p }))).pools[pi]? = some q' ∧ q'.buffer = e :: q.buffer ∧
          q'.bufSize = q.bufSize ∧
          (insertEv pi e true (setPool (setEv w1 e
            (fun x => { x with poolSerials := x.poolSerials ++ [(q.name, poolSerial w1 q)] })) pi
            (fun p => { p with serial := poolSerial w1 p }))).outs = w.outs := by
      intro w1 h1 h2
      obtain ⟨q', a1, a2, a3, a4⟩ := key
        (setPool (setEv w1 e (fun x => { x with poolSerials := x.poolSerials ++ [(q.name, poolSerial w1 q)] })) pi
          (fun p => { p with serial := poolSerial w1 p }))
        { q with serial := poolSerial w1 q }
        (by rw [getElem?_setPool]; simp [h1]) rfl rfl
      exact ⟨q', a1, a2, a3, by rw [a4]; exact h2⟩
    exact key2 _ (by split <;> simpa using hq) (by split <;> rfl)
  · split
    · rename_i hg3; simp [accept_g3] at hg3
    · obtain ⟨q', a1, a2, a3, a4⟩ := key
        (if ev.serial.isNone then
          { setEv w e (fun x => { x with serial := some (evSerial w q) }) with gserial := evSerial w q }
        else w) q (by split <;> simpa using hq) rfl rfl
      refine ⟨q', a1, a2, a3, ?_⟩
      rw [a4]; split <;> rfl


/-- `dispatch()` hands over a prefix of the buffer, in buffer order, and leaves the rest in place -/
theorem dispatch_fifo (pi : Nat) : ∀ (fuel : Nat) (w : W) (p : PoolSt), w.err = none → w.pools[pi]? = some p →
    1 ≤ p.bufSize → (p.buffer.length : Int) ≤ p.bufSize → (∀ e ∈ p.buffer, (w.events[e]?).isSome = true) →
    ∃ (k : Nat) (p' : PoolSt) (l : List POut), (dispatch pi fuel w).pools[pi]? = some p' ∧
      p'.buffer = p.buffer.drop k ∧ p'.bufSize = p.bufSize ∧
      (dispatch pi fuel w).outs = w.outs ++ l ∧ sentBy pi l = p.buffer.take k ∧ NoDiscard l
  | 0, w, p, he, hp, hs, hb, hv =>
    ⟨0, p, [], by simpa [dispatch] using hp, by simp, rfl, by simp [dispatch], by simp [sentBy], by intro o ho; simp at ho⟩
  | fuel + 1, w, p, he, hp, hs, hb, hv => by
    unfold dispatch
    simp only [hp]
    cases hbuf : p.buffer with
    | nil =>
      simp only []
      exact ⟨0, p, [], hp, by simp [hbuf], rfl, by simp, by simp [sentBy], by intro o ho; simp at ho⟩
    | cons e rest =>
      simp only []
      -- the pop
      have hw1 : (setPool w pi (fun p => { p with buffer := p.buffer.drop 1 })).pools[pi]? =
          some { p with buffer := rest } := by
        rw [getElem?_setPool]; simp [hp, hbuf]
      obtain ⟨g1, g2, l1, g3, g4, g5⟩ := dispatchEvent_spec pi e (setPool w pi (fun p => { p with buffer := p.buffer.drop 1 })) he
      obtain ⟨q, hq, q1, q2, q3, q4⟩ := g1.2.2 pi _ hw1
      simp only [g2, Option.isSome_none, Bool.false_eq_true, if_false]
      have hlen : (rest.length : Int) + 1 ≤ p.bufSize := by rw [hbuf] at hb; simpa using hb
      have hvalid : ∀ x ∈ rest, ((dispatchEvent pi e (setPool w pi (fun p => { p with buffer := p.buffer.drop 1 }))).1.events[x]?).isSome = true := by
        intro x hx; rw [g1.1]; exact hv x (by rw [hbuf]; simp [hx])
      cases hok : (dispatchEvent pi e (setPool w pi (fun p => { p with buffer := p.buffer.drop 1 }))).2 with
      | true =>
        simp only [if_true]
        rw [hok] at g4
        obtain ⟨k, p', l2, r1, r2, r3, r4, r5, r6⟩ := dispatch_fifo pi fuel _ q g2 hq (by rw [q2]; exact hs)
          (by rw [q1, q2]; simp only []; omega) (by rw [q1]; exact hvalid)
        refine ⟨k + 1, p', l1 ++ l2, r1, by rw [r2, q1]; simp, by rw [r3, q2], by rw [r4, g3]; simp [setPool, List.append_assoc],
          by rw [sentBy_append, g4, r5, q1]; simp, ?_⟩
        intro o ho; rcases List.mem_append.mp ho with ho | ho
        · exact g5 o ho
        · exact r6 o ho
      | false =>
        simp only [Bool.false_eq_true, if_false]
        rw [hok] at g4
        have hev : ∃ ev, (dispatchEvent pi e (setPool w pi (fun p => { p with buffer := p.buffer.drop 1 }))).1.events[e]? = some ev := by
          rw [g1.1]
          have := hv e (by rw [hbuf]; simp)
          exact Option.isSome_iff_exists.mp this
        obtain ⟨ev, hev⟩ := hev
        have hno : overflowed q = false := by
          cases hov : overflowed q
          · rfl
          · have := (overflowed_iff q).mp hov
            rw [q1, q2] at this; simp only [] at this; omega
        obtain ⟨q', a1, a2, a3, a4⟩ := acceptEvent_head_spec pi e _ q ev hq hev hno
        refine ⟨0, q', l1, a1, by rw [a2, q1]; simp, by rw [a3, q2], by rw [a4, g3]; simp [setPool], by rw [g4]; simp, g5⟩


/-! ### isolation -/

/-- what no pool operation ever changes except through the listener operation itself: the listeners, their
    object identities, their names -/
def fixedPart (p : PoolSt) : List Lst × List Nat × List String := (p.procs, p.ids, p.names)

theorem insBuf_fixed (e : Nat) (head : Bool) (p : PoolSt) : fixedPart (insBuf e head p) = fixedPart p := by
  unfold insBuf fixedPart
  simp only [accept_g6]
  cases head <;> simp

theorem insertEv_other (i e : Nat) (head : Bool) (w : W) (j : Nat) (hj : j ≠ i) :
    (insertEv i e head w).pools[j]? = w.pools[j]? := by
  unfold insertEv
  split
  · rfl
  · rw [getElem?_setPool, if_neg (Ne.symm hj)]
    split
    · split <;> rfl
    · rfl

theorem insertEv_fixed (i e : Nat) (head : Bool) (w : W) (j : Nat) :
    (insertEv i e head w).pools[j]?.map fixedPart = w.pools[j]?.map fixedPart := by
  by_cases hj : j = i
  · subst hj
    cases hp : w.pools[j]? with
    | none => unfold insertEv; simp [hp]
    | some p => rw [(insertEv_spec j e head w p hp).1]; simp [insBuf_fixed]
  · rw [insertEv_other i e head w j hj]

theorem setSerial_fixed (w : W) (i j : Nat) (g : PoolSt → Int) :
    (setPool w i (fun p => { p with serial := g p })).pools[j]?.map fixedPart = w.pools[j]?.map fixedPart := by
  rw [getElem?_setPool]
  split
  · cases w.pools[j]? <;> simp [fixedPart]
  · rfl

/-- the listeners of every pool are untouched by `_acceptEvent` -/
theorem acceptEvent_fixed (i e : Nat) (head : Bool) (w : W) (j : Nat) :
    (acceptEvent i e head w).pools[j]?.map fixedPart = w.pools[j]?.map fixedPart := by
  unfold acceptEvent
  split
  · simp only []
    split
    · rw [insertEv_fixed, setSerial_fixed]
      simp only [setEv_pools]
      split <;> rfl
    · split
      · split <;> rfl
      · rw [insertEv_fixed]; split <;> rfl
  · rfl

theorem rejected_fixed (who : Option Nat) (e : Nat) (w : W) (j : Nat) :
    (rejected who e w).pools[j]?.map fixedPart = w.pools[j]?.map fixedPart := by
  unfold rejected
  generalize rejecters w.reg = l
  induction l generalizing w with
  | nil => rfl
  | cons i l ih =>
    simp only [List.foldl_cons]
    rw [ih]
    split
    · split
      · exact acceptEvent_fixed i e true w j
      · rfl
    · rfl

theorem whoOf_congr (w w' : W) (pi li : Nat) (h : w'.pools[pi]?.map fixedPart = w.pools[pi]?.map fixedPart) :
    whoOf w' pi li = whoOf w pi li := by
  unfold whoOf
  cases h1 : w'.pools[pi]? <;> cases h2 : w.pools[pi]? <;> simp [h1, h2, fixedPart] at h ⊢
  rw [h.2.1]

/-- one step of `absorb` -/
theorem absorb_cons (pi li : Nat) (o : Listener.Out) (os : List Listener.Out) (w : W) :
    ∃ w1, absorb pi li (o :: os) w = absorb pi li os w1 ∧
      (w1 = { w with outs := w.outs ++ [POut.lis pi li o] } ∨
       ∃ e, w1 = rejected (whoOf w pi li) e { w with outs := w.outs ++ [POut.lis pi li o] }) := by
  cases o with
  | rejected x =>
    cases x with
    | none => exact ⟨_, rfl, Or.inl rfl⟩
    | some e => exact ⟨_, rfl, Or.inr ⟨e, rfl⟩⟩
  | _ => exact ⟨_, rfl, Or.inl rfl⟩

theorem absorb_fixed (pi li : Nat) (j : Nat) : ∀ (os : List Listener.Out) (w : W),
    (absorb pi li os w).pools[j]?.map fixedPart = w.pools[j]?.map fixedPart
  | [], w => rfl
  | o :: os, w => by
    obtain ⟨w1, h1, h2⟩ := absorb_cons pi li o os w
    rw [h1, absorb_fixed pi li j os w1]
    rcases h2 with rfl | ⟨e, rfl⟩
    · rfl
    · rw [rejected_fixed]

/-- a pool that does not own listener `li` of pool `pi` is untouched by whatever that listener's outputs cause -/
theorem absorb_other (pi li : Nat) (j : Nat) : ∀ (os : List Listener.Out) (w : W),
    (∀ p, w.pools[j]? = some p → owns p (whoOf w pi li) = false) →
    (absorb pi li os w).pools[j]? = w.pools[j]?
  | [], w, _ => rfl
  | o :: os, w, hj => by
    obtain ⟨w1, h1, h2⟩ := absorb_cons pi li o os w
    have hw1 : w1.pools[j]? = w.pools[j]? ∧ whoOf w1 pi li = whoOf w pi li := by
      rcases h2 with rfl | ⟨e, rfl⟩
      · exact ⟨rfl, rfl⟩
      · exact ⟨rejected_other _ e _ j hj, whoOf_congr _ _ pi li (rejected_fixed _ e _ pi)⟩
    rw [h1, absorb_other pi li j os w1 (by intro p hp; rw [hw1.2]; exact hj p (hw1.1 ▸ hp)), hw1.1]

/-- whatever a listener does (`f` = any listener-level operation: its output arriving, its stdin becoming writable,
    a pipe fault, its death ...) touches no pool that does not own that listener's process object, and within its own
    pool no other listener -/
theorem onListener_isolated (pi li : Nat) (f : Listener.S → Listener.S) (w : W) :
    (∀ j, j ≠ pi → (∀ p, w.pools[j]? = some p → owns p (whoOf w pi li) = false) →
      (onListener pi li f w).pools[j]? = w.pools[j]?) ∧
    (∀ (p p' : PoolSt) (k : Nat), w.pools[pi]? = some p → (onListener pi li f w).pools[pi]? = some p' → k ≠ li →
      p'.procs[k]? = p.procs[k]? ∧ p'.ids = p.ids ∧ p'.names = p.names) := by
  unfold onListener
  split
  · exact ⟨fun _ _ _ => rfl, fun p p' k h1 h2 _ => by rw [h1] at h2; cases h2; exact ⟨rfl, rfl, rfl⟩⟩
  · split
    · exact ⟨fun _ _ _ => rfl, fun p p' k h1 h2 _ => by rw [h1] at h2; cases h2; exact ⟨rfl, rfl, rfl⟩⟩
    · split
      · exact ⟨fun _ _ _ => rfl, fun p p' k h1 h2 _ => by rw [h1] at h2; cases h2; exact ⟨rfl, rfl, rfl⟩⟩
      · split
        · exact ⟨fun _ _ _ => rfl, fun p p' k h1 h2 _ => by rw [h1] at h2; cases h2; exact ⟨rfl, rfl, rfl⟩⟩
        · rename_i pool hpool _ _ l _
          have hwho : whoOf (setPool w pi (fun p => { p with procs := p.procs.set li (f { p := l }).p })) pi li = whoOf w pi li := by
            unfold whoOf
            rw [getElem?_setPool]; simp only [if_true]
            cases w.pools[pi]? <;> rfl
          refine ⟨fun j hj hown => ?_, fun p p' k h1 h2 hk => ?_⟩
          · show (absorb pi li _ _).pools[j]? = _
            rw [absorb_other pi li j _ _ (by
              intro q hq
              rw [getElem?_setPool, if_neg (Ne.symm hj)] at hq
              rw [hwho]; exact hown q hq), getElem?_setPool, if_neg (Ne.symm hj)]
          · have h3 : (absorb pi li (f { p := l }).outs
                (setPool w pi (fun p => { p with procs := p.procs.set li (f { p := l }).p }))).pools[pi]? = some p' := h2
            have h4 := absorb_fixed pi li pi (f { p := l }).outs
              (setPool w pi (fun p => { p with procs := p.procs.set li (f { p := l }).p }))
            rw [h3, getElem?_setPool] at h4
            simp only [if_true, h1, Option.map_some, fixedPart] at h4
            have h5 : p'.procs = p.procs.set li (f { p := l }).p ∧ p'.ids = p.ids ∧ p'.names = p.names := by simpa using h4
            exact ⟨by rw [h5.1, List.getElem?_set_ne (Ne.symm hk)], h5.2.1, h5.2.2⟩

end Sv.Pool
